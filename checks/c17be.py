"""C17 — back end and back-reference table (DESIGN.md §3 C17, extension): E-GEN for the constants / guards the
back-end theorems are stated over, the white-box differentials (model vs real `Backend`, model vs real back-reference
table), the malloc-level runs with implementation-side monitors (tiling, bins, live blocks vs metadata, backref
bijection, recognition) and invariant validation of real snapshots by the Lean predicates, the multi-threaded run.

Generated into lean/TbbVerif/Generated/C17Backend.lean (separate from Generated/C17.lean, which C18 shares)."""
import json
import os
import re

import cexpr
import common
from common import BuildError, REPO, cxx_build, drv, gen_write, log, sh

SRC = os.path.join(REPO, "src/tbbmalloc")
WB_FLAGS = ["-O1", "-g", "-fno-access-control", "-D__TBBMALLOC_BUILD", "-I" + os.path.join(REPO, "src"), "-pthread"]
WB_LIBS = ["-ldl", "-pthread"]


def c17():
    import c17 as m
    return m


def read(p):
    return open(p).read()


def be_build(pid="C17"):
    return cxx_build(pid, "be", ["harness/c17/be.cpp"], flags=WB_FLAGS, libs=WB_LIBS)


# ---------------------------------------------------------------------------------------------
# E-GEN
# ---------------------------------------------------------------------------------------------
def clean_body(text, sig):
    m = c17()
    return m.drop_calls(m.strip_comments(m.function_body(m.strip_comments(text), sig)))


def statements(body):
    """top-level `;`-terminated statements and `{}` blocks of a function body, as a tiny AST:
    ("if", cond, then, else|None) | ("block", [stmts]) | ("stmt", text)"""
    m = c17()
    pos = [0]
    n = len(body)

    def skip():
        while pos[0] < n and body[pos[0]].isspace():
            pos[0] += 1

    def stmt():
        skip()
        if pos[0] >= n:
            return None
        if body[pos[0]] == "{":
            j = m.match_paren(body, pos[0], "{", "}")
            inner = statements(body[pos[0] + 1:j - 1])
            pos[0] = j
            return ("block", inner)
        mm = re.compile(r"if\s*\(").match(body, pos[0])
        if mm:
            j = m.match_paren(body, mm.end() - 1)
            cond = " ".join(body[mm.end():j - 1].split())
            pos[0] = j
            th = stmt()
            skip()
            el = None
            me = re.compile(r"else\b").match(body, pos[0])
            if me:
                pos[0] = me.end()
                el = stmt()
            return ("if", cond, th, el)
        j = pos[0]
        depth = 0
        while j < n:
            ch = body[j]
            if ch in "([{":
                depth += 1
            elif ch in ")]}":
                depth -= 1
            elif ch == ";" and depth == 0:
                break
            j += 1
        text = " ".join(body[pos[0]:j].split())
        pos[0] = j + 1
        return ("stmt", text)

    out = []
    while True:
        s = stmt()
        if s is None:
            return out
        if s != ("stmt", ""):
            out.append(s)


def gen_size_to_bin(consts):
    m = c17()
    body = clean_body(read(os.path.join(SRC, "backend.h")), r"static\s+int\s+sizeToBin\s*\(\s*size_t\s+size\s*\)")
    st = statements(body)
    # if (c1) return HUGE_BIN; else if (c2) return NO_BIN; int bin = e; return bin;
    if not (len(st) >= 3 and st[0][0] == "if"):
        raise cexpr.CExprError("sizeToBin: unexpected shape")
    env = {"size": ("size", "u64")}
    cases = []
    node = st[0]
    while node and node[0] == "if":
        r = re.fullmatch(r"return\s+(\w+)", node[2][1] if node[2][0] == "stmt" else "")
        if not r:
            raise cexpr.CExprError("sizeToBin: branch is not `return X`")
        cases.append((node[1], r.group(1)))
        node = node[3]
    if node is not None:
        raise cexpr.CExprError("sizeToBin: trailing else")
    d = re.fullmatch(r"int\s+(\w+)\s*=\s*(.+)", st[1][1])
    r = re.fullmatch(r"return\s+(\w+)", st[-1][1])
    if not d or not r or r.group(1) != d.group(1):
        raise cexpr.CExprError("sizeToBin: tail is not `int bin = e; return bin;`")
    val = {"HUGE_BIN": "(%d : Int)" % consts["HUGE_BIN"][0], "NO_BIN": "(-1 : Int)"}
    e = m.tr_expr(d.group(2), env, consts, want="i32")[0]
    out = e
    for cond, ret in reversed(cases):
        if ret not in val:
            raise cexpr.CExprError("sizeToBin: unknown return value " + ret)
        out = "(if %s then %s else %s)" % (m.tr_expr(cond, env, consts, want="bool")[0], val[ret], out)
    return "def sizeToBinG (size : Nat) : Int :=\n  %s\n" % out, {"sizeToBin": body.strip()}


def ptr_casts(s):
    """pointer casts / pointer-typed values become plain integers"""
    s = re.sub(r"\(\s*(?:char|void|FreeBlock|uintptr_t)\s*\*?\s*\)\s*", "", s)
    s = re.sub(r"reinterpret_cast<\s*std::uintptr_t\s*>", "", s)
    return s


def gen_bins(consts):
    m = c17()
    out, src = "", {}
    # isAligned(p, a)  (tbb::detail::is_aligned)
    ut = read(os.path.join(REPO, "include/oneapi/tbb/detail/_utils.h"))
    body = clean_body(ut, r"constexpr\s+bool\s+is_aligned\s*\(\s*T\s*\*\s*pointer\s*,\s*std::uintptr_t\s+alignment\s*\)")
    r = re.fullmatch(r"\s*return\s+([^;]+);\s*", body, re.S)
    if not r:
        raise cexpr.CExprError("is_aligned: body is not `return e;`")
    P = [("pointer", "u64"), ("alignment", "u64")]
    e = m.tr_expr(ptr_casts(r.group(1)).replace("std::uintptr_t", "uintptr_t"), {p: (p, t) for p, t in P}, consts, want="bool")[0]
    out += m.lean_def("isAlignedG", P, "bool", e)
    funcs = dict(m.F_ALIGN)
    funcs["isAligned"] = ("isAlignedG", ["u64", "u64"], "bool")
    # toAlignedBin
    body = clean_body(read(os.path.join(SRC, "backend.h")), r"static\s+bool\s+toAlignedBin\s*\(\s*FreeBlock\s*\*\s*block\s*,\s*size_t\s+size\s*\)")
    r = re.fullmatch(r"\s*return\s+([^;]+);\s*", body, re.S)
    if not r:
        raise cexpr.CExprError("toAlignedBin: body is not `return e;`")
    P = [("block", "u64"), ("size", "u64")]
    src["toAlignedBin"] = " ".join(r.group(1).split())
    out += m.lean_def("toAlignedBinG", P, "bool", m.tr_expr(ptr_casts(r.group(1)), {p: (p, t) for p, t in P}, consts, funcs, want="bool")[0])
    # the two fit tests of getFromBin: the `if` whose body is `fBlock = curr;`
    be = read(os.path.join(SRC, "backend.cpp"))
    body = clean_body(be, r"FreeBlock\s*\*\s*Backend::IndexedBins::getFromBin\s*\(")
    fits = []
    for mm in re.finditer(r"if\s*\(", body):
        j = m.match_paren(body, mm.end() - 1)
        if re.match(r"\s*fBlock\s*=\s*curr\s*;", body[j:]):
            # locals declared before it inside the same block
            k = body.rfind("{", 0, mm.start())
            fits.append((body[k + 1:mm.start()], " ".join(body[mm.end():j - 1].split())))
    if len(fits) != 2:
        raise cexpr.CExprError("getFromBin: expected two fit tests guarding `fBlock = curr;`, found %d" % len(fits))
    P = [("curr", "u64"), ("szBlock", "u64"), ("size", "u64")]
    for name, (decls, cond) in zip(("fitGeneralG", "fitAlignedG"), fits):
        env = {p: (p, t) for p, t in P}
        decls = ptr_casts(decls).replace("void *", "uintptr_t ")
        rest = m.tr_locals(decls, env, consts, funcs)
        if rest.strip():
            raise cexpr.CExprError("getFromBin: cannot read the declarations before the fit test: %r" % rest.strip()[:80])
        src[name] = cond
        out += m.lean_def(name, P, "bool", m.tr_expr(ptr_casts(cond), env, consts, funcs, want="bool")[0])
    return out, src


def gen_backref(consts):
    m = c17()
    br = read(os.path.join(SRC, "backref.cpp"))
    body = clean_body(br, r"void\s*\*\s*getBackRef\s*\(\s*BackRefIdx\s+backRefIdx\s*\)")
    st = statements(body)
    if not (st and st[0][0] == "if"):
        raise cexpr.CExprError("getBackRef: does not start with the bounds test")
    ret = st[0][2]
    if ret[0] == "block":
        ret = ret[1][0] if len(ret[1]) == 1 else ("stmt", "?")
    if ret != ("stmt", "return nullptr"):
        raise cexpr.CExprError("getBackRef: the bounds test does not return nullptr")
    cond = st[0][1]
    src = {"getBackRefGuard": cond}
    # the table pointer itself is not part of the arithmetic
    c2 = re.sub(r"!\s*\(\s*backRefMain\.load\s*\([^)]*\)\s*\)\s*\|\|", "", cond)
    c2 = re.sub(r"\(?\s*backRefMain\.load\s*\([^)]*\)\s*->\s*lastUsed\.load\s*\([^)]*\)\s*\)?", " lastUsed ", c2)
    c2 = c2.replace("backRefIdx.getMain()", "idxMain").replace("backRefIdx.getOffset()", "idxOffset")
    env = {"lastUsed": ("lastUsed", "i64"), "idxMain": ("idxMain", "u32"), "idxOffset": ("(wrapS 32 ((idxOffset : Nat) : Int))", "i32")}
    e = m.tr_expr(c2, env, dict(consts, BR_MAX_CNT=(consts["BR_MAX_CNT"][0], "i32")), want="bool")[0]
    return "def getBackRefRejectG (lastUsed : Int) (idxMain : Nat) (idxOffset : Nat) : Bool :=\n  %s\n" % e, src


def gen_remap(consts):
    """Backend::remap: the sizes of the re-mapped region, regenerated with the roles recognised by USE (which variable is
    passed to mremap, stored as blockSz, added to the new region address), not by name."""
    m = c17()
    be = read(os.path.join(SRC, "backend.cpp"))
    body = clean_body(be, r"void\s*\*\s*Backend::remap\s*\(\s*void\s*\*\s*ptr\s*,\s*size_t\s+oldSize\s*,\s*size_t\s+newSize\s*,\s*size_t\s+alignment\s*\)")
    src = {}
    mreg = re.search(r"MemRegion\s*\*\s*(\w+)\s*=\s*static_cast<\s*LastFreeBlock\s*\*\s*>\s*\(\s*\w+\s*\)\s*->\s*memRegion", body)
    if not mreg:
        raise cexpr.CExprError("remap: the old region pointer is not found")
    oldreg = mreg.group(1)
    mm = re.search(r"mremap\s*\(\s*%s\s*,[^,]+,\s*(\w+)\s*,\s*MREMAP_MAYMOVE\s*\)" % oldreg, body)
    mb = re.search(r"(\w+)\s*->\s*blockSz\s*=\s*(\w+)\s*;", body)
    mo = re.search(r"void\s*\*\s*object\s*=\s*\(\s*void\s*\*\s*\)\s*\(\s*\(\s*uintptr_t\s*\)\s*(\w+)\s*\+\s*(\w+)\s*\)", body)
    mf = re.search(r"FreeBlock\s*\*\s*fBlock\s*=\s*\(\s*FreeBlock\s*\*\s*\)\s*([^;]+);", body)
    if not (mm and mb and mo and mf):
        raise cexpr.CExprError("remap: mremap call / blockSz store / object address / new block address not found")
    v_request, v_aligned, v_offset, newreg = mm.group(1), mb.group(2), mo.group(2), mo.group(1)
    funcs = dict(m.F_ALIGN)
    funcs["LargeObjectCache::alignToBin"] = ("TbbVerif.Generated.C18.locAlignToBin", ["u64"], "u64")
    funcs["min"] = ("min", ["u64", "u64"], "u64")
    funcs["isAligned"] = ("isAlignedG", ["u64", "u64"], "bool")
    P = [("ptr", "u64"), ("region", "u64"), ("oldSize", "u64"), ("newSize", "u64"), ("alignment", "u64"), ("granularity", "u64")]
    env = {p: (p, t) for p, t in P}
    text = body.replace("extMemPool->granularity", "granularity")
    text = re.sub(r"\(\s*uintptr_t\s*\)\s*%s\b" % oldreg, "region", text)
    text = re.sub(r"\(\s*uintptr_t\s*\)\s*ptr\b", "ptr", text)
    # every `const size_t NAME = EXPR;` that can be translated, in order
    for d in re.finditer(r"const\s+size_t\s+(\w+)\s*=\s*([^;]+);", text):
        try:
            env[d.group(1)] = m.tr_expr(d.group(2), env, consts, funcs, want="u64")
        except cexpr.CExprError:
            pass
    for v in (v_request, v_aligned, v_offset):
        if v not in env:
            raise cexpr.CExprError("remap: cannot translate the definition of `%s`" % v)
    # the wrap-around test: the `if (...) return nullptr;` that follows the definition of the request size
    k = re.search(r"const\s+size_t\s+%s\s*=\s*[^;]+;\s*if\s*\(" % v_request, text)
    if not k:
        raise cexpr.CExprError("remap: no test after the definition of the request size")
    j = m.match_paren(text, k.end() - 1)
    if not re.match(r"\s*return\s+nullptr\s*;", text[j:]):
        raise cexpr.CExprError("remap: the test after the request size does not return nullptr")
    wrap = " ".join(text[k.end():j - 1].split())
    src.update({"remapWrapTest": wrap, "remapAlignedSize": v_aligned, "remapRequestSize": v_request, "remapUserOffset": v_offset})
    out = m.lean_def("remapUserOffsetG", P, "u64", env[v_offset][0])
    out += m.lean_def("remapAlignedSizeG", P, "u64", env[v_aligned][0])
    out += m.lean_def("remapRequestSizeG", P, "u64", env[v_request][0])
    out += m.lean_def("remapRejectG", P, "bool", m.tr_expr(wrap, env, consts, funcs, want="bool")[0])
    # the first test (no remap at all)
    st = statements(text)
    if not (st and st[0][0] == "if" and st[0][2] == ("stmt", "return nullptr")):
        raise cexpr.CExprError("remap: does not start with the applicability test")
    c0 = st[0][1].replace("inUserPool()", "inUserPool")
    env2 = dict(env, inUserPool=("inUserPool", "bool"))
    src["remapEarly"] = c0
    out += m.lean_def("remapEarlyRejectG", [("inUserPool", "bool")] + P, "bool", m.tr_expr(c0, env2, consts, funcs, want="bool")[0])
    # where the new block and the object are
    PN = [("newRegion", "u64"), ("userOffset", "u64")]
    e = m.tr_expr(re.sub(r"\(\s*uintptr_t\s*\)\s*%s\b" % newreg, "newRegion", mf.group(1)), {p: (p, t) for p, t in PN}, consts, funcs, want="u64")[0]
    out += m.lean_def("remapBlockG", PN, "u64", e)
    out += m.lean_def("remapObjectG", PN, "u64", "((newRegion + userOffset) % 2^64)")
    return out, src


def gen_calloc(consts):
    """scalable_calloc: on every path that returns the non-null result, was memset(result, 0, arraySize) executed?
    The answer is a Boolean expression over `arraySize` (path conditions that mention only it)."""
    m = c17()
    fe = read(os.path.join(SRC, "frontend.cpp"))
    body = clean_body(fe, r'extern\s+"C"\s+void\s*\*\s*scalable_calloc\s*\(\s*size_t\s+nobj\s*,\s*size_t\s+size\s*\)')
    k = re.search(r"void\s*\*\s*(\w+)\s*=\s*internalMalloc\s*\(\s*(\w+)\s*\)\s*;", body)
    if not k:
        raise cexpr.CExprError("scalable_calloc: `void* result = internalMalloc(arraySize)` not found")
    res, arr = k.group(1), k.group(2)
    tail = statements(body[k.end():])
    env = {"arraySize": ("arraySize", "u64")}
    consts2 = dict(consts)
    consts2["LargeObjectCache::defaultMaxHugeSize"] = (consts["defaultMaxHugeSize"][0], "u64")

    def cond_of(c):
        c = c.strip()
        if re.fullmatch(r"%s" % res, c) or re.fullmatch(r"%s\s*!=\s*nullptr" % res, c):
            return "nonnull"
        if re.fullmatch(r"!\s*%s" % res, c) or re.fullmatch(r"%s\s*==\s*nullptr" % res, c):
            return "null"
        return m.tr_expr(c.replace(arr, "arraySize"), env, consts2, want="bool")[0]

    paths = []          # (lean condition list, memset done) for every path returning the non-null result

    def run(stmts, conds, done, k_after):
        """symbolic execution assuming result != nullptr; k_after: continuation (list of statement lists)"""
        if not stmts:
            if k_after:
                return run(k_after[0], conds, done, k_after[1:])
            raise cexpr.CExprError("scalable_calloc: a path falls off the end")
        s, rest = stmts[0], stmts[1:]
        if s[0] == "block":
            return run(s[1] + rest, conds, done, k_after)
        if s[0] == "if":
            c = cond_of(s[1])
            th = [s[2]] if s[2] else []
            el = [s[3]] if s[3] else []
            if c == "nonnull":
                return run(th + rest, conds, done, k_after)
            if c == "null":
                return run(el + rest, conds, done, k_after)
            run(th + rest, conds + [c], done, k_after)
            run(el + rest, conds + ["(!%s)" % c], done, k_after)
            return
        t = s[1]
        if re.fullmatch(r"memset\s*\(\s*%s\s*,\s*0\s*,\s*%s\s*\)" % (res, arr), t):
            return run(rest, conds, True, k_after)
        if re.fullmatch(r"return\s+%s" % res, t):
            paths.append((conds, done))
            return
        if re.fullmatch(r"return\s+nullptr", t):
            return
        if re.fullmatch(r"errno\s*=\s*\w+", t):
            return run(rest, conds, done, k_after)
        raise cexpr.CExprError("scalable_calloc: statement not understood after the allocation: %r" % t)

    run(tail, [], False, [])
    if not paths:
        raise cexpr.CExprError("scalable_calloc: no path returns the result")
    terms = []
    for conds, done in paths:
        pc = " && ".join(conds) if conds else "true"
        terms.append("(!(%s) || %s)" % (pc, "true" if done else "false"))
    e = " && ".join(terms)
    src = {"callocPaths": [{"conditions": c, "memset": d} for c, d in paths]}
    return "def callocMemsetG (arraySize : Nat) : Bool :=\n  (%s)\n" % e, src


FALLBACKS = {
    "sizeToBin": "def sizeToBinG (size : Nat) : Int := (size : Int) % 7\n",
    "bins": ("def isAlignedG (pointer : Nat) (alignment : Nat) : Bool := decide ((pointer + alignment) % 7 = 3)\n"
             "def toAlignedBinG (block : Nat) (size : Nat) : Bool := decide ((block + size) % 7 = 3)\n"
             "def fitGeneralG (curr : Nat) (szBlock : Nat) (size : Nat) : Bool := decide ((szBlock + size) % 7 = 3)\n"
             "def fitAlignedG (curr : Nat) (szBlock : Nat) (size : Nat) : Bool := decide ((curr + szBlock + size) % 7 = 3)\n"),
    "backref": "def getBackRefRejectG (lastUsed : Int) (idxMain : Nat) (idxOffset : Nat) : Bool := decide ((idxMain + idxOffset) % 7 = 3)\n",
    "remap": "".join("def %s %s(ptr : Nat) (region : Nat) (oldSize : Nat) (newSize : Nat) (alignment : Nat) (granularity : Nat) : %s := %s\n" % (
        n, "(inUserPool : Bool) " if n == "remapEarlyRejectG" else "", t, v) for n, t, v in (
        ("remapUserOffsetG", "Nat", "(ptr + region) % 7"), ("remapAlignedSizeG", "Nat", "(ptr + newSize) % 7"),
        ("remapRequestSizeG", "Nat", "(ptr + newSize) % 7"), ("remapRejectG", "Bool", "decide ((ptr + newSize) % 7 = 3)"),
        ("remapEarlyRejectG", "Bool", "decide ((ptr + newSize) % 7 = 3)")))
    + "def remapBlockG (newRegion : Nat) (userOffset : Nat) : Nat := (newRegion + userOffset) % 7\n"
    + "def remapObjectG (newRegion : Nat) (userOffset : Nat) : Nat := (newRegion + userOffset) % 7\n",
    "calloc": "def callocMemsetG (arraySize : Nat) : Bool := decide (arraySize % 7 = 3)\n",
}


def gen(ck):
    m = c17()
    exe = be_build()
    rc, out, err = sh([exe, "consts"], timeout=60)
    if rc != 0:
        raise BuildError("be consts failed rc=%d %s" % (rc, err[-500:]))
    c = json.loads(out)
    ck.extra["backend_constants"] = c
    body = "open TbbVerif.Generated.C17\nset_option linter.unusedVariables false\n"
    body += "".join("def %s : Nat := %d\n" % (k, v) for k, v in c.items() if v >= 0)
    _, c0 = m.wb_consts("C17")
    consts = m.cexpr_consts(c0)
    consts.update({"maxBinned_HugePage": (c["beMaxBinnedHugePage"], "u64"), "minBinnedSize": (c["beMinBinnedSize"], "u64"),
                   "maxBinned_SmallPage": (c["beMaxBinnedSmallPage"], "u64"),
                   "freeBinsStep": (c["beFreeBinsStep"], "u64"), "HUGE_BIN": (c["beHugeBin"], "i32"),
                   "FreeBlock::minBlockSize": (c["beMinBlockSize"], "u64"), "BR_MAX_CNT": (c["brMaxCnt"], "i32"),
                   "sizeof(MemRegion)": c["beSizeofMemRegion"], "sizeof(LastFreeBlock)": c["beSizeofLastFreeBlock"],
                   "defaultMaxHugeSize": (c0["defaultMaxHugeSize"], "u64")})
    srcs = {}
    for key, fn in (("sizeToBin", gen_size_to_bin), ("bins", gen_bins), ("backref", gen_backref), ("remap", gen_remap), ("calloc", gen_calloc)):
        try:
            txt, src = fn(consts)
            srcs.update(src)
            ck.oblige("gen:backend:%s-translated" % key, "generated", True, src)
        except (cexpr.CExprError, OSError, KeyError) as e:
            ck.oblige("gen:backend:%s-translated" % key, "generated", False, "translator cannot read the source: %s" % e)
            txt = FALLBACKS[key]
        body += txt
    ck.extra["backend_guards_cxx"] = srcs
    gen_write("C17Backend", body, imports=("TbbVerif.Core.Cint", "TbbVerif.Generated.C17", "TbbVerif.Generated.C18"))
    ck.oblige("gen:backend:GuardedSize-special-values-below-min-block-size", "generated",
              c["gsMaxSpecVal"] < c["beMinBlockSize"] and c["gsLocked"] == 0 and c["gsCoalBlock"] == 1 and c["gsLastRegionBlock"] == 2,
              "LOCKED/COAL_BLOCK/LAST_REGION_BLOCK = %d/%d/%d, minBlockSize %d" % (c["gsLocked"], c["gsCoalBlock"], c["gsLastRegionBlock"], c["beMinBlockSize"]))
    return exe, c


# ---------------------------------------------------------------------------------------------
# running the white-box harness / the Lean drivers
# ---------------------------------------------------------------------------------------------
def records(out):
    recs, cur = [], []
    for l in out.split("\n"):
        if l == ".":
            recs.append(cur)
            cur = []
        elif l:
            cur.append(l)
    return recs


HUNG = [False]     # latched by the first harness run that does not return: the tree livelocks, later runs get a short leash


def run_be(exe, mode, lines, timeout=150, extra=()):
    """healthy trees finish these runs in milliseconds to a few seconds, so the generous default never decides a verdict;
    once one run has hung, waiting the full time again for every later script / shrink attempt would only burn hours"""
    if HUNG[0]:
        timeout = min(timeout, 20)
    rc, out, err = sh([exe, mode] + list(extra), input="\n".join(lines) + "\n", timeout=timeout)
    if rc == -9:
        HUNG[0] = True
    return rc, records(out), err


def mons(rec):
    return [l for l in rec if l.startswith("MON ")]


# ---- bk: model vs the real Backend ----------------------------------------------------------
STEP, SLAB = 8192, 16384
BK_CFGS = [(0, 0, 4096, 0), (0, 1, 4096, 0), (0, 0, 65536, 0), (0, 0, 2 * 1048576, 0),
           (1, 0, 4096, 4 * 1048576), (1, 0, 4096, 1048576 + 12288), (1, 0, 4096, 3 * 1048576 + 4096)]


def bk_pick_large(rng):
    r = rng.random()
    if r < 0.35:
        k = rng.choice([1, 2, 3, 4, 5, 8, 15, 16, 17, 31, 32, 63, 64, 100, 126, 127, 128])
        return max(8192, k * STEP + rng.choice([-64, -8, 0, 0, 0, 8, 64, 4096]))
    if r < 0.45:
        return rng.choice([8192, 8200, 8256, 16384, 16392])
    if r < 0.65:
        return rng.choice([1048576 - 8192, 1048576 - 64, 1048576, 1048576 + 64, 1048576 + 8192, 2 * 1048576, 3 * 1048576 + 4096])
    if r < 0.75:
        return rng.choice([4194304 - 8192, 4194304 - 8, 4194304, 4194304 + 8, 5000000 // 8 * 8])
    if r < 0.9:
        return rng.randrange(1024, 200000) * 8
    return rng.randrange(8192 // 8, 1048576 // 8) * 8


def bk_script(rng, n, cfg):
    """random operation sequence on one user pool's back end.  `putn k` / `markcoaln k` name the k-th block handed out;
    while another thread is 'inside' (`markcoaln` not yet completed by its `putn`, or bins locked) no operation that
    would wait for it is generated"""
    lines = ["cfg %d %d %d %d" % cfg]
    handed, live, coal, locked = 0, [], [], False
    i = 0
    while i < n:
        r = rng.random()
        can_get = not locked and not coal
        if r < 0.38 and can_get:
            if rng.random() < 0.5:
                num = rng.choice([1, 1, 1, 2, 2, 3, 4])
                lines.append("get %d %d 1" % (num, SLAB))
            else:
                num = 1 if rng.random() < 0.9 else rng.choice([2, 3])
                lines.append("get %d %d 0" % (num, bk_pick_large(rng)))
            live += list(range(handed, handed + num))
            handed += num
        elif r < 0.70 and live:
            j = rng.choice(live) if rng.random() < 0.7 else live[-1]
            lines.append("putn %d" % j)
            live.remove(j)
            if j in coal:
                coal.remove(j)
        elif r < 0.74 and live and not locked:
            j = rng.choice(live)
            if j in coal:
                continue
            lines.append("markcoaln %d" % j)
            coal.append(j)
        elif r < 0.78:
            if coal and rng.random() < 0.7:
                j = coal[0]
                lines.append("putn %d" % j)
                coal.remove(j)
                live.remove(j)
            elif not locked:
                lines.append("scan %d" % (1 if (rng.random() < 0.5 and not coal) else 0))
            else:
                continue
        elif r < 0.82 and can_get:
            lines.append("clean")
        elif r < 0.86:
            lines.append("unlockall" if locked else "lockempty")
            locked = not locked
        elif r < 0.88:
            lines.append("delay %d" % rng.randrange(2))
        elif r < 0.91:
            lines.append("skew %d" % rng.randrange(4))
        elif r < 0.93 and can_get:
            lines.append("osfail %d %d" % (rng.randrange(1, 4), rng.randrange(1, 3)))
        elif r < 0.94 and can_get:
            lines.append("reset")
            live, coal = [], []
        else:
            continue
        i += 1
    return lines


def bk_boundary_script(cfg):
    """deterministic: every way two/three neighbours can be given back, slabs and large blocks, sizes on bin borders"""
    L = ["cfg %d %d %d %d" % cfg]
    n = 0
    # three adjacent slabs, all orders of freeing
    import itertools
    for perm in itertools.permutations(range(3)):
        L.append("get 3 %d 1" % SLAB)
        for p in perm:
            L.append("putn %d" % (n + p))
        n += 3
    # large blocks of bin-border sizes carved from one region, freed in both directions
    sizes = [8192, 8192 + 8, 16384 - 8, 16384, 24576 + 64, 65536, 131072 - 8, 131072, 131072 + 8]
    for order in (1, -1):
        for sz in sizes:
            L.append("get 1 %d 0" % sz)
        idx = list(range(n, n + len(sizes)))[::order]
        for j in idx:
            L.append("putn %d" % j)
        n += len(sizes)
    L += ["clean", "get 1 1048576 0", "get 1 4194304 0", "putn %d" % n, "putn %d" % (n + 1), "clean"]
    n += 2
    # delayed coalescing: neighbour being freed by another thread / bins busy
    L += ["get 2 %d 1" % SLAB, "markcoaln %d" % n, "putn %d" % (n + 1), "putn %d" % n, "scan 0",
          "get 2 %d 1" % SLAB, "lockempty", "putn %d" % (n + 2), "putn %d" % (n + 3), "unlockall", "scan 1", "clean"]
    return L


def bk_model_input(lines, recs, fixedsize):
    ml = []
    for l, r in zip(lines, recs):
        raws = []
        for m in re.finditer(r"\[P (\d+) (\d+|fail)\]", r[1] if len(r) > 1 else ""):
            raws.append("fail" if m.group(2) == "fail" else "%s:%d" % (m.group(2), fixedsize if fixedsize else int(m.group(1))))
        ml.append(l + (" | " + " ".join(raws) if raws else ""))
    return ml


def bk_compare(exe, lines, timeout=150):
    """(kind, index, detail): kind None = agree; 'mon' = implementation-side monitor fired; 'diff' = model and code differ;
    'crash' = harness died"""
    fixedsize = int(lines[0].split()[4])
    rc, recs, err = run_be(exe, "bk", lines, timeout=timeout)
    for i, r in enumerate(recs):
        if mons(r):
            return "mon", i, mons(r)[:3]
    if rc != 0 or len(recs) != len(lines):
        what = "does not return (livelock: the operation after the last record never finishes)" if rc == -9 else "died"
        return "crash", len(recs), "harness %s, rc=%d after %d/%d operations %s" % (what, rc, len(recs), len(lines), err[-200:])
    mrecs = records("\n".join(drv("c17bk", "\n".join(bk_model_input(lines, recs, fixedsize)) + "\n", timeout=300)))
    for i, (a, b) in enumerate(zip(recs, mrecs)):
        if a != b:
            for x, y in zip(a, b):
                if x != y:
                    return "diff", i, "implementation: %s | model: %s" % (x[:300], y[:300])
            return "diff", i, "record lengths differ: implementation %s | model %s" % (a[-1][:200], b[-1][:200])
    if len(recs) != len(mrecs):
        return "diff", min(len(recs), len(mrecs)), "number of records differs"
    return None, None, None


def shrink_lines(lines, fails, keep_first=1, budget=60):
    cur = list(lines)
    n = 2
    while budget > 0 and len(cur) > keep_first + 1:
        chunk = max(1, (len(cur) - keep_first) // n)
        removed = False
        for i in range(keep_first, len(cur), chunk):
            cand = cur[:i] + cur[i + chunk:]
            budget -= 1
            if budget <= 0:
                break
            if fails(cand):
                cur = cand
                n = max(n - 1, 2)
                removed = True
                break
        if not removed:
            if chunk == 1:
                break
            n = min(n * 2, len(cur))
    return cur


def run_bk(ck, exe):
    quick = ck.tier == "quick"
    nseeds, nops = (5, 140) if quick else (40, 250)
    scripts = [("boundary-cfg%d" % i, bk_boundary_script(cfg)) for i, cfg in enumerate(BK_CFGS) if i in (0, 1, 4, 6)]
    for i, cfg in enumerate(BK_CFGS):
        for s in range(nseeds):
            scripts.append(("random-cfg%d-%d" % (i, s), bk_script(ck.rng, nops, cfg)))
    bad_mon, bad_diff = [], []
    ops = 0
    for name, lines in scripts:
        kind, idx, detail = bk_compare(exe, lines)
        ops += len(lines)
        ck.count(len(lines), ("bk", lines[0], name.split("-")[0]))
        ck.traces_validated += 1
        if kind in ("mon", "crash"):
            bad_mon.append((name, lines[:idx + 1], kind, detail))
        elif kind == "diff":
            bad_diff.append((name, lines[:idx + 1], detail))
        if len(bad_mon) + len(bad_diff) >= 3:
            break
    ck.sample({"bk-script": scripts[len(scripts) // 2][0], "first_ops": scripts[len(scripts) // 2][1][:10]})
    ck.oblige("monitor:back end direct drive (tiling exact, boundary tags consistent, bins hold free blocks of their size once, handed-out blocks "
              "disjoint / slab-aligned / untouched while in use, regions are live mappings)", "correspondence", not bad_mon,
              [(n, d) for n, _, _, d in bad_mon][:2])
    ck.oblige("corr:back end (Lean model of genericGetBlock/genericPutBlock/scanCoalescQ/clean/reset vs the real Backend, every state compared)",
              "correspondence", not bad_diff, [(n, d) for n, _, d in bad_diff][:2])
    for name, lines, kind, detail in bad_mon[:1]:
        # (a clean run of such a script takes milliseconds: 20 s per attempt is ample, and a hanging tree stays affordable)
        # keep the KIND of failure while shrinking: a monitor violation must not degrade into a follow-on crash / hang
        small = shrink_lines(lines, lambda ls: bk_compare(exe, ls, timeout=20)[0] == kind, budget=25)
        k2, i2, d2 = bk_compare(exe, small, timeout=20)
        ck.counterexample("backend:%s:%s" % (kind, c17().hash_lines(small)),
                          "back-end operation sequence (%d ops, shrunk from %d) on which an implementation-side monitor fires: %s" % (len(small), len(lines), d2 or detail),
                          {"engine": "E-PURE", "harness": "harness/c17/be.cpp", "mode": "bk", "stdin": small, "observed": d2 or detail, "expect": "no-MON"})
    if bad_diff and not bad_mon:
        # the model and the code disagree: look for an input on which the PROPERTY fails (a monitor fires)
        found = None
        for s in range(30 if quick else 200):
            cfg = ck.rng.choice(BK_CFGS)
            lines = bk_script(ck.rng, 200, cfg)
            rc, recs, err = run_be(exe, "bk", lines)
            hit = [i for i, r in enumerate(recs) if mons(r)]
            if hit or rc != 0:
                found = lines[:(hit[0] if hit else len(recs)) + 1]
                break
        if found:
            small = shrink_lines(found, lambda ls: bk_compare(exe, ls)[0] in ("mon", "crash"))
            k2, i2, d2 = bk_compare(exe, small)
            ck.counterexample("backend:search:%s" % c17().hash_lines(small), "back-end operation sequence on which an implementation-side monitor fires: %s" % (d2,),
                              {"engine": "E-PURE", "harness": "harness/c17/be.cpp", "mode": "bk", "stdin": small, "observed": d2, "expect": "no-MON"})


# ---- br: model vs the real back-reference table ------------------------------------------------
def br_script(rng, n):
    lines, live, nid = [], [], 0
    for _ in range(n):
        r = rng.random()
        if r < 0.5 or not live:
            lines.append("new %d %d" % (nid, rng.randrange(2)))
            live.append(nid)
            nid += 1
        elif r < 0.65:
            lines.append("set %d %d" % (rng.choice(live), rng.randrange(1, 1 << 36)))
        elif r < 0.72:
            lines.append("getid %d" % rng.choice(live))
        elif r < 0.82:
            lines.append("get %d %d %d" % (rng.choice([0, 1, 2, 3, 4, 5, 7, 8, 100, 32761, 32762, 65535, 4294967295, rng.randrange(0, 10)]),
                                           rng.choice([0, 1, 2039, 2040, 2041, 32767, rng.randrange(0, 2100)]), rng.randrange(2)))
        else:
            j = rng.choice(live)
            live.remove(j)
            lines.append("rm %d" % j)
    return lines


def br_compare(exe, lines):
    rc, recs, err = run_be(exe, "br", lines)
    for i, r in enumerate(recs):
        if mons(r):
            return "mon", i, mons(r)[:3]
    if rc != 0 or len(recs) != len(lines) + 1:
        return "crash", len(recs), "harness rc=%d after %d/%d operations %s" % (rc, len(recs), len(lines), err[-200:])
    ml = ["load " + l for l in recs[0][2:] if l[:2] in ("T ", "L ")] + ["endload"]
    for l, r in zip(lines, recs[1:]):
        raws = [m.group(1) for m in re.finditer(r"\[A \d+ (\d+|fail)\]", r[1])]
        ml.append(l + (" | " + " ".join(raws) if raws else ""))
    mrecs = records("\n".join(drv("c17br", "\n".join(ml) + "\n", timeout=300)))
    for i, (a, b) in enumerate(zip(recs, mrecs)):
        if a != b:
            for x, y in zip(a, b):
                if x != y:
                    return "diff", i, "implementation: %s | model: %s" % (x[:300], y[:300])
            return "diff", i, "record lengths differ"
    return None, None, None


def br_bounds_sweep():
    """getBackRef of indices on and just beyond every edge of the table: each leaf (registered or not) x the last slot, the
    first offset past it, the largest 15-bit offset; `main` at lastUsed, lastUsed+1, the invalid marker.  An index past the
    last slot of the last leaf of a mapping lies outside the mapping: reading it faults."""
    L = []
    for m in list(range(0, 14)) + [32761, 32762, 65535, 4294967294, 4294967295]:
        for off in (0, 2039, 2040, 2041, 32767):
            L.append("get %d %d %d" % (m, off, (m + off) % 2))
    return L


def run_br(ck, exe):
    quick = ck.tier == "quick"
    scripts = [("bounds", br_bounds_sweep()),
               ("bounds-after-growth", ["quiet 1"] + ["new %d 1" % i for i in range(8400)] + ["quiet 0"] + br_bounds_sweep())]
    scripts += [("random-%d" % i, br_script(ck.rng, 400 if quick else 1500)) for i in range(3 if quick else 12)]
    # more than four leaves: the fifth .. come in batches through requestNewSpace; free lists across leaves
    burst = ["quiet 1"] + ["new %d 1" % i for i in range(8500)] + ["quiet 0", "quiet 1"] + ["rm %d" % i for i in range(0, 8500, 3)] \
        + ["quiet 0", "quiet 1"] + ["new %d 0" % (10000 + i) for i in range(3500)] + ["quiet 0", "get 4 2039 1", "get 5 0 0", "get 6 0 0", "getid 8499"]
    scripts.append(("burst", burst))
    bad_mon, bad_diff = [], []
    for name, lines in scripts:
        kind, idx, detail = br_compare(exe, lines)
        ck.count(len(lines), ("br", name.split("-")[0]))
        ck.traces_validated += 1
        if kind in ("mon", "crash"):
            bad_mon.append((name, lines[:idx + 1], kind, detail))
        elif kind == "diff":
            bad_diff.append((name, lines[:idx + 1], detail))
    ck.oblige("monitor:back-reference table direct drive (live indices distinct and allocated, free list inside the leaf, counts consistent, "
              "getBackRef of arbitrary bit patterns does not fault)", "correspondence", not bad_mon, [(n, d) for n, _, _, d in bad_mon][:2])
    ck.oblige("corr:back-reference table (Lean model of newBackRef/setBackRef/getBackRef/removeBackRef vs the real table, every state compared)",
              "correspondence", not bad_diff, [(n, d) for n, _, d in bad_diff][:2])
    for name, lines, kind, detail in bad_mon[:1]:
        small = shrink_lines(lines, lambda ls: br_compare(exe, ls)[0] == kind, keep_first=0) if len(lines) < 3000 else lines
        ck.counterexample("backref:%s:%s" % (kind, c17().hash_lines(small)),
                          "back-reference operation sequence (%d ops) on which an implementation-side monitor fires: %s" % (len(small), detail),
                          {"engine": "E-PURE", "harness": "harness/c17/be.cpp", "mode": "br", "stdin": small, "observed": detail, "expect": "no-MON"})


# ---- mm / mt: scalable_* operations with monitors on the real back end and table -----------------
def mm_sizes(c0):
    hdr = c0["sizeofLargeMemoryBlock"] + c0["sizeofLargeObjectHdr"]
    slab = [8, 24, 64, 100, 1000, 1792, 4032, 5376, 8128]
    loc = sorted({m * 8192 - hdr - 64 + d for m in (2, 3, 4, 8, 16, 64, 127, 128) for d in (-1, 0, 1)} | {8129, 16384, 70000, 300000})
    direct = [1048576 - hdr - 64 - 1, 1048576 - hdr - 64, 1048576, 1200000, 2 * 1048576 + 5, 4194304, 5000000]
    return slab, loc, direct


def mm_script(rng, n, c0):
    slab, loc, direct = mm_sizes(c0)
    lines, live, slot = [], [], 0
    for _ in range(n):
        r = rng.random()
        if r < 0.5 or not live:
            cls = rng.choice([slab, slab, loc, loc, direct])
            sz = rng.choice(cls)
            k = rng.random()
            if k < 0.6:
                lines.append("m %d %d" % (slot, sz))
            elif k < 0.7:
                lines.append("c %d %d %d" % (slot, rng.choice([1, 3, 8]), max(1, sz // 8)))
            elif k < 0.85:
                lines.append("am %d %d %d" % (slot, max(sz, 1), rng.choice([3, 6, 7, 9, 12, 13, 16, 21])))
            elif k < 0.93:
                lines.append("pm %d %d %d" % (slot, sz, rng.choice([3, 6, 12, 14])))
            else:
                lines.append("ar %d %d %d" % (slot, max(sz, 1), rng.choice([4, 6, 12])))
            live.append(slot)
            slot += 1
        elif r < 0.72:
            s = rng.choice(live)
            cls = rng.choice([slab, loc, direct, direct])
            if rng.random() < 0.8:
                lines.append("r %d %d" % (s, rng.choice(cls)))
            else:
                lines.append("ar %d %d %d" % (s, rng.choice(cls), rng.choice([4, 6, 7, 12])))
        elif r < 0.93:
            s = rng.choice(live)
            live.remove(s)
            lines.append("f %d" % s)
        elif r < 0.96:
            lines.append("probe %d" % rng.choice(live))
        elif r < 0.98:
            lines.append("cmd %d" % rng.randrange(2))
        else:
            lines.append("skew %d" % rng.randrange(4))
    return lines


def mm_remap_script(c0, variant):
    """realloc of objects that live alone in their region (>= 1 MB) through Backend::remap: ~130 objects allocated in a
    row cycle through every cache-line shuffle offset; targets just below / at / above large-object bin borders"""
    hdr = c0["sizeofLargeMemoryBlock"] + c0["sizeofLargeObjectHdr"]     # 104
    L = []
    n = 130
    base = 1200000 if variant % 2 == 0 else 4300000
    for i in range(n):
        L.append("m %d %d" % (i, base + 8 * i))
    for i in range(n):
        if variant % 2 == 0:      # grow
            k = 200 + 3 * i
            tgt = k * 8192 - (hdr + 64) - [8, 0, 72, 200, 1000][i % 5]
        else:                     # shrink below half (still >= 1 MB)
            k = 160 + i
            tgt = k * 8192 - (hdr + 64) - [8, 0, 72, 200, 1000][i % 5]
        L.append(("r %d %d" % (i, tgt)) if variant < 2 else ("ar %d %d %d" % (i, tgt, 6)))
    if variant == 0:
        # huge bins (>= 8 MB: geometric steps)
        for j, sz in enumerate([9 << 20, 12 << 20, 20 << 20]):
            L.append("m %d %d" % (n + j, 1500000))
        for j, sz in enumerate([9 << 20, 12 << 20, 20 << 20]):
            L.append("r %d %d" % (n + j, sz - (hdr + 64) - 8))
    for i in range(0, n, 2):
        L.append("f %d" % i)
    L.append("cmd 0")
    return L


def mm_huge_calloc_script(c0):
    """the large-object cache keeps blocks above 64 MB once the huge-size threshold is set: calloc of such a bin must still
    return zeroed memory"""
    dm = c0["defaultMaxHugeSize"]
    L = ["mode huge %d" % (dm + (8 << 20))]
    slot = 0
    for sz, nobj, each in ((96 << 20, 1, 96 << 20), (80 << 20, 10 << 20, 8), (120 << 20, 3, 40 << 20)):
        L += ["m %d %d" % (slot, sz), "f %d" % slot, "c %d %d %d" % (slot + 1, nobj, each), "f %d" % (slot + 1)]
        slot += 2
    L += ["mode soft %d" % (64 << 20), "m %d %d" % (slot, 30 << 20), "m %d %d" % (slot + 1, 50 << 20), "f %d" % slot, "c %d 1 %d" % (slot + 2, 30 << 20),
          "f %d" % (slot + 1), "f %d" % (slot + 2), "cmd 0"]
    return L


def mm_run(exe, lines, snap_every=0):
    rc, recs, err = run_be(exe, "mm", lines, extra=[str(snap_every)] if snap_every else [])
    bad = [(i, mons(r)) for i, r in enumerate(recs) if mons(r)]
    if rc != 0 or len(recs) != len(lines):
        bad.append((len(recs), ["MON crash harness rc=%d after %d/%d operations %s" % (rc, len(recs), len(lines), err[-200:])]))
    return recs, bad


def validate_snapshots(recs):
    """the real snapshots satisfy the invariant predicates of the theorems (evaluated by the Lean driver)"""
    inp, idx = [], []
    for i, r in enumerate(recs):
        body = [l for l in r if l[:2] in ("R ", "B ", "M ", "Q ", "T ", "L ")]
        if body:
            inp += body + ["check"]
            idx.append(i)
    if not inp:
        return []
    out = [l for l in drv("c17bv", "\n".join(inp) + "\n", timeout=900) if l]
    return [(i, o) for i, o in zip(idx, out) if o != "ok"] + ([(-1, "validator produced %d results for %d snapshots" % (len(out), len(idx)))] if len(out) != len(idx) else [])


def run_mm(ck, exe, c0):
    quick = ck.tier == "quick"
    scen = [("remap-grow", mm_remap_script(c0, 0)), ("remap-shrink", mm_remap_script(c0, 1)), ("remap-aligned-grow", mm_remap_script(c0, 2)),
            ("huge-calloc", mm_huge_calloc_script(c0))]
    for i in range(6 if quick else 40):
        scen.append(("random-%d" % i, mm_script(ck.rng, 250 if quick else 800, c0)))
    bad, notwf = [], []
    for name, lines in scen:
        snap = 1 if name.startswith("random") and len(lines) <= 300 else (7 if name.startswith("random") else 0)
        recs, b = mm_run(exe, lines, snap)
        ck.count(len(lines), ("mm", name.split("-")[0]))
        ck.traces_validated += 1
        if b:
            bad.append((name, lines[:b[0][0] + 1], b[0][1]))
        v = validate_snapshots(recs)
        if v:
            notwf.append((name, lines[:v[0][0] + 1], v[0][1]))
        if len(bad) >= 3:
            break
    ck.oblige("monitor:scalable_* on the default pool, real back end and table walked after every operation (region tiling, boundary tags, bins, "
              "live blocks inside in-use blocks and clear of metadata, pairwise disjoint, aligned, msize>=request, calloc zero, realloc prefix, "
              "patterns intact, back-reference bijection, isLargeObject/isSmallObject of objects / interior / forged pointers)",
              "correspondence", not bad, [(n, m_) for n, _, m_ in bad][:2])
    ck.oblige("corr:snapshots of the real back end and back-reference table satisfy the invariants of the theorems (WF, tabOK evaluated by the Lean driver)",
              "correspondence", not notwf, [(n, m_) for n, _, m_ in notwf][:2])
    for name, lines, m_ in bad[:1]:
        want = m_[0].split()[1] if m_ and len(m_[0].split()) > 1 else None
        small = shrink_lines(lines, lambda ls: any(x.split()[1:2] == [want] for _, ms in mm_run(exe, ls)[1] for x in ms) if want
                             else bool(mm_run(exe, ls)[1]), keep_first=0, budget=40)
        r2, b2 = mm_run(exe, small)
        what = (b2 or [(0, m_)])[0][1]
        kind = what[0].split()[1] if what else "mon"
        ck.counterexample("alloc:%s:%s" % (kind, c17().hash_lines(small)),
                          "allocation sequence (%d ops, shrunk from %d) on which an implementation-side monitor fires: %s" % (len(small), len(lines), what[:2]),
                          {"engine": "E-PURE", "harness": "harness/c17/be.cpp", "mode": "mm", "stdin": small, "observed": what[:3], "expect": "no-MON"})
    for name, lines, m_ in notwf[:1]:
        if not bad:
            ck.counterexample("alloc:notwf:%s" % c17().hash_lines(lines), "allocation sequence after which the real back end violates the invariant: %s" % m_,
                              {"engine": "E-PURE", "harness": "harness/c17/be.cpp", "mode": "mm", "stdin": lines, "observed": m_, "expect": "no-NOTWF", "snap": 1})


def mt_script(rng, phases, nops, c0):
    slab, loc, direct = mm_sizes(c0)
    T = 4
    lines, slot = [], 0
    live = {t: [] for t in range(T)}
    for ph in range(phases):
        for _ in range(nops):
            t = rng.randrange(T)
            r = rng.random()
            if r < 0.55 or not live[t]:
                sz = rng.choice(rng.choice([slab, slab, loc, direct]))
                lines.append("%d m %d %d" % (t, slot, sz))
                live[t].append(slot)
                slot += 1
            elif r < 0.7:
                lines.append("%d r %d %d" % (t, rng.choice(live[t]), rng.choice(rng.choice([slab, loc, direct]))))
            else:
                s = rng.choice(live[t])
                live[t].remove(s)
                lines.append("%d f %d" % (t, s))
        lines.append("J")
        allv = sum(live.values(), [])
        rng.shuffle(allv)
        live = {t: allv[t::T] for t in range(T)}      # blocks change hands: cross-thread frees, orphaned slabs
    return lines


def run_mt(ck, exe, c0):
    quick = ck.tier == "quick"
    bad = []
    for i in range(2 if quick else 12):
        lines = mt_script(ck.rng, 3, 1500 if quick else 4000, c0)
        rc, recs, err = run_be(exe, "mt", lines, timeout=600)
        ck.count(len(lines), ("mt",))
        ck.traces_validated += 1
        b = [m_ for r in recs for m_ in mons(r)]
        if rc != 0:
            b.append("MON crash harness %s rc=%d %s" % ("does not return (livelock)" if rc == -9 else "died", rc, err[-200:]))
        if b:
            bad.append((lines, b[:3]))
            if rc == -9:
                break
    ck.oblige("monitor:4 real threads (cross-thread frees, thread exit with live blocks), back end and table walked at quiescence", "correspondence",
              not bad, [b for _, b in bad][:2])
    for lines, b in bad[:1]:
        ck.counterexample("alloc-mt:%s:%s" % (b[0].split()[1], c17().hash_lines(lines)), "multi-threaded allocation history after which a monitor fires: %s" % b[:2],
                          {"engine": "E-REAL", "harness": "harness/c17/be.cpp", "mode": "mt", "stdin": lines, "observed": b, "runs": 5, "expect": "no-MON"})


# ---- gs: the guarded-size protocol, real code under the controlled scheduler (E-SHIM) -----------------
def gs_build(pid="C17"):
    flags = ["-O1", "-g", "-fno-access-control", "-D__TBBMALLOC_BUILD", "-I" + os.path.join(REPO, "src")] + common.SHIM_FLAGS
    return cxx_build(pid, "gs", ["harness/c17/gs.cpp", common.SHIM_SRC], flags=flags, libs=["-ldl", "-pthread"])


def gs_run(exe, kinds, args, timeout=300):
    """runs of the real tryLockBlock / doCoalesc halves; returns (rc, [(schedule, event+outcome lines, MON lines)])"""
    if HUNG[0]:
        timeout = min(timeout, 20)
    rc, out, err = sh([exe, kinds] + args, timeout=timeout)
    if rc == -9:
        HUNG[0] = True
    runs, cur = [], None
    for l in out.split("\n"):
        if l.startswith("RUN"):
            cur = [l[4:].split(), [], []]
            runs.append(cur)
        elif cur is not None and (l.startswith("E ") or l.startswith("OUT ")):
            cur[1].append(l)
        elif cur is not None and l.startswith("MON "):
            cur[2].append(l)
    return rc, runs, err


def gs_replay_on_model(kinds, runs):
    inp = []
    for sched, ev, _ in runs:
        inp += ["kinds %s 16384" % kinds, "RUN"] + ev
    res = [l for l in drv("c17gs", "\n".join(inp) + "\n", timeout=600) if l]
    return res


def run_gs(ck):
    quick = ck.tier == "quick"
    exe = gs_build()
    scen = [("gr", ["dfs", "2"]), ("gl", ["dfs", "2"]), ("rl", ["dfs", "2"]), ("gg", ["dfs", "2"]), ("rr", ["dfs", "2"]), ("ll", ["dfs", "2"]),
            ("grl", ["dfs", "2"]), ("ggr", ["dfs", "2"]), ("grr", ["dfs", "1"]), ("ggrl", ["dfs", "1"])]
    if not quick:
        scen += [("grl", ["dfs", "3"]), ("ggrl", ["dfs", "2"]), ("grlrl", ["dfs", "1"])]
    for i in range(40 if quick else 300):
        scen.append((ck.rng.choice(["grlrl", "gggrr", "grlgrl", "llrrg"]), ["rand", str(ck.rng.randrange(1 << 30))]))
    bad_mon, bad_corr, nsched = [], [], 0
    for kinds, args in scen:
        rc, runs, err = gs_run(exe, kinds, args)
        nsched += len(runs)
        ck.count(len(runs), ("gs", kinds, args[0]))
        for sched, ev, m_ in runs:
            if m_:
                bad_mon.append((kinds, sched, m_, ev))
        if rc not in (0, 3):
            bad_mon.append((kinds, [], ["MON crash harness %s rc=%d %s" % ("does not return" if rc == -9 else "died", rc, err[-200:])], []))
        res = gs_replay_on_model(kinds, runs)
        for (sched, ev, _), r in zip(runs, res):
            if r != "ok":
                bad_corr.append((kinds, sched, r))
        if len(res) != len(runs):
            bad_corr.append((kinds, [], "model replayed %d of %d runs" % (len(res), len(runs))))
        if len(bad_mon) + len(bad_corr) >= 3:
            break
    ck.traces_validated += nsched
    ck.extra["gs_schedules"] = nsched
    ck.oblige("monitor:guarded-size protocol on the real code under the controlled scheduler (at most one contender gets the block, tags restored "
              "when nobody does, no deadlock), bounded-preemption DFS + random schedules", "correspondence", not bad_mon,
              [(k, " ".join(sc[:40]), m_[:1]) for k, sc, m_, _ in bad_mon][:2])
    ck.oblige("corr:guarded-size protocol (E-SHIM traces of the real tryLockBlock / GuardedSize::tryLock / unlock replayed on the Lean model: every "
              "access, value, CAS outcome, memory order and outcome predicted)", "correspondence", not bad_corr, bad_corr[:2])
    for kinds, sched, m_, ev in bad_mon[:1]:
        ck.counterexample("guarded-size:%s:%s" % (kinds, c17().hash_lines(sched or ["crash"])),
                          "schedule of %d atomic accesses under which the real guarded-size code violates the exclusion: %s" % (len(sched), m_[0]),
                          {"engine": "E-SHIM", "harness": "harness/c17/gs.cpp", "mode": "gs", "kinds": kinds, "schedule": sched, "observed": m_ + ev[-1:],
                           "expect": "no-MON"})
    if bad_corr and not bad_mon:
        # model and code disagree: look harder for a schedule on which the property itself fails
        for kinds, bound in (("grl", "3"), ("ggrl", "2"), ("gggr", "2")):
            rc, runs, err = gs_run(exe, kinds, ["dfs", bound])
            hit = [(sc, m_, ev) for sc, ev, m_ in runs if m_]
            if hit:
                sc, m_, ev = min(hit, key=lambda x: len(x[0]))
                ck.counterexample("guarded-size:%s:%s" % (kinds, c17().hash_lines(sc)),
                                  "schedule of %d atomic accesses under which the real guarded-size code violates the exclusion: %s" % (len(sc), m_[0]),
                                  {"engine": "E-SHIM", "harness": "harness/c17/gs.cpp", "mode": "gs", "kinds": kinds, "schedule": sc, "observed": m_ + ev[-1:],
                                   "expect": "no-MON"})
                break


def run(ck, exe, c0):
    ck.assumptions += [
        "back end modelled per serialised operation (genericGetBlock incl. search / split / askMemFromOS / bootstrap and advance regions, "
        "genericPutBlock / doCoalesc / region release, delayed coalescing queue, clean, reset) with raw memory, bin-mutex contention and a neighbour "
        "being freed by another thread as environment inputs; tied by a state-by-state differential against the real Backend of user pools (fixed and not), "
        "and by evaluating the theorems' invariant predicates on snapshots of the default pool's real back end after scalable_* operations",
        "guarded-size locking protocol (GuardedSize::tryLock/unlock, FreeBlock::tryLockBlock, both halves of doCoalesc) modelled one step per atomic "
        "access and tied by E-SHIM: the tbbmalloc sources compile under the shim prelude, the real code runs under the controlled scheduler "
        "(bounded-preemption DFS + random schedules) and every trace is replayed on the model; the scenario is ONE free block and its contenders "
        "(the halves of doCoalesc are transcribed into the harness statement for statement around the real GuardedSize primitives; the loser's "
        "delayed-coalescing queue and the bin mutexes, MallocMutex = std::atomic_flag which the prelude does not wrap, are outside this scenario)",
        "the rest of the concurrent back end on the implementation: 4 real threads with the monitors at quiescence; the refinement from atomic accesses "
        "to the per-operation model (linearizability of whole get/put operations) is NOT proved",
        "default pool with huge pages off; Backend::remap's wrap-around test is C18's (remap_guard_sound), here its placement arithmetic for sizes < 2^62"]
    ck.trusted += ["harness/c17/be.cpp (walk of regions / blocks / bins / coalescing queue / back-reference table; OS layer emulated over one arena)",
                   "checks/c17be.py (translation of sizeToBin, toAlignedBin, the fit tests, the getBackRef bounds test, Backend::remap's sizes, the "
                   "statement skeleton of scalable_calloc)"]
    run_bk(ck, exe)
    run_br(ck, exe)
    run_mm(ck, exe, c0)
    run_mt(ck, exe, c0)
    run_gs(ck)


def replay(ck, r):
    if r["mode"] == "gs":
        exe = gs_build()
        rc, runs, err = gs_run(exe, r["kinds"], ["replay", ",".join(r["schedule"])] if r["schedule"] else ["dfs", "2"])
        still = rc != 0 or any(m_ for _, _, m_ in runs)
        print("replay (guarded-size, kinds %s, %d scheduling decisions): %s" % (r["kinds"], len(r["schedule"]), [m_ for _, _, m_ in runs if m_][:1]))
        print("STILL FAILS" if still else "property holds now")
        return 1 if still else 0
    exe = be_build()
    mode = r["mode"]
    lines = r["stdin"]
    if mode == "bk":
        kind, idx, detail = bk_compare(exe, lines)
        still = kind in ("mon", "crash")
    elif mode == "br":
        kind, idx, detail = br_compare(exe, lines)
        still = kind in ("mon", "crash")
    elif mode == "mm":
        recs, bad = mm_run(exe, lines, r.get("snap", 0))
        detail = bad[:1]
        still = bool(bad) or (bool(r.get("snap")) and bool(validate_snapshots(recs)))
    else:
        still = False
        detail = None
        for _ in range(r.get("runs", 5)):
            rc, recs, err = run_be(exe, "mt", lines, timeout=600)
            b = [m_ for rr in recs for m_ in mons(rr)]
            if b or rc != 0:
                still, detail = True, b[:2]
                break
    print("replay (%s, %d lines): %s" % (mode, len(lines), detail))
    print("STILL FAILS" if still else "property holds now")
    return 1 if still else 0
