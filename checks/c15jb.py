"""C15 extension (b): join_node_base batches over the three front ends.  Real join_node<queueing|key_matching|reserving> with 2 or 3
ports, base-node batches forced through the real aggregator (harness/c15/joinbatch.cpp), scripted successors that refuse tuples,
compared after every line with the Lean model `Join.handleOps` (drv_c15 c15jb); implementation-side monitors for the three contracts
and for "a refused tuple consumes nothing"."""
import os
import random

import common
from common import cxx_build, drv, first_diff, sh

SRC = "harness/c15/joinbatch.cpp"
OPK = {"s": "reg_succ", "x": "rem_succ", "g": "try__get", "f": "do_fwrd_bypass"}
_exe = {}


def exe(libs):
    if "jb" not in _exe:
        _exe["jb"] = cxx_build("C15", "joinbatch", [SRC], flags=["-O1", "-g", "-fno-access-control", "-pthread"], libs=libs)
    return _exe["jb"]


def run_impl(text, timeout=1800, watchdog=None):
    env = dict(os.environ)
    if watchdog:
        env["C15_WATCHDOG"] = str(watchdog)
    rc, out, err = sh([_exe["jb"]], input=text, timeout=timeout, env=env)
    lines = out.split("\n")[:-1] if out.endswith("\n") else out.split("\n")
    return rc, lines, err


def gen_script(rng, kind, n=30):
    np_ = rng.choice([2, 2, 3])
    ls = ["reset %s %d" % (kind, np_)]
    v = 0
    for _ in range(n):
        x = rng.random()
        if x < 0.12:
            ls.append("verdicts " + " ".join([rng.choice("aaarp")] + [rng.choice("aarp") for _ in range(rng.randrange(0, 6))]))
        elif x < 0.62:
            v += 1
            p = rng.randrange(np_)
            if kind == "jk":
                ls.append("put %d %d" % (p, rng.randrange(1, 6) * 8 + v % 8))
            else:
                ls.append("put %d %d" % (p, v))
        else:
            k = 1 if rng.random() < 0.4 else rng.randrange(2, 5)
            ops = []
            for _ in range(k):
                y = rng.random()
                ops.append("s%d" % rng.randrange(4) if y < 0.35 else "x%d" % rng.randrange(4) if y < 0.5 else "g" if y < 0.75 else "f")
            ls.append("batch " + " ".join(ops))
    return ls


def corpus():
    return [
        # a refused tuple stays (queueing: at the port fronts) and is offered again at the re-try
        ["reset jq 2", "put 0 1", "put 1 10", "verdicts r", "batch s0", "batch f", "verdicts a", "batch f"],
        ["reset jq 3", "put 0 1", "put 1 10", "put 2 20", "verdicts p", "batch s0 s1", "batch g"],
        # key_matching: the refused tuple stays in the output buffer until somebody takes it
        ["reset jk 2", "verdicts r", "batch s0", "put 0 9", "put 1 10", "put 0 17", "put 1 18", "verdicts a", "batch f g"],
        # reserving: a refused tuple releases every reservation; a port without an item releases the others
        ["reset jr 2", "verdicts r", "batch s0", "put 0 1", "put 1 2", "batch f", "verdicts a", "batch f"],
        ["reset jr 3", "batch s0", "put 0 1", "put 1 2", "put 2 3", "put 0 4", "put 2 5", "batch f g", "put 1 6"],
    ]


def exhaustive(kind):
    res = []
    alpha = ["s0", "x0", "g", "f"]
    for np_ in (2, 3):
        full = ["put %d %d" % (p, (p + 1) * 8 + p if kind == "jk" else p + 1) for p in range(np_)]
        for pre in ([], full[:-1], full):
            for vd in "arp":
                for succ in (False, True):
                    for a in alpha:
                        for b in alpha:
                            s = ["reset %s %d" % (kind, np_), "verdicts r"] + (["batch s1"] if succ else []) + pre + ["verdicts " + vd, "batch %s %s" % (a, b)]
                            if pre == full[:-1]:
                                s.append(full[-1])
                            res.append(s)
    return res


# ---------------------------------------------------------------------------------------------
def split(o):
    return [x.strip() for x in o.split(" ; ")]


def tuples_in(field):
    """'r0:(1,10):a r1:(1,10):r' -> [(0,(1,10),'a'), ...]"""
    if field == "-":
        return []
    out = []
    for tok in field.split():
        r, t, vd = tok.split(":")
        out.append((int(r[1:]), tuple(int(x) for x in t.strip("()").split(",")), vd))
    return out


def monitor(ls, out):
    kind, n = ls[0].split()[1], int(ls[0].split()[2])
    acc = [[] for _ in range(n)]        # accepted messages per port, in order
    handed = []                         # tuples handed on (accepted by a successor / taken by try_get), in order
    dups = False
    used = {}
    for i, (l, o) in enumerate(zip(ls, out)):
        if i == 0 or o in ("ok", "bad-op"):
            continue
        w = l.split()
        p = split(o)
        if len(p) < 3:
            return "unparsable harness output %r" % o
        if w[0] == "put" and (p[0] in ("1", "ok") or kind == "jk"):
            acc[int(w[1])].append(int(w[2]))      # key_matching: a refused duplicate still replaces the stored message (as coded, reported)
        new = []
        offs = tuples_in(p[1])
        if w[0] == "batch":
            for op, r in zip(w[1:], p[0].split(",") if "(" not in p[0] else _split_res(p[0])):
                if op == "g" and r.startswith("("):
                    new.append(tuple(int(x) for x in r.strip("()").split(",")))
        for _, t, vd in offs:
            if vd == "a" and t not in new:        # one broadcast may be accepted by several successors: count the tuple once per line
                new.append(t)
        if kind == "jr":
            prob = check_events(p[2], n, new, offs)
            if prob:
                return "line %d: %s" % (i, prob)
        if kind == "jq" and new:
            # try_gets of one batch are concurrent: the tuples handed on in this line must be the next len(new) tuples, in any order
            k = len(handed)
            want = [tuple(a[k + j] if k + j < len(a) else None for a in acc) for j in range(len(new))]
            if sorted(map(str, new)) != sorted(map(str, want)):
                return "line %d: queueing join: tuples no. %d.. are %s, the corresponding messages of the ports are %s" % (i, k, new, want)
            new = [t for t in want]
        for t in new:
            if len(t) != n:
                return "line %d: tuple %s is not complete (%d ports)" % (i, t, n)
            if kind == "jk":
                if len({v // 8 for v in t}) != 1:
                    return "line %d: key_matching join: tuple %s mixes keys" % (i, t)
            for port, v in enumerate(t):
                used[(port, v)] = used.get((port, v), 0) + 1
                if used[(port, v)] > acc[port].count(v):
                    return "line %d: message %d of port %d used %d times, accepted %d times" % (i, v, port, used[(port, v)], acc[port].count(v))
            handed.append(t)
        # a refused tuple must still be there: it is not in `handed`, so its components stay un-used — checked by the state dump:
        if kind == "jk":
            if w[0] == "put" and p[0] == "0":
                dups = True          # a refused duplicate replaces a stored message (as coded): conservation is not claimed then
            if not dups:
                st = p[-1].split(" | ")
                outbuf = [] if st[2].strip() == "-" else [tuple(int(x) for x in t.strip("()").split(",")) for t in st[2].replace("),(", ");(").split(";")]
                ports = st[4].split(" / ")
                for port in range(n):
                    stored = [] if ports[port].strip() == "-" else [int(x.split("=")[1]) for x in ports[port].split(",")]
                    have = sorted([t[port] for t in handed] + [t[port] for t in outbuf] + stored)
                    if have != sorted(acc[port]):
                        return ("line %d: key_matching join port %d: handed on + waiting in the output buffer + stored at the port = %s, accepted %s "
                                "(a message was dropped without its tuple being accepted, or duplicated)" % (i, port, have, sorted(acc[port])))
        if kind == "jq":
            ports = p[-1].split(" | ")[-1].split(" / ")
            for port in range(n):
                rest = [] if ports[port].strip() == "-" else [int(x) for x in ports[port].split(",")]
                if [t[port] for t in handed] + rest != acc[port]:
                    return ("line %d: queueing join port %d: handed on %s + still queued %s is not the accepted sequence %s (an item was "
                            "consumed without its tuple being accepted, lost or reordered)" % (i, port, [t[port] for t in handed], rest, acc[port]))
    return None


def _split_res(s):
    out, depth, cur = [], 0, ""
    for c in s:
        if c == "(":
            depth += 1
        if c == ")":
            depth -= 1
        if c == "," and depth == 0:
            out.append(cur); cur = ""
        else:
            cur += c
    out.append(cur)
    return out


def check_events(field, n, new, offs):
    """reserving join: in every attempt either every port is reserved and then all are consumed (only for a tuple that was handed on),
    or every reservation made is released"""
    evs = [] if field == "-" else field.split()
    cur = {}
    block = 0
    handed = set(new)
    for ev in evs:
        if ev.startswith("res"):
            port, v = ev[3:].split(":")
            cur[int(port)] = int(v)
        elif ev.startswith("rel"):
            cur.pop(int(ev[3:]), None)
        elif ev.startswith("con"):
            port = int(ev[3:])
            if block == 0:
                if len(cur) != n:
                    return "reserving join: inputs consumed although only ports %s were reserved (%s)" % (sorted(cur), field)
                t = tuple(cur[q] for q in range(n))
                if t not in handed:
                    return "reserving join: tuple %s consumed at the ports although no successor accepted it (%s)" % (t, field)
                block = n
            if port not in cur:
                return "reserving join: port %d consumed without a reservation (%s)" % (port, field)
            cur.pop(port)
            block -= 1
    if cur or block:
        return "reserving join: ports %s left reserved / partially consumed (%s)" % (sorted(cur), field)
    return None


def run_scripts(scripts):
    lines = [l for s in scripts for l in s]
    text = "\n".join(lines) + "\n"
    rc, impl, err = run_impl(text, watchdog=60)
    if rc != 0 or len(impl) != len(lines):
        hung = None
        k = len(impl) - 1 if impl and impl[-1].startswith("HANG") else len(impl)
        pos = 0
        for s in scripts:
            if pos <= k < pos + len(s) + 1:
                hung = s[:max(2, k - pos + 1)]
                break
            pos += len(s)
        return None, ("harness rc=%d, %d output lines for %d input lines: %s" % (rc, len(impl), len(lines), impl[-1:] + [err[-300:]]), hung)
    mod = drv("c15jb", text)
    res, pos = [], 0
    for s in scripts:
        io, mo = impl[pos:pos + len(s)], mod[pos:pos + len(s)]
        pos += len(s)
        res.append((s, io, mo, first_diff(io, mo), monitor(s, io)))
    return res, (None, None)


def mon_fails(script):
    rc, o, _ = run_impl("\n".join(script) + "\n", timeout=120, watchdog=15)
    if rc != 0 or len(o) != len(script):
        return True
    return monitor(script, o) is not None


def shrink(script):
    cur = list(script)
    changed = True
    while changed:
        changed = False
        for i in range(len(cur) - 1, 0, -1):
            cand = cur[:i] + cur[i + 1:]
            if len(cand) > 1 and mon_fails(cand):
                cur = cand; changed = True
    return cur


def report(ck, script, problem, hang=False):
    small = list(script) if hang else shrink(script)
    rc, o, _ = run_impl("\n".join(small) + "\n", timeout=120, watchdog=15)
    prob2 = (monitor(small, o) if rc == 0 and len(o) == len(small) else None) or problem
    key = "c15jb:%s:%s" % (small[0].replace(" ", "_"), "_".join(l.replace(" ", "") for l in small[1:])[:60])
    if any(c["key"] == key for c in ck.counterexamples):
        return key
    try:
        pred = drv("c15jb", "\n".join(small) + "\n", timeout=120)
    except Exception as e:     # noqa
        pred = ["model driver failed: %s" % str(e)[:200]]
    ck.counterexample(key, "%s — real join_node, real aggregator, script %s" % (prob2, " / ".join(small)),
                      {"engine": "E-REAL(forced aggregator batches, scripted successors)", "harness": SRC, "model": "c15jb", "script": small,
                       "observed": o, "monitor": prob2, "model_prediction": pred})
    return key


def distribution(results):
    dist = {"ops_in_single_batches": {}, "ops_in_multi_batches": {}, "verdicts": {"a": 0, "r": 0, "p": 0}, "policy_ports": {},
            "refused_tuples": 0, "accepted_tuples": 0, "try_get_tuples": 0, "port_events": 0}
    for s, io, *_ in results:
        pk = s[0].split()[1] + s[0].split()[2]
        for l, o in zip(s[1:], io[1:]):
            w = l.split()
            if o in ("ok", "bad-op") or " ; " not in o:
                continue
            p = split(o)
            if w[0] == "put":
                dist["port_events"] += 1
            if w[0] == "batch":
                dist["policy_ports"][pk] = dist["policy_ports"].get(pk, 0) + 1
                tgt = dist["ops_in_single_batches"] if len(w) == 2 else dist["ops_in_multi_batches"]
                for op in w[1:]:
                    tgt[OPK[op[0]]] = tgt.get(OPK[op[0]], 0) + 1
                dist["try_get_tuples"] += p[0].count("(")
            offs = tuples_in(p[1])
            for _, _, vd in offs:
                dist["verdicts"][vd] += 1
            by_t = {}
            for _, t, vd in offs:
                by_t.setdefault(t, []).append(vd)
            for t, vds in by_t.items():
                if "a" in vds:
                    dist["accepted_tuples"] += 1
                else:
                    dist["refused_tuples"] += 1
    return dist


def stage(ck, libs):
    exe(libs)
    quick = ck.tier == "quick"
    rng = random.Random(ck.seed * 7331 + 77)
    nrand = 60 if quick else 700
    scripts = corpus()
    for k in ("jq", "jk", "jr"):
        scripts += [gen_script(rng, k) for _ in range(nrand)]
        e = exhaustive(k)
        scripts += e if not quick else rng.sample(e, min(len(e), 150))
    label = "join_node_base batches over the queueing / key_matching / reserving front ends"
    res, (err, hung) = run_scripts(scripts)
    if res is None:
        ck.oblige("corr:%s" % label, "correspondence", False, err)
        if hung:
            report(ck, hung, "the real join_node never completes the last line (watchdog)", hang=True)
        return
    nops = sum(len(l.split()) - 1 for s in scripts for l in s if l.startswith("batch")) + sum(1 for s in scripts for l in s if l.startswith("put"))
    ck.count(nops)
    for s, io, *_ in res:
        for l, o in zip(s[1:], io[1:]):
            ck.distinct.add(("c15jb", s[0], l.split()[0], tuple(sorted({x[0] for x in l.split()[1:]})) if l.startswith("batch") else (), o.split(" ;")[0][:4]))
    ck.traces_validated += len(scripts)
    dist = distribution(res)
    ck.extra["join_batch_distribution"] = dist
    ck.extra.setdefault("scripts", {})[label] = {"scripts": len(scripts), "ops": nops}
    s0 = res[len(corpus()) + 2]
    ck.sample({"model": "c15jb", "script": s0[0][:10], "impl": s0[1][:10], "lean_model": s0[2][:10]}, cap=14)
    bad_corr = [(s, io, mo, d) for (s, io, mo, d, mon) in res if d is not None]
    bad_mon = [(s, io, mon) for (s, io, mo, d, mon) in res if mon is not None]
    det = ""
    if bad_corr:
        s, io, mo, d = bad_corr[0]
        det = "script %s: line %d %r: implementation %r, model %r" % (" / ".join(s[:d + 1]), d, s[d], io[d] if d < len(io) else None, mo[d] if d < len(mo) else None)
    ck.oblige("corr:%s (real join_node + real aggregator vs Lean Join.handleOps: results, offers, port events, white-box state after every line)" % label,
              "correspondence", not bad_corr, det)
    cov_ok = (set(dist["ops_in_multi_batches"]) == set(OPK.values()) and all(dist["verdicts"][v] > 0 for v in "arp") and dist["refused_tuples"] > 0
              and len(dist["policy_ports"]) == 6)
    ck.oblige("coverage:join batches: every op kind in multi-operation batches, every verdict kind, refused tuples, all three policies with 2 and 3 ports",
              "correspondence", cov_ok, dist)
    ck.oblige("monitor:%s (i-th tuple / same key used once / all-or-nothing / a refused tuple consumes nothing)" % label, "correspondence",
              not bad_mon, "" if not bad_mon else "%s on script %s" % (bad_mon[0][2], " / ".join(bad_mon[0][0])))
    seen = set()
    for s, io, mon in bad_mon:
        cls = (s[0].split()[1], "".join(c for c in mon.split(":", 1)[-1][:40] if not c.isdigit()))
        if cls in seen or len(seen) >= 2:
            continue
        seen.add(cls)
        report(ck, s, mon)
    if bad_corr and not bad_mon:
        # the model no longer describes the code: look for an input on which the PROPERTY fails
        cands = []
        for k in ("jq", "jk", "jr"):
            cands += exhaustive(k) + [gen_script(rng, k, 40) for _ in range(300)]
        ck.extra.setdefault("search", {})["c15jb"] = len(cands)
        for i in range(0, len(cands), 300):
            chunk = cands[i:i + 300]
            r2, (e2, h2) = run_scripts(chunk)
            if r2 is None:
                if h2:
                    report(ck, h2, "the real join_node never completes the last line (watchdog)", hang=True)
                    return
                continue
            bad = [(s, mon) for (s, io, mo, d, mon) in r2 if mon is not None]
            if bad:
                report(ck, bad[0][0], bad[0][1])
                return


def replay(ck, r, libs):
    exe(libs)
    script = r["script"]
    rc, o, err = run_impl("\n".join(script) + "\n", timeout=300, watchdog=30)
    print("replay on %s (c15jb, real join_node + real aggregator)" % common.REPO)
    for l, x in zip(script, o):
        print("  %-28s -> %s" % (l, x))
    if rc != 0 or len(o) != len(script):
        print("harness failed rc=%d %s\nSTILL FAILS" % (rc, err[-300:]))
        return 1
    mon = monitor(script, o)
    if mon is None:
        print("property monitor: no violation -> property holds now on this input")
        return 0
    print("property monitor: %s\nSTILL FAILS" % mon)
    return 1
