#!/usr/bin/env python3
"""Regenerates MANIFEST.json from the table below (keeps it valid at all times)."""
import json
import os

ROOT = os.path.dirname(os.path.dirname(os.path.abspath(__file__)))
ALL = ["C%02d" % i for i in range(1, 21)]

CLAIMED = {
    "C11": dict(
        text="Lean 4 theorems (kernel-checked, unbounded): segment index arithmetic is a bijection for every 64-bit index; element "
             "addresses are injective and in bounds for every first-block choice; for every set of concurrent push_back/grow_by/"
             "grow_to_at_least calls and every interleaving of their accesses to the size word the handed-out ranges tile [0,size); "
             "grow_to_at_least grows iff old<new for all 64-bit sizes (guard regenerated from the source). Tie: constants and the guard "
             "are regenerated from /repo on every run; model definitions are run against the real headers (E-PURE, E-REAL).",
        note="Trusted: Lean kernel; propext/Classical.choice/Quot.sound; checks/cexpr.py translator; sampled differential correspondence. "
             "Not modelled: segment allocation election/waits, table switch, exception paths (monitored on explored runs only).",
        technique="Lean 4 proof (inductive invariant over all schedules; arithmetic lemmas) + regenerated guard + differential correspondence",
        design="§3 C11, §4 F1"),
}

CLAIMED["C08"] = dict(
    text="Lean 4 theorems (kernel-checked; any number of threads, every operation program, every interleaving of the atomic accesses): "
         "spin_rw_mutex — at most one writer, never writer with reader, reader field = number of reader-unit owners, no bit-field "
         "corruption, try_lock truthful and wait-free, upgrade returns true only from the in-place path during which the thread never "
         "released and no writer can exist, downgrade is one atomic access, no lost grant (free word at quiescence; pending hint only "
         "while some thread is inside lock()); spin_mutex — holders = flag. Tie: the real headers run under the E-SHIM controlled "
         "scheduler and every access to the lock word (kind, value read/expected, value written, CAS outcome, operation results) is "
         "replayed on the model; ghost-holder monitors + bounded-preemption DFS search for failing schedules.",
    note="Trusted: Lean kernel; standard axioms; harness/shim (atomic shim + baton scheduler); sampled access-level correspondence. "
         "Sequentially consistent interleavings only (release/acquire visibility not modelled). queuing_mutex, mutex, rw_mutex, "
         "queuing_rw_mutex, RTM variants: being added (C08 part 2).",
    technique="Lean 4 proof (N-thread inductive invariant over an atomic-access-level protocol model) + E-SHIM trace replay",
    design="§3 C08, §2.6")

NOT_YET = "check not built yet in this round (planned: DESIGN.md §3); no claim is made"


def main():
    checks = []
    for pid in ALL:
        if pid not in CLAIMED:
            continue
        c = CLAIMED[pid]
        checks.append({
            "property_id": pid,
            "quick_cmd": "python3 checks/check.py %s --tier quick" % pid,
            "thorough_cmd": "python3 checks/check.py %s --tier thorough" % pid,
            "evidence_file": "evidence/%s.json" % pid,
            "replay_cmd_template": "python3 checks/check.py %s --replay {path}" % pid,
            "engine": "lean4+correspondence",
            "level_claimed": {"category": "proof", "text": c["text"], "design_ref": c["design"]},
            "level_note": c["note"],
            "technique": c["technique"],
        })
    m = {
        "version": 1,
        "setup_cmd": "python3 checks/setup.py",
        "hooks": {
            "guard": "TBB_VERIF_HOOKS",
            "enable": "no source hooks are needed so far: harnesses use a force-included atomic shim and -fno-access-control; -DTBB_VERIF_HOOKS is reserved",
            "baseline_off_cmd": "cmake --build /repo/_build -j16 && ctest --test-dir /repo/_build -j8 --timeout 900",
            "source_commits": [],
            "add_only": True,
        },
        "engines": [
            {"name": "lean", "path": "lean/", "serves_properties": sorted(CLAIMED), "kind_free_text": "Lean 4 models, theorems, tbbdrv line-protocol driver"},
            {"name": "checks", "path": "checks/", "serves_properties": sorted(CLAIMED), "kind_free_text": "driver: regeneration, lake build + axiom audit, harness build, correspondence, failing-input search, evidence"},
            {"name": "harness", "path": "harness/", "serves_properties": sorted(CLAIMED), "kind_free_text": "C++ harnesses compiled against /repo's current tree"},
        ],
        "checks": checks,
        "not_applicable": [{"property_id": p, "reason": NOT_YET} for p in ALL if p not in CLAIMED],
        "notes": "All checks are `python3 checks/check.py <id>`; KNOWN_FINDINGS.txt lists fixed/known defects; DESIGN.md explains the approach.",
    }
    json.dump(m, open(os.path.join(ROOT, "MANIFEST.json"), "w"), indent=1)


if __name__ == "__main__":
    main()
