#!/usr/bin/env python3
"""Regenerates MANIFEST.json from the table below (keeps it valid at all times)."""
import json
import os

ROOT = os.path.dirname(os.path.dirname(os.path.abspath(__file__)))
ALL = ["C%02d" % i for i in range(1, 21)]

CLAIMED = {
    "C11": dict(
        text="Lean 4 theorems (kernel-checked, unbounded): segment index arithmetic is a bijection for every 64-bit index; element "
             "addresses are injective and in bounds for every first-block choice; for every set of concurrent push_back/grow_by/"
             "grow_to_at_least calls and every interleaving of their accesses to the size word the handed-out ranges tile [0,size); "
             "grow_to_at_least grows iff old<new for all 64-bit sizes (guard regenerated from the source). The segment-table protocol at "
             "atomic-access granularity (embedded -> long table switch, first-block election, segment owners, waiters, failure flag and "
             "tags), any threads / programs / schedules: each slot is written once, exactly one allocation per segment is published "
             "(election losers free theirs), the table switch loses no pointer, element addresses never change, are pairwise disjoint and "
             "in bounds, elements are constructed once and only through an observed real pointer; for any fault plan: no construction "
             "through null or the failure tag, table-switch waiters are released by the failure flag. Closed witnesses show what the code "
             "does not guarantee (grow_to_at_least returns before construction / before allocation on its growing path; four failure-path "
             "deadlocks; a failure tag overwriting a published segment). Tie: 17 constants and guards regenerated from /repo on every run; "
             "model definitions are run against the real headers (E-PURE, E-REAL); E-SHIM replay of every size-word and segment-table "
             "access, allocator call and construction on the model under random / DFS / guided / fault schedules, with model-based deadlock "
             "attribution.",
        note="Trusted: Lean kernel; propext/Classical.choice/Quot.sound; checks/cexpr.py translator; E-SHIM; harness/c11; sampled "
             "correspondence. Sequentially consistent interleavings. The deep invariant is for failure-free runs; 7 known findings in the "
             "failure and grow_to_at_least clauses (all reproduced on the real header and exhibited on the model).",
        technique="Lean 4 proof (access-granular interleaving model, ~30-conjunct inductive invariant, arithmetic lemmas, decide witnesses) + regenerated guards + E-SHIM replay + fault schedules",
        design="§3 C11, §4 F1"),
}

CLAIMED["C08"] = dict(
    text="Lean 4 theorems (any number of threads, every operation program, every interleaving of the atomic accesses): spin_rw_mutex and "
         "rw_mutex — at most one writer, never writer with reader, reader field = number of reader-unit owners, no bit-field corruption, "
         "try-acquire truthful and wait-free, upgrade returns true only from the in-place path during which no writer can exist, downgrade "
         "is one atomic access, no lost grant; spin_mutex and tbb::mutex — holders = flag, truthful try, sleeping hand-off loses no wake-up "
         "(rw_wake_rules, mutex_handoff_no_loss); queuing_mutex (MCS) — exclusion, FIFO (grant order = q_tail exchange order), no lost "
         "hand-off incl. the late successor link, truthful try; queuing_rw_mutex — safety, queue order, truthful upgrade, atomic downgrade on "
         "a specification machine; rw_orders_publish — every unlock is a release or RMW and every lock an acquire or RMW on the same word, "
         "over the memory-order table regenerated from the E-SHIM traces. Tie: all eight lock kinds run under the E-SHIM controlled scheduler "
         "(sleeping variants and queuing_rw_mutex on the instrumented runtime); lock-word / queue-node / hand-shake accesses replay on the "
         "models, queuing_rw_mutex's holder event log is validated against its spec; ghost-holder, FIFO and deadlock monitors; random + "
         "bounded-preemption DFS schedules.",
    note="Trusted: Lean kernel; standard axioms; harness/shim; harness/c08; sampled access-level correspondence. Sequentially consistent "
         "interleavings only (store-buffer delays are covered by the memory-order obligation, not explored). PARTIAL: queuing_rw_mutex's "
         "internal node protocol is not modelled (spec-level validation + exploration); RTM variants run only their fall-back path here.",
    technique="Lean 4 proof (N-thread inductive invariants over atomic-access-level protocol models; spec machine for queuing_rw_mutex) + E-SHIM trace replay",
    design="§3 C08, §2.6")
CLAIMED["C06"] = dict(
    text="Lean 4 theorems for every schedule/steal oracle: parallel_reduce's body value is the range in order (free monoid), each element "
         "once, a body is joined only into the body it was split from after both finished; deterministic_reduce's split/join term is a "
         "function of (range, grain[, divisor]); parallel_scan gives every element exactly one final pass with the in-order prefix (general "
         "oracle); quick-sort split is a permutation with left <= pivot <= right for any strict weak order and strictly smaller parts; "
         "the sort pretest covers every adjacent pair. Tie: generated constants/guards from the source, white-box differential on the real "
         "split/median/pretest code, real parallel runs with recording bodies whose event logs are replayed as model transitions.",
    note="Trusted: Lean kernel, standard axioms, harness/c06 recording bodies, sampled correspondence (real threads, not controlled "
         "schedules). static_partitioner term proved for n<65536, divisor<=64 (exact binary32).",
    technique="Lean 4 proof (task-tree interleaving model over the free monoid) + generated constants + differential / trace validation",
    design="§3 C06")
CLAIMED["C07"] = dict(
    text="Lean 4 theorems for arbitrary filter lists, token limits >= 1, item counts and schedules: the token ring refines a finite map "
         "(grow preserves it, no slot collision, a parked token is released exactly when low reaches it); at most max_number_of_live_tokens "
         "items in flight; serial filters never overlap; all serial_in_order filters see one common order; every item passes every filter "
         "exactly once; the call returns only after end of input and drain. Tie: generated buffer constants, white-box differential on the "
         "real input_buffer, real and E-SHIM (controlled scheduler, whole instrumented runtime) pipeline runs validated event by event "
         "against the model.",
    note="Trusted: Lean kernel, standard axioms, harness/c07, E-SHIM runtime, sampled correspondence. Model step granularity = lock regions, "
         "RMWs and filter begin/end of parallel_pipeline.cpp.",
    technique="Lean 4 proof (5 inductive invariants over a 13-pc interleaving model; ring refinement) + E-PURE/E-REAL/E-SHIM trace validation",
    design="§3 C07")
CLAIMED["C15"] = dict(
    text="Lean 4 theorems over all operation sequences of the node machines (every state change of these nodes is inside an aggregator "
         "handler or mutex): item_buffer ring refines a map incl. growth with reserved slots; queue_node FIFO; sequencer_node emits exactly "
         "0,1,2,.. in order; priority_queue_node emits a maximum and conserves items; reservations release/consume exactly the reserved "
         "item; limiter ghost counter <= threshold for any integer decrements racing puts; queueing join i-th tuple; key_matching same key "
         "once; reserving join all-or-nothing; overwrite/write_once/broadcast/split/indexer routing. Tie: generated constants and a "
         "behavioural switch probed from the real buffer_node, white-box differential on the real item_buffer, real node classes driven "
         "by op scripts and compared with the Lean drivers, multi-threaded runs with independent monitors.",
    note="Trusted: Lean kernel, standard axioms, harness/c15, sampled correspondence. Atomicity of a node operation rests on the aggregator "
         "(C13) / node mutex, not re-proved here.",
    technique="Lean 4 proof (sequential node machines, inductive invariants, refinement to maps/multisets) + scripted differential correspondence",
    design="§3 C15, §4 F4")
CLAIMED["C16"] = dict(
    text="Lean 4 theorems for every demand vector, any number of arenas and priority levels: sum of allotments = min(total demand, "
         "effective limit), none above its request, strict priority order, mandatory-concurrency worker; market words stay consistent under "
         "any register/unregister/adjust/limit sequence; deltas handed to the thread server telescope to min(limit, demand); pending-delta "
         "packing loses nothing under any interleaving; global_control active value = min of live values; arena slots: distinct owners, "
         "indices below num_slots, reserved slots never held by workers (any number of threads, every schedule); isolation: a dispatch loop "
         "with isolation tag executes only tasks of its region at all five take points (own pool, steal incl. proxies, mailbox, fifo, critical "
         "stream) and skipping loses nothing; mandatory concurrency: the mandatory request count equals the flag in every reachable state and "
         "is withdrawn by out_of_work on every path; no worker without a mandatory request under soft limit 0; observers: exits <= entries <= "
         "exits+1 per thread and observer. Tie: generated constants and 52 filter/decision facts regenerated from the source text, white-box "
         "differential on the real market/serializer/arena/global_control code, exact differential of all take points on a real arena, "
         "E-SHIM access-level replay (slots, serializer, mandatory flags), whole-runtime E-SHIM programs with isolation / budget / bound / "
         "observer / rest monitors. Isolation as a stack discipline per task dispatcher (restore on normal and exceptional exit of nested "
         "isolate / execute, the isolation word as a function of the frame stack, nested filter, tag re-use residue, resume stream / bypass / "
         "critical displacement) over the regenerated statement skeleton of isolate_within_arena and nested_arena_context; access-level life "
         "cycle of a thread in an arena (slot uniqueness and bound, exact reference accounting, worker bounds under try_join overshoot) with "
         "whole-runtime access traces validated against it.",
    note="Trusted: Lean kernel, standard axioms, harness/c16, source extractors checks/c16b.py / c16c.py, E-SHIM, sampled correspondence. "
         "Per-arena active <= allotted is false at some instants and stated so. Three known findings demonstrated on every run (second "
         "external thread in a one-thread arena; emptied proxy keeps the arena non-empty; isolation tag re-use lets a task of an earlier "
         "region run inside a later one).",
    technique="Lean 4 proof (arithmetic + machine invariants + N-thread protocol invariants) + regenerated decision facts + E-SHIM replay/monitors",
    design="§3 C16")
CLAIMED["C05"] = dict(
    text="Lean 4 theorems for every size < 2^64, grain, partitioner and steal environment: midpoint and proportional (binary32, modelled "
         "exactly) splits give two non-empty adjacent parts; the 2d/3d/nd dimension choice never cuts an indivisible dimension (over the "
         "selection rule regenerated from the headers); the range pool ring holds <= capacity entries that tile the task's range; whatever a "
         "task runs, spawns or drops is the leaf set of a legal split tree of its range; whole loops visit every index exactly once and "
         "nothing outside; simple_partitioner chunks have size in [ceil(g/2), g]; strided index map. Tie: generated constants and selection "
         "flags, white-box differential on the real split constructors and range_vector, the real start_for/partitioners on a scripted "
         "runtime replayed task by task on the model, real-thread runs with per-element monitors. All four partitioners terminate (explicit "
         "fuel) on blocked_range. parallel_for_each (random-access / forward / input iterators, feeder) and parallel_invoke (any number of "
         "functions) as a small-step task system: body calls = input + fed items exactly once, the wait covers fed work transitively, blocks "
         "tile the input in order with sizes in [1, max_block_size], input iterators advance sequentially, item copies live across their body "
         "call and die once; invoke tree shape. Constants / dispatch tables regenerated from the headers; real header code on a second "
         "scripted mock validated event by event.",
    note="Trusted: Lean kernel, standard axioms, harness/c05 (two scripted r1 mocks + real runs), sampled correspondence. No cancellation / "
         "exceptions in the for_each / invoke model; termination for 2d/3d/nd ranges by observation.",
    technique="Lean 4 proof (split-tree refinement under a universally quantified steal environment; exact float model) + generated rules + differential",
    design="§3 C05, §4 F5")
CLAIMED["C20"] = dict(
    text="Lean 4 theorems for all owners, programs and schedules of the suspend-point protocol (one step per access to m_stack_state / "
         "m_is_owner_recalled and per push/take of the resume task): every completed suspension has exactly one accepted resume call before "
         "its continuation and exactly one push (by the resumer iff it found `suspended`, else by the leaver that saw `notified`), the stack "
         "is never run by two threads, no continuation without a resume call, only the chains A->S->N->A and A->N->S->N->A occur for "
         "handed-out points, the enclosing wait cannot complete while a covered task is suspended, owner recall once. Tie: generated enum "
         "values, E-SHIM on the whole instrumented runtime with real ucontext switches; every state-word event is validated as an enabled "
         "model step; independent monitors (continuation count, ordering, deadlock/livelock); scenario families incl. suspension inside "
         "isolate, single-thread arenas, nested waits on coroutines, resumers that exist before the suspension, the resume-versus-sleep "
         "window, and cancellation of the suspended task's group before resume.",
    note="Trusted: Lean kernel, standard axioms, E-SHIM runtime, harness/c20, sampled correspondence. The register save/restore of the stack "
         "switch itself is not modelled. API precondition (each suspend point resumed exactly once) is an explicit model guard.",
    technique="Lean 4 proof (N-thread inductive invariant over the handshake protocol) + E-SHIM trace validation with targeted resume windows",
    design="§3 C20")
CLAIMED["C03"] = dict(
    text="Lean 4 theorems for any number of threads, tasks, throw scripts and schedules of the dispatcher's catch/cancel/finalise loop: at most "
         "one exception stored per context epoch, only by the exchange winner, and it was thrown by that group; every task finalised exactly "
         "once (partial: programs without a throwing join; the negation witness for a throwing join is proved and is a recorded finding); "
         "the waiting call returns or rethrows only after the counter is 0 and all other threads are idle; nothing swallowed, with the exact "
         "characterisation of when an exception is dropped; no exception leaves a worker; the group is reusable after wait; reduction bodies "
         "destroyed once and never joined when cancelled. Client models, each parametrised by catch/rethrow skeletons regenerated from the source: "
         "task_arena::execute (exception leaves exactly once on the calling thread after the functor ended, whoever ran it), graph::wait_for_all "
         "(a wrapper around the dispatcher model: handler in a quiescent state, flags, reset before reuse), parallel_pipeline token ownership "
         "(every token and stage task destroyed exactly once, except tokens parked at tear-down: negation proved, recorded finding), and the "
         "destroyed-once ledger for all clients. Tie: E-SHIM on the whole instrumented runtime with fault schedules (k-th body / range split / "
         "copy / join / item copy throws; bodies that first complete an inner construct) over 32 programs; event logs validated against the "
         "models; white-box pipeline buffer snapshots, interposed token and small-object allocators; happens-before monitor for the exception "
         "object and the bodies' writes; independent monitors.",
    note="Trusted: Lean kernel, standard axioms, E-SHIM runtime, harness/c03, checks/c03_skel.py (pattern-based skeleton extraction), sampled "
         "correspondence. Five genuine defects are listed in KNOWN_FINDINGS.txt (throwing join, throwing range split in deterministic reduce, "
         "throwing message copy in flow graph, cancelled pipeline leaking parked tokens, throwing task constructor leaking its small object). "
         "Pipeline buffer discipline is over-approximated (C07's); graph log validation is wrapper-level; C++ unwinding inside user code is not "
         "modelled.",
    technique="Lean 4 proof (interleaving models of the exception path and of its clients; layering: wrapper steps are dispatcher steps or identity) + "
              "E-GEN skeletons decided in Lean + E-SHIM fault x thread schedules with event-log refinement + allocator ledgers + happens-before "
              "recomputation",
    design="§3 C03, §4")

CLAIMED["C14"] = dict(
    text="Lean 4 theorems over all sequences of node operations (each is an aggregator handler or mutex-protected step): body invocations in "
         "flight = my_concurrency <= limit (serial: never two); an accepted message is in exactly one of {running body, queue} and leaves "
         "through exactly one body invocation, a rejected put changes nothing; broadcast offers each output once to every successor, "
         "round-robin to exactly one; a rejected message stays with its sender and the edge flips push->pull in the same step; graphs of "
         "queueing/unlimited nodes conserve the message multiset for every interleaving; wait vertex 0 implies no body running, nothing in "
         "transit, no reservation open; no body after cancel. Tie: the concurrency tests/updates are re-extracted from the source into the "
         "model, real node classes run on a scripted mock of the runtime and are compared line by line with the Lean interpreter, "
         "real-thread runs on 13 topology families with independent monitors. Session 3: the one-reservation-per-cache protocol of "
         "limiter_node / input_node with any number of concurrent forward attempts (single owner, consumed iff delivered, a failed attempt "
         "touches nothing), the wait tree with async-gateway references (wait_for_all cannot return over an open reserve_wait or a "
         "foreign-created task), try_put_and_wait metainfo reference counting (returns after all descendants, ignores unrelated messages), "
         "the precise post-cancellation statement; each model is parametrised by flags regenerated from the source and the theorems are "
         "instantiated at them by decide; the real limiter and the real wait_context_vertex / reference_vertex also run under the "
         "controlled scheduler with ownership monitors and per-access replay.",
    note="Trusted: Lean kernel, standard axioms, harness/c14 (mock r1 + real runs + controlled-scheduler harnesses), source extractors, "
         "sampled correspondence. Sender contracts of the real buffers are C15's; the dispatcher wait loop is C01 / C02's; multifunction "
         "ports, async gateways and limiter decrementers do not propagate metainfo.",
    technique="Lean 4 proof (node machines, network machine, flag-parametrised interleaving models with inductive invariants) + regenerated guards/skeletons + scripted differential + controlled-scheduler replay",
    design="§3 C14")

CLAIMED["C01"] = dict(
    text="Lean 4 theorems for every schedule and any number of thieves/pushers/threads, on models with one step per atomic access: the arena "
         "slot deque conserves tasks (spawned = returned + in flight + resident, incl. growth/compaction under the lock, isolation holes, "
         "empty proxies), no task handed out twice or lost, the last-task owner/thief arbitration never both take it; the mailed-task proxy is "
         "claimed by exactly one side and freed exactly once after the winner's last access; the MPSC mailbox loses/duplicates nothing and "
         "respects FIFO; task_stream lanes conserve tasks and keep the population bit truthful; fold_tree releases the wait node exactly "
         "once after every leaf; reference vertices never underflow and root 0 implies global quiescence. Tie: generated constants, E-SHIM on "
         "the whole instrumented runtime with white-box component scenarios whose head/tail/lock/proxy/mailbox traces replay access by access "
         "on the models (random + bounded-preemption DFS), end-to-end task programs with exactly-once and wait-covers-all monitors. The whole "
         "dispatcher is a task-level composition model (Dispatch: any arenas / slots / threads, the seven look-up sources in the order "
         "regenerated from task_dispatcher.h, spawn / enqueue / mail / bypass / cancel / nested waits): every unit is executed-or-cancelled at "
         "most once and exactly once when its group's wait has returned, a pending unit is in exactly one place, a wait covers all work "
         "submitted transitively, whichever thread takes a unit; the container interface is discharged by the component theorems; real runs "
         "are validated event by event against it. The owner/thief last-task arbitration is also proved under x86-TSO store buffers (1 owner "
         "x 1 thief), under fencesOK over the memory orders regenerated from the trace, with necessity witnesses for each fence.",
    note="Trusted: Lean kernel, standard axioms, E-SHIM runtime, harness/c01 (incl. --wrap interposition of the r1 entry points), sampled "
         "correspondence. TSO layer only for the 1x1x1 last-task window (x86 mapping); everything else sequentially consistent. Dispatch "
         "containers are bags; release timing is observed at task return or counter zero; resume tasks / flow-graph bodies not exercised.",
    technique="Lean 4 proof (conservation invariants over access-level protocol models; counting invariants over a composition model; finite TSO closure by decide +kernel) + E-SHIM trace replay / validation + DFS",
    design="§3 C01")
CLAIMED["C19"] = dict(
    text="Lean 4 theorems for any number of callers (<= the generated reference bound), all schedules and throw oracles: collaborative_call_once "
         "runs the function to success at most once, every normal return saw exactly one success, a throwing attempt's exception reaches only "
         "its winner and the flag returns to uninitialized so a later/concurrent caller retries, helper counts never carry into the pointer "
         "bits and the runner is never used after destruction; enumerable_thread_specific: one create_local per thread, every lookup returns "
         "the thread's own element, no sharing, the open-addressing probe invariant and load <= 1/2 hold, growth preserves all slots, "
         "iteration visits each element once; across the container's lifecycle (clear, destroy + re-create, move-assignment of a fresh "
         "container) for both key kinds every local() returns the caller's own element of the current generation — over lifecycle statement "
         "sequences and the internal_swap fact (the native TLS key travels with the table and the elements) regenerated from the header. Tie: "
         "generated constants and lifecycle facts, E-SHIM access-level replay of the state word / slot claims on the models, lifecycle "
         "scenarios replayed on the lifecycle model, independent monitors, directed 130-caller saturation schedule, real-library runs.",
    note="Trusted: Lean kernel, standard axioms, E-SHIM, harness/c19 (harness-local r1 stubs keep the dispatcher's exception protocol), sampled "
         "correspondence. With more than 128 callers the helper count can carry into the runner pointer (proved for the model, reproduced on "
         "the header; outside the property's 2-8 thread quantifier, recorded as an observation).",
    technique="Lean 4 proof (two inductive invariants per protocol, one preservation lemma per program counter) + E-SHIM trace replay",
    design="§3 C19")

CLAIMED["C02"] = dict(
    text="Lean 4 theorems (liveness stated as safety over complete schedules): concurrent_monitor, N sleepers x M notifiers, one step per "
         "atomic access: a sleeper parked with a closed semaphore is still in the waitset or owed a V, and if its predicate is true a V is "
         "owed or the notifier that made it true has not finished its scan (no lost wake-up at quiescence); abort wakes all; skipped "
         "wake-ups balanced (never V on an open semaphore); futex binary semaphore loses no V; arena work flag never UNSET with work present "
         "and no publisher in flight; wait_context sleep protocol; x86-TSO store-buffer model of the 1x1 monitor: no lost wake-up under "
         "fencesOK(orders), with kernel-checked necessity witnesses for the sleeper's and the notifier's fence, where the orders table is "
         "regenerated from the memory orders observed in the E-SHIM trace. Tie: the real monitor/semaphore/flag/wait_context run under "
         "E-SHIM with access-level replay (random + DFS), whole-runtime sleep/enqueue/blocking-queue/mutex scenarios with deadlock detection. "
         "Client protocols embedded on the proved monitor: concurrent_bounded_queue blocking push/pop (tickets, capacity, predicate_leq, abort: "
         "blocked operations complete in clean histories, abort wakes all in every history), arena::enqueue_task / out_of_work / mandatory "
         "concurrency (with an enqueued task at quiescence the registered demand is >= 1 even with soft limit 0; exact accounting), "
         "task_arena::execute slot waits (a completed delegated task wakes its waiter; no slot release is missed between the re-check and "
         "commit_wait) - each replayed access by access on the real code, with state-guided schedules through the re-check / commit window.",
    note="Trusted: Lean kernel, standard axioms (TSO closure by decide +kernel, no native_decide), E-SHIM runtime, harness/c02, sampled "
         "correspondence. OS futex and RML thread start are emulated/not modelled; 'enqueued work eventually runs' is proved up to 'demand "
         "is registered and parked threads are notified'. The bounded-queue theorem assumes `clean` (the C09 findings excluded); the execute "
         "hand-over after parking is not claimed: known finding execute-wakeup-absorbed-by-entering-waiter, demonstrated on every run.",
    technique="Lean 4 proof (N x M inductive invariant; finite TSO closure; embedded-monitor client models BQ / AE / EX; regenerated memory-order table) + E-SHIM trace replay + state-guided schedules + deadlock detection",
    design="§3 C02")
CLAIMED["C09"] = dict(
    text="Lean 4 theorems for any number of threads and all schedules of the ticket protocol (one step per atomic access): lane mapping is a "
         "bijection served in order (from the generated phi/n_queue), page ring safe, a pop holding ticket h gets exactly the value published "
         "under h or skips an invalidated slot, conservation, FIFO linearizability with explicit linearisation points, try_pop/try_push "
         "truthful, capacity bound, constructor failure isolated — all under the decidable regime `ok` (no abort-undo hazard, no poisoned page); "
         "abort conservation is proved partial and its negation for the as-coded model is a closed witness. Tie: generated constants, white-box "
         "differential of lane/page arithmetic, E-SHIM on the real headers + concurrent_bounded_queue.cpp with access-level replay (random + "
         "DFS), independent monitors incl. a Wing-Gong FIFO linearizability checker.",
    note="Trusted: Lean kernel, standard axioms, E-SHIM, harness/c09, sampled correspondence. Four genuine defects are listed in "
         "KNOWN_FINDINGS.txt (abort vs new pop ticket, page-allocation failure then pop, capacity after failed push, pop skipping an invalid "
         "ticket without notify) and demonstrated deterministically on every run; one more was repaired (set_capacity(-1)).",
    technique="Lean 4 proof (ticket-protocol invariants, stamped linearisation) + generated constants + E-SHIM trace replay + linearizability monitor",
    design="§3 C09, §4 F3")
CLAIMED["C17"] = dict(
    text="Lean 4 theorems over constants and guards regenerated from the tbbmalloc sources. Front end: every request 1..8128 has a bin whose object size "
         "covers it, consistent indices, alignment of object sizes (8 / 16 / 64), objects of a slab are disjoint, inside the slab, clear of "
         "the header and aligned like their class, the aligned-allocation case split is sound for every 64-bit size and power-of-two "
         "alignment, aligned results fit and interior pointers map back, large-object placement stays inside its block incl. the 32-bit "
         "offset field, the shadow heap stays disjoint, and the slab owner/foreign-free protocol never hands out a live object under any "
         "schedule. Back end (one model step per serialised operation): in every reachable state the regions are exactly tiled with consistent "
         "boundary tags, bins hold exactly the free blocks of their class, handed-out blocks are pairwise disjoint, inside one region, disjoint "
         "from binned blocks; coalescing never touches a handed-out block; remap keeps the object's offset and prefix; calloc zero-fills on every "
         "path. Guarded-size protocol (one step per atomic access): at most one contender wins a block under every schedule, tags restored otherwise. "
         "Back-reference table: free-list invariant, new indices fresh, live indices keep their pointer (also across growth), getBackRef stays inside "
         "a registered leaf, recognition through the table is sound. Tie: exhaustive white-box differential over all small sizes x alignments "
         "against the real frontend.cpp; state-by-state differential of the real Backend and table; Lean invariants evaluated on real snapshots; "
         "monitors after every scalable_* operation; E-SHIM trace replay of tryLockBlock/GuardedSize; real-library multi-threaded histories "
         "checked by an independent shadow-heap monitor.",
    note="Trusted: Lean kernel, standard axioms (two whole finite tables by decide +kernel), checks/cexpr.py + checks/c17be.py translation of guards, "
         "harness/c17 (be.cpp emulates the OS layer over one arena), sampled correspondence. The refinement between the per-access guarded-size protocol "
         "and the per-operation back-end model is not proved; the model's ghost preconditions are checked by the differential; large-object cache, huge "
         "pages and MallocMutex contention are not modelled. Replays are wb / be.cpp bk, br, mm, mt scripts, gs.cpp schedules or real.cpp histories.",
    technique="Lean 4 proof (arithmetic over generated constants/guards; back-end tiling / bins / hand-out frame invariants; guarded-size protocol invariant; "
              "back-reference free-list invariant) + E-GEN guards + white-box state differential + snapshot validation by Lean predicates + monitors + "
              "E-SHIM trace replay + shadow-heap monitor",
    design="§3 C17")
CLAIMED["C18"] = dict(
    text="Lean 4 theorems over guards regenerated from the source text: calloc rejects exactly when nobj*size >= 2^64, the large-object size "
         "computation returns null before allocating whenever size+headers+alignment or its bin rounding reaches 2^64 and otherwise is the "
         "true rounding, the mremap path of realloc (Backend::remap) rejects whenever newSize + the object's offset in its region or its bin "
         "rounding reaches 2^64 and otherwise re-maps exactly the rounded size, aligned sums cannot wrap, EINVAL exactly for non-powers-of-two, "
         "pool ledger (blocks inside owned regions, a region is returned at most once). Tie: boundary differential near SIZE_MAX against the "
         "real code, realloc of slab / large / lone-region objects to unrepresentable sizes, fault enumeration on the real library (k-th raw "
         "callback / mmap fails: one-shot, windowed, persistent, with recovery; first-touch matrix: the first operation of a fresh thread on a "
         "fresh or warm pool with the 1st..4th request it causes refused; default-pool traffic interleaved with pool requests) with ledger "
         "validation, standing probes for the repaired defects.",
    note="Trusted: Lean kernel, standard axioms, checks/cexpr.py, harness/c18 (interposed mmap/munmap, pool callbacks), sampled correspondence. "
         "The back-end retry ladder is explored, not modelled. Four genuine defects found by this check were repaired (fixed: lines).",
    technique="Lean 4 proof (64-bit wrap-around arithmetic over regenerated guards; ledger spec) + fault enumeration + differential",
    design="§3 C18")

CLAIMED["C04"] = dict(
    text="Lean 4 theorems for any number of threads and contexts, any tree, registry order and schedule of the bind/cancel protocol modelled "
         "exactly as coded (per-thread context lists with mutex and epoch, global epoch, registry mutex, the separate propagation mutex), "
         "over two facts regenerated from the source (which mutexes the propagator holds; whether the binder's copy can clear a flag): at "
         "quiescence every context bound beneath a cancelled one is cancelled, including those bound while the cancellation propagated; a "
         "context is marked only if a cancel call won on it or an ancestor; one winner; sticky until reset. Closed negation witnesses show "
         "the statement fails when either fact is false (the two defects that were repaired). Tie: E-SHIM on the whole instrumented "
         "runtime, white-box bind/cancel/destroy programs whose context/epoch/mutex traces replay step by step on the model, natural nested "
         "parallel_for runs, state-guided schedules that reproduce the defect windows deterministically. Session 3: the reach theorem now "
         "covers programs with reset (the ordered stores of reset() are regenerated and performed store by store; ghost stamps say which "
         "cancellation is current) and a dynamic registry (threads register mid-run and exit): everything bound beneath a currently "
         "cancelled context is cancelled unless it, or a context on the path, was reset after the win or sits in an exited thread's list; "
         "the may_have_children hint is never cleared while a child is registered; reset changes only its own context; closed witnesses for "
         "a hint-clearing reset and for the orphaned list.",
    note="Trusted: Lean kernel, standard axioms, source extractor in checks/c04.py, E-SHIM runtime, harness/c04, sampled correspondence. "
         "Sequentially consistent interleavings (the TSO side condition on the relaxed accesses of the binding fast path is not modelled). "
         "Contexts in an exited thread's orphaned list are not reached by cancellation in the code: known finding, reproduced through the "
         "public API.",
    technique="Lean 4 proof (inductive invariant over the epoch/list protocol with ghost stamps, parameterised by regenerated lock and reset facts) + E-SHIM trace replay + op-stamp monitors + sequential-spec oracle",
    design="§3 C04, §4 F2")
CLAIMED["C10"] = dict(
    text="Lean 4 theorems for any hash function, any number of threads/programs and every schedule of the hash-map machine (one step per lock "
         "operation / access to mask and size): every linked node sits in the home bucket of its hash, keys unique, a split moves exactly the "
         "keys of the new bit, a completed search inspected the key's home bucket (needs check_mask_race), the history appended at named "
         "linearisation points is a legal sequential map history (one insert winner, one erase winner, find-after-insert), writer accessors "
         "exclude all and const accessors exclude writers, an element is freed only by its unlinker after taking its lock as writer, one "
         "grower at a time. Tie: generated constants, white-box differential of bucket/segment arithmetic, E-SHIM on the real "
         "concurrent_hash_map with critical-section events replayed as enabled model transitions and the proof invariant evaluated on the "
         "replayed states, independent per-key linearizability and holder monitors, random + bounded-preemption DFS. Session 3: a refined "
         "model whose bucket and element mutexes are the word-level spin_rw_mutex model of C08 (one step per atomic access, executed by the "
         "C08 step function itself) with an inductive coupling invariant and a refinement to the critical-section model, so every earlier "
         "theorem holds at lock-word granularity; plus: re-search after a non-atomic upgrade, restart of rehash_bucket after a contended "
         "upgrade, lock order (element locks only try-acquired under a bucket lock), erase waits for accessors, mask-race safety, exact "
         "size; every lock-word / node_list / mask / size access of the real map is replayed on it; statement skeletons of 12 functions "
         "regenerated; hint-guided schedules with path-coverage accounting.",
    note="Trusted: Lean kernel, standard axioms, E-SHIM, harness/c10, checks/c10gen.py, sampled correspondence. Deadlock freedom is _partial: "
         "the lock order is proved, progress on a single contended word is by C08 plus the deadlock monitor. Code under a bucket lock between "
         "atomic accesses is one model step; sequentially consistent interleavings.",
    technique="Lean 4 proof (inductive invariant + ghost-history linearizability; superposition refinement with the C08 word model instantiated per lock + coupling invariant) + regenerated skeletons + E-SHIM access-level replay + linearizability monitor",
    design="§3 C10")
CLAIMED["C12"] = dict(
    text="Lean 4 theorems for any number of threads and every schedule at atomic-access granularity: the insert-only CAS list is always sorted, "
         "duplicate-free for unique containers and consists of exactly the successful inserts; one winner per key; find-after-insert; "
         "traversals see everything present at their start exactly once in order; bit-reversal / split-order key facts (dummy < regular, "
         "parent before child, elements stay reachable from their bucket through doublings); the bucket table is always valid; skip-list "
         "levels are sorted CAS lists with level l+1 within level l (sub-sequence proved for unique containers, partial for multi) and a "
         "search from any level finds the level-0 lower bound. Tie: generated constants and memory orders, exhaustive/boundary differential "
         "of the bit arithmetic, E-SHIM lock-step replay of every next-pointer/bucket/height access of the 8 real containers, independent "
         "monitors, random + DFS schedules. Session 3: user functors that throw (comparator, hasher, key_equal, element constructor, "
         "allocator) are part of the programs the theorems quantify over: no dead node is ever reachable, nothing is freed twice, list "
         "invariants hold after a throwing insert (over the delete-on-throw policy regenerated from the source); skip-list level structure "
         "proved for multi containers too; count() of multi containers bounded. Fault schedules (k-th functor call throws, for every k, "
         "hold-point sweeps) with a deallocation-time reachability ledger, replayed on the models.",
    note="Trusted: Lean kernel, standard axioms, E-SHIM, harness/c12, sampled correspondence. Observations recorded, not claimed as "
         "violations: inserts that throw before the link leak their node; after a post-link comparator throw size() is one short; count() "
         "of multi containers can over-report under concurrent inserts (bounded); skip-list insert busy-waits on max_height.",
    technique="Lean 4 proof (CAS-list system invariants lifted to split-order and skip-list systems; fault annotations as program ops) + regenerated handler classification + E-SHIM lock-step replay + fault schedules",
    design="§3 C12")

CLAIMED["C13"] = dict(
    text="Lean 4 theorems: heapify/reheap keep the heap order and the multiset (top removed); for every heap state and every batch of operations "
         "formed by the aggregator there is an order of the batch's (pairwise concurrent) operations under which the sequential priority-queue "
         "specification gives exactly the observed results and final contents — every successful pop returns a maximal element at its place in "
         "that order, a failed pop saw an empty queue; conservation; a throwing push-side copy fails only its own operation (partial: the "
         "pop-side assignment throw escapes the handler as coded — negation witness proved, recorded as a known finding); aggregator: batches "
         "are handled one at a time, every submitted operation is in exactly one batch and gets its status exactly once (any number of threads, "
         "all schedules). Tie: white-box differential on the real handle_operations / heapify / reheap (random heaps x batches, throwing copy at "
         "each position), E-SHIM access-level validation of the aggregator protocol, independent monitors incl. a priority-queue "
         "linearizability checker on small histories. Session 3: the composition is a theorem - every concurrent history of push / emplace / "
         "try_pop on the access-level aggregator model (any threads, programs, schedules, any key preorder with ties) is linearizable w.r.t. "
         "the multiset priority-queue specification, with all linearization points of a batch at the exchange that grabs it and the "
         "executable order batchLin inside a batch; pops are truthful and maximal, elements conserved, failed pushes isolated at history "
         "level; the guards and the statement skeleton of handle_operations are regenerated from the source; real histories are validated "
         "against the model-produced linearization and by Wing-Gong.",
    note="Trusted: Lean kernel, standard axioms, harness/c13, checks/c13gen.py translator, E-SHIM, sampled correspondence. Linearizable is the "
         "linearization-point form; the handler's serve order is not a linearization (shown); pop-side assignment throw excluded (known finding).",
    technique="Lean 4 proof (heap lemmas, executable batch linearization, refinement invariant of the handler loop + history invariant over the N-thread aggregator system) + regenerated guards/skeleton + white-box differential + E-SHIM replay + history validation",
    design="§3 C13")

NOT_YET = "check not built yet in this round (planned: DESIGN.md §3); no claim is made"



# ---- session-3 extensions: what was added to the entries above -----------------------------------------------------------------
def _ext(cid, text, note, technique=None, replace_note=None):
    e = CLAIMED[cid]
    e["text"] += " " + text
    if replace_note:
        for old, new in replace_note:
            e["note"] = e["note"].replace(old, new)
    e["note"] += " " + note
    if technique:
        e["technique"] += " + " + technique


_ext("C06",
     "Session 3: parallel_scan proved on a small-step task protocol (start_scan, finish_scan, sum_node, final_sum; stealing nondeterministic at every "
     "task, any execution order): each element gets exactly one final-pass visit with the in-order reduction of everything to its left, no pre-scan "
     "after a final scan; the coded quick-sort partition loop is proved in bounds for every irreflexive asymmetric comparator and correct for every "
     "strict weak ordering; the deterministic-reduce tree is a function of (range, grain, divisor) for all sizes.",
     "static_partitioner's divisor is the arena's max_concurrency(): the tree differs across arena concurrencies (known finding, proved and reproduced). "
     "std::sort on leaves is assumed correct.",
     "statement skeleton of the scan protocol regenerated from source + lazy-placement replay of real event logs + comparison-trace differential under ASan",
     [("static_partitioner term proved for n<65536, divisor<=64 (exact binary32).", "static_partitioner theorems for divisor < 2^24, range < 2^64 (binary32 split imported from C05).")])
_ext("C08",
     "Session 3: queuing_rw_mutex is modelled at the level of its atomic accesses for any number of threads (110 program counters, the code's own words); "
     "a kernel-checked inductive invariant yields writer exclusion, no null/tagged dereference, queue order / no overtaking, truthful non-blocking "
     "try_acquire and atomic downgrade for every schedule of programs without upgrade_to_writer; rtm_rw_mutex's write_flag protocol is modelled with "
     "abstract transactions and proved to keep speculative readers / writers away from real holders. Every run replays the real access traces on the "
     "models, explores small configurations exhaustively, regenerates source-order facts and checks happens-before between critical sections under the "
     "memory orders the code passes (all mutex types, every acquisition path).",
     "upgrade_to_writer paths: replayed and explored for small configurations only, not covered by the inductive invariant; speculative (RTM) paths tied by "
     "source-text facts (the harness forces the real path).",
     "generated per-(clause, pc) invariant-preservation proofs + bounded exhaustive exploration + vector-clock happens-before monitor + regenerated source facts decided in Lean",
     [("PARTIAL: queuing_rw_mutex's internal node protocol is not modelled (spec-level validation + exploration); RTM variants run only their fall-back path here.", "")])
_ext("C09",
     "Session 3: the page life cycle of micro_queue (allocation, linking under page_mutex, retirement, deallocation after head_counter is published, element "
     "construction / destruction) is proved safe for all schedules of any number of producers and consumers on an access-level lane model; the "
     "non-concurrent operations (copy, move, assign, swap, clear, iteration, set_capacity, size) refine the abstract FIFO.",
     "Page theorems hold while no page allocation failed (closed witnesses for the rest); page-level clear / copy are sampled, not proved; set_capacity does not "
     "wake blocked pushers (known finding).",
     "page-level access-log replay + quarantining allocator + happens-before monitor + sequential differential with a page ledger")
_ext("C15",
     "Session 3: buffer / queue / sequencer / priority_queue nodes are modelled per aggregator batch as coded (regenerated try_forwarding switch, forwarder_busy "
     "epilogue, offer loop, pull-mode flips) and join_node_base with rejection and re-try for every number of ports; batches are linearizable in list order, "
     "the node contracts hold across arbitrary sequences of batches and successor behaviours, an accepted item is not left without a forwarder (under the "
     "skeleton's ok predicate), sequence numbers up to 2^62 with the regenerated size_t index expressions.",
     "Known finding: the sequencer's switch assigns try_forwarding, so a rejected put withdraws the forwarding request of an accepted one in the same batch "
     "(proved witness, reproduced on the real node). Priority-queue batch linearizability only as dominance.",
     "regenerated switch skeleton with ok-predicate theorems instantiated by decide + forced multi-operation batches on the real aggregator",
     [("Atomicity of a node operation rests on the aggregator (C13) / node mutex, not re-proved here.", "The aggregator's serialisation is the single imported hypothesis (C13 proves it of the same _aggregator.h); limiter / overwrite atomicity rests on their mutex.")])
_ext("C18",
     "Session 3: the back end's failure ladder is proved clean and recoverable under an adversarial raw-memory oracle on C17's per-operation back-end model "
     "(failure_is_clean, recovery, no_partial_region, large-object failure), pools are proved to stay inside, and to return exactly once, the raw memory their own "
     "callback granted (also when raw-free reports errors), fixed pools make one raw call; the guards of pool_create, pool aligned entry points, realloc copy length "
     "and the C++ allocators are regenerated and proved exact.",
     "C17's ghost flag skip is an escape clause of the recovery theorems; large-object cache rungs, concurrent callers and start-up failure are sampled only. Two known "
     "findings in cache_aligned_allocator / tbb_allocator / cache_aligned_resource.",
     "inductive frame / invariant proofs over the back-end model + white-box differential with a scripted oracle",
     [("The back-end retry ladder is explored, not modelled.", "")])
_ext("C19",
     "Session 3: the collaborative part of collaborative_call_once (stack-published runner with pointer + reference-count word, incarnations / ABA, lifetime guards, "
     "destructor wait, helpers executing inner tasks only inside assist() of the live runner, isolation) is proved memory-safe and complete for every schedule up to the "
     "exact caller bound 128; ETS storage with throwing initialisers / failing allocation: exactly one successful initialiser call per thread, truthful exists, "
     "retry after a failure, stable addresses (instance of C11).",
     "Two known findings (after a throwing initialiser the never-constructed element stays visible to size(), iteration and combine; elements beyond a failed allocation "
     "are invisible). flattened2d is differential only.",
     "projection-based extension (Collab projects onto Once) + generated statement skeleton and memory orders + poison-after-scope monitor + happens-before recomputation")

_ext("C20",
     "Session 3: the dispatcher pool of an arena (coroutine cache, post-resume actions, repeated and nested suspensions, critical state) never hands a dispatcher out "
     "twice, runs each post-resume action exactly once on the new stack before the thread takes any task, and destroys dispatchers only when idle; every wait that "
     "covers a suspended task is incomplete and an outermost wait is left only by the owner of its stack (Pool / Ring / Wait models configured by statement-order "
     "facts regenerated from the source; every dispatcher carries the proved suspend-point core).",
     "The pool model's thread-role error freedom and the agreement of models and implementation are checked on explored schedules (white-box sampler, no source hook), "
     "not proved; ring to bounded-stack refinement not proved; the delegated task_arena::execute path is tied by a generated fact only.",
     "composition of per-object proved cores + count-based ring invariant + differential of the real arena_co_cache + no-hook white-box tracing")

_ext("C07",
     "Session 3: token life cycle under cancellation and exceptions (every token object the library creates is destroyed exactly once, the stop() value is dropped, "
     "the token bound and the return-after-drain clause also hold for cancelled runs, cancellation preserves every safety theorem of the base model) and token-number "
     "wrap-around (the machine-word input_buffer refines the unbounded model across 2^64).",
     "One recorded defect: tokens parked in a serial filter's buffer of a cancelled pipeline leak (the regenerated bufferCleanup flag is false; theorems hold for both "
     "values).",
     "overlay model (cancellation = never scheduled again) + exhaustive-k fault campaign with a per-identity token ledger + machine-word refinement of the ring + happens-before monitor")

def main():
    checks = []
    for pid in ALL:
        if pid not in CLAIMED:
            continue
        c = CLAIMED[pid]
        checks.append({
            "property_id": pid,
            "quick_cmd": "python3 checks/check.py %s --tier quick" % pid,
            "thorough_cmd": "python3 checks/check.py %s --tier thorough" % pid,
            "evidence_file": "evidence/%s.json" % pid,
            "replay_cmd_template": "python3 checks/check.py %s --replay {path}" % pid,
            "engine": "lean4+correspondence",
            "level_claimed": {"category": "proof", "text": c["text"], "design_ref": c["design"]},
            "level_note": c["note"],
            "technique": c["technique"],
        })
    m = {
        "version": 1,
        "setup_cmd": "python3 checks/setup.py",
        "hooks": {
            "guard": "TBB_VERIF_HOOKS",
            "enable": "no source hooks are needed so far: harnesses use a force-included atomic shim and -fno-access-control; -DTBB_VERIF_HOOKS is reserved",
            "baseline_off_cmd": "cmake --build /repo/_build -j16 && ctest --test-dir /repo/_build -j8 --timeout 900",
            "source_commits": [],
            "add_only": True,
        },
        "engines": [
            {"name": "lean", "path": "lean/", "serves_properties": sorted(CLAIMED), "kind_free_text": "Lean 4 models, theorems, tbbdrv line-protocol driver"},
            {"name": "checks", "path": "checks/", "serves_properties": sorted(CLAIMED), "kind_free_text": "driver: regeneration, lake build + axiom audit, harness build, correspondence, failing-input search, evidence"},
            {"name": "harness", "path": "harness/", "serves_properties": sorted(CLAIMED), "kind_free_text": "C++ harnesses compiled against /repo's current tree"},
        ],
        "checks": checks,
        "not_applicable": [{"property_id": p, "reason": NOT_YET} for p in ALL if p not in CLAIMED],
        "notes": "All checks are `python3 checks/check.py <id>`; KNOWN_FINDINGS.txt lists fixed/known defects; DESIGN.md explains the approach.",
    }
    json.dump(m, open(os.path.join(ROOT, "MANIFEST.json"), "w"), indent=1)


if __name__ == "__main__":
    main()
