"""C16 — arenas bound concurrency, give unique slots, respect the worker budget (DESIGN.md §3 C16).

Tie: harness/c16/wb.cpp is linked with every /repo/src/tbb/*.cpp of the current tree (white-box, E-SHIM prelude):
  E-GEN   constants (pending_delta_base, num_priority_levels, ...) -> Generated/C16.lean
  E-PURE  market::update_allotment on white-box demand words, limit_delta, the packed pending word, arena::update_request
  E-PURE  op sequences through the real threading_control_impl (market + serializer proxy, fake rml server), and real
          global_control create/destroy through threading_control::set_active_num_workers
  E-SHIM  arena::occupy_free_slot<worker> / arena_slot::release and thread_request_serializer::update under controlled
          schedules, every atomic access replayed by the Lean interleaving models
Second half (checks/c16b.py, harness/c16/rt.cpp, `mand` mode of wb.cpp): isolation filters / tags, mandatory-concurrency
decisions and observer call sites regenerated from the source (E-GEN); the Iso / Mand / Obs models and their theorems;
op-level differential of the isolation take points on a real arena; access-level replay of advertise_new_work /
out_of_work; whole-runtime E-SHIM scenario programs with isolation / budget / bound / observer / at-rest monitors.
"""
import glob
import json
import os

from common import (BuildError, REPO, SHIM_FLAGS, SHIM_SRC, cxx_build, drv, first_diff, gen_write, log, sh)
import c16b
import c16c

INT_MAX = (1 << 31) - 1


# ---------------------------------------------------------------------------------------------------------
# build / E-GEN
# ---------------------------------------------------------------------------------------------------------
def build_wb():
    srcs = ["harness/c16/wb.cpp"] + [s for s in sorted(glob.glob(os.path.join(REPO, "src/tbb/*.cpp"))) if not s.endswith("/arena.cpp")] + [SHIM_SRC]
    flags = ["-O1", "-g", "-fno-access-control", "-D__TBB_BUILD", "-DNDEBUG", "-mrtm", "-mwaitpkg", "-D__TBB_GNU_ASM_VERSION=2040",
             "-I" + REPO + "/src"] + SHIM_FLAGS
    return cxx_build("C16", "wb", srcs, flags=flags, libs=["-ldl", "-pthread"])


def gen(ck):
    exe = build_wb()
    rc, out, err = sh([exe, "consts"], timeout=60)
    if rc != 0:
        raise BuildError("wb consts failed rc=%d %s" % (rc, err[-500:]))
    c = json.loads(out)
    ck.extra["generated_constants"] = c
    base = c["pendingDeltaBase"]
    lg = max(base.bit_length() - 1, 0)
    body = "def pendingDeltaBase : Nat := %d\ndef pendingDeltaBaseLog2 : Nat := %d\n" % (base, lg)
    for k in ("numPriorityLevels", "refExternalBits", "intBits", "pendingWordBits"):
        body += "def %s : Nat := %d\n" % (k, c[k])
    text2, obl2, srcs2 = c16b.gen_part2()
    text3, obl3, srcs3 = c16c.gen_part3()
    gen_write("C16", body + text2 + text3)
    srcs2.update(srcs3)
    ck.extra["generated_conditions"] = srcs2
    for name, ok, detail in obl2 + obl3:
        ck.oblige(name, "generated", ok, detail)
    ck.oblige("gen:pendingDeltaBase is a power of two below 2^30 (mask/counter arithmetic of update())", "generated",
              base == 1 << lg and 1 <= base < (1 << 30), c)
    ck.oblige("gen:int is 32 bit, my_pending_delta is 64 bit", "generated", c["intBits"] == 32 and c["pendingWordBits"] == 64, c)
    ck.oblige("gen:out_of_arena == ~size_t(0)", "generated", c["outOfArenaIsAllOnes"] == 1, c)
    return exe, c


# ---------------------------------------------------------------------------------------------------------
# allotment: inputs, monitors
# ---------------------------------------------------------------------------------------------------------
def allot_line(soft, total, mand, levels):
    return "allot %d %d %d " % (soft, total, mand) + " ".join("L %d " % D + " ".join("%d:%d" % c for c in cs) for D, cs in levels).replace("  ", " ")


def parse_allot_out(s):
    """'a:t a:t | a:t # sum' -> ([[a,...],...], [[t,...],...], sum)"""
    body, _, tot = s.rpartition("#")
    al, tp = [], []
    for part in body.split("|"):
        toks = part.split()
        al.append([int(t.split(":")[0]) for t in toks])
        tp.append([t.split(":")[1] for t in toks])
    return al, tp, int(tot)


def eff_limit(soft, mand):
    return 1 if (mand > 0 and soft == 0) else soft


def allot_wf(total, levels):
    return total == sum(D for D, _ in levels) and all(D == sum(m for _, m in cs) for D, cs in levels)


def allot_monitor(soft, total, mand, levels, al):
    """The property on one allotment vector (independent of the model).  Returns None or a description."""
    if len(al) != len(levels) or any(len(a) != len(cs) for a, (_, cs) in zip(al, levels)):
        return "shape"
    if not allot_wf(total, levels):
        return None         # inconsistent market words: only the model comparison applies
    for l, (a, (_, cs)) in enumerate(zip(al, levels)):
        for k, (x, (mn, mx)) in enumerate(zip(a, cs)):
            if x < 0 or x > mx:
                return "arena %d of level %d granted %d workers but requested %d" % (k, l, x, mx)
    s = sum(sum(a) for a in al)
    elig = any(mn > 0 and mx > 0 for _, cs in levels for mn, mx in cs)
    lim = min(total, eff_limit(soft, mand))
    if soft > 0:
        if s != lim:
            return "granted workers sum to %d, min(total demand %d, limit %d) = %d" % (s, total, soft, lim)
        for j in range(len(al)):
            if sum(al[j]) > 0:
                for i in range(j):
                    if sum(al[i]) != levels[i][0]:
                        return "level %d got %d workers while higher-priority level %d has %d of its demand %d" % (j, sum(al[j]), i, sum(al[i]), levels[i][0])
    else:
        if s > lim:
            return "soft limit 0: %d workers granted, at most %d allowed" % (s, lim)
        for a, (_, cs) in zip(al, levels):
            for x, (mn, mx) in zip(a, cs):
                if x > 0 and not (mn > 0 and mx > 0):
                    return "mandatory worker given to a client that did not request it (min_workers=%d max_workers=%d)" % (mn, mx)
        if elig and mand > 0 and s != lim:
            return "soft limit 0 with a mandatory request: %d workers granted, expected %d" % (s, lim)
    return None


def gen_allot_case(rng, nlev, big=False):
    vals = [0, 0, 1, 1, 2, 3, 4, 5, 7, 8, 16, 31, 100, 255, 1000]
    mode = rng.random()
    levels = []
    eqv = rng.choice(vals[2:])
    for l in range(nlev):
        n = rng.choice([0, 0, 1, 1, 2, 2, 3, 4, 6]) if rng.random() < 0.93 else rng.randrange(10, 41)
        cs = []
        for _ in range(n):
            if big:
                mx = rng.choice([0, 1, 39999, 40000, 12345, rng.randrange(1, 40001)])
            elif mode < 0.15:
                mx = eqv
            else:
                mx = rng.choice(vals) if rng.random() < 0.8 else rng.randrange(0, 3000)
            mn = 1 if rng.random() < 0.3 else 0
            cs.append((mn, mx))
        levels.append((sum(m for _, m in cs), cs))
    total = sum(D for D, _ in levels)
    mand = sum(mn for _, cs in levels for mn, _ in cs)
    if rng.random() < 0.15:
        mand = rng.choice([0, 1, 2, mand + 1])
    cap = 40000 if big else 10 ** 6
    soft = rng.choice([0, 0, 1, 1, 2, 3, total, max(total - 1, 0), total + 1, total // 2, total // 3 + 1, rng.randrange(0, total + 2), 7, 15, 255])
    soft = min(soft, cap)
    # a slice of inputs with inconsistent words (update_allotment is still defined: no division by zero, no int overflow)
    if rng.random() < 0.08:
        levels = [(max(1, D + rng.choice([-2, -1, 0, 1, 5])), cs) for D, cs in levels]
        total = max(0, total + rng.choice([-3, -1, 0, 2, 10]))
    # int arithmetic of the implementation must stay in range: max_workers * assigned_per_priority + carry
    worst = max([mx for _, cs in levels for _, mx in cs] + [0]) * min(soft, max([D for D, _ in levels] + [0])) + max([D for D, _ in levels] + [0])
    if worst >= INT_MAX:
        return gen_allot_case(rng, nlev, big)
    return soft, total, mand, levels


def fixed_allot_cases(nlev):
    cs = []
    L = lambda *xs: [(sum(m for _, m in x), list(x)) for x in xs] + [(0, [])] * (nlev - len(xs))
    def mk(soft, mand, lv):
        return (soft, sum(D for D, _ in lv), mand, lv)
    cs.append(mk(0, 0, L()))
    cs.append(mk(5, 0, L()))
    cs.append(mk(5, 0, L([(0, 0)], [(0, 0), (0, 0)])))
    cs.append(mk(3, 0, L([(0, 2)], [(0, 3), (0, 4)])))
    cs.append(mk(5, 0, L([(0, 2)], [(0, 3), (1, 4)], [(0, 1), (0, 1)])))
    cs.append(mk(1, 0, L([(0, 1), (0, 1), (0, 1)])))
    cs.append(mk(2, 0, L([(0, 1), (0, 1), (0, 1)])))
    cs.append(mk(7, 0, L([(0, 3), (0, 3), (0, 3)], [(0, 5)])))
    cs.append(mk(0, 1, L([(0, 2)], [(0, 3), (1, 4)])))
    cs.append(mk(0, 1, L([(1, 0)], [(0, 3)])))            # mandatory request of a client without demand: nobody eligible
    cs.append(mk(0, 2, L([(1, 1)], [(1, 1)])))
    cs.append(mk(0, 0, L([(0, 2)], [(0, 3)])))
    cs.append(mk(0, 1, L([], [], [(0, 1), (1, 1), (1, 1)])))
    cs.append(mk(40000, 0, L([(0, 40000)], [(0, 40000), (0, 1)])))
    cs.append(mk(39999, 0, L([(0, 40000), (0, 39999), (0, 40000)])))
    cs.append(mk(100, 0, L([(0, 1)] * 40, [(0, 7)] * 33)))
    return [c for c in cs if len(c[3]) == nlev]


def shrink_allot(case, fails):
    soft, total, mand, levels = case
    def norm(soft, mand, levels):
        lv = [(sum(m for _, m in cs), list(cs)) for _, cs in levels]
        return (soft, sum(D for D, _ in lv), mand, lv)
    cur = case
    wf = allot_wf(total, levels)
    progress = True
    while progress:
        progress = False
        soft, total, mand, levels = cur
        cands = []
        for l, (D, cs) in enumerate(levels):
            for k in range(len(cs)):
                nl = [(d, list(c)) for d, c in levels]
                del nl[l][1][k]
                cands.append((soft, mand, nl))
                mn, mx = cs[k]
                for nmx in (mx // 2, mx - 1):
                    if 0 <= nmx < mx:
                        nl = [(d, list(c)) for d, c in levels]
                        nl[l][1][k] = (mn, nmx)
                        cands.append((soft, mand, nl))
        for ns in (soft // 2, soft - 1):
            if 0 <= ns < soft:
                cands.append((ns, mand, levels))
        if mand > 1:
            cands.append((soft, mand - 1, levels))
        for c in cands:
            cand = norm(*c) if wf else (c[0], total, c[1], c[2])
            if fails(cand):
                cur = cand
                progress = True
                break
    return cur


# ---------------------------------------------------------------------------------------------------------
# E-PURE
# ---------------------------------------------------------------------------------------------------------
def run_lines(exe, mode, lines, timeout=900):
    rc, out, err = sh([exe, mode], input="\n".join(lines) + "\n", timeout=timeout)
    res = out.split("\n")[:-1]
    return rc, res, err


def model_lines(ck, name, lines):
    if not ck.extra.get("model_ok"):
        return None
    return drv(name, "\n".join(lines) + "\n")


def run_pure(ck, exe, consts):
    quick = ck.tier == "quick"
    rng = ck.rng
    nlev = consts["numPriorityLevels"]
    base = consts["pendingDeltaBase"]
    cases = fixed_allot_cases(nlev)
    for _ in range(3000 if quick else 60000):
        cases.append(gen_allot_case(rng, nlev))
    for _ in range(150 if quick else 3000):
        cases.append(gen_allot_case(rng, nlev, big=True))
    lines = [allot_line(*c) for c in cases]
    rc, impl, err = run_lines(exe, "pure", lines)
    if rc != 0 or len(impl) != len(lines):
        i = len(impl)
        ck.oblige("corr:update_allotment", "correspondence", False, "harness died (rc=%d) on input %r: %s" % (rc, lines[i] if i < len(lines) else None, err[-300:]))
        if i < len(lines):
            ck.counterexample("allot:crash", "market::update_allotment crashes (rc=%d) on the demand vector %s" % (rc, lines[i]),
                              {"engine": "E-PURE", "mode": "pure", "stdin": lines[i], "expect": "no-crash"})
        return
    model = model_lines(ck, "c16", lines)
    bad_mon = None
    kinds = {}
    for c, o in zip(cases, impl):
        soft, total, mand, levels = c
        al, tp, s = parse_allot_out(o)
        m = allot_monitor(soft, total, mand, levels, al)
        wf = allot_wf(total, levels)
        key = ("wf" if wf else "nonwf", "soft0" if soft == 0 else ("softlt" if soft < total else "softge"), mand > 0,
               sum(1 for _, cs in levels if cs), min(sum(len(cs) for _, cs in levels), 8), s == 0, s == total)
        kinds[key[0] + "/" + key[1]] = kinds.get(key[0] + "/" + key[1], 0) + 1
        ck.count(1, ("allot",) + key)
        if m and bad_mon is None:
            bad_mon = (c, o, m)
    ck.extra["allot_input_distribution"] = kinds
    i3 = len(cases) // 3
    ck.sample({"input": lines[i3], "impl": impl[i3], "model": model[i3] if model else None})
    ck.oblige("monitor:update_allotment (sum = min(demand, limit); <= request; priority order; mandatory worker)", "correspondence", bad_mon is None,
              "" if bad_mon is None else "%s on %s -> %s" % (bad_mon[2], allot_line(*bad_mon[0]), bad_mon[1]))
    d = first_diff(impl, model) if model is not None else None
    if model is not None:
        ck.oblige("corr:update_allotment == Allot (allotment vector and top-priority flags)", "correspondence", d is None,
                  "" if d is None else "input %r: implementation %r, model %r" % (lines[d], impl[d], model[d] if d < len(model) else None))
    if bad_mon is None and d is not None:
        # the model and the code disagree but the sampled vectors satisfy the property: search harder
        extra = [gen_allot_case(rng, nlev) for _ in range(20000 if quick else 200000)]
        rc2, impl2, _ = run_lines(exe, "pure", [allot_line(*c) for c in extra])
        for c, o in zip(extra, impl2):
            m = allot_monitor(*c, parse_allot_out(o)[0])
            ck.count(1)
            if m:
                bad_mon = (c, o, m)
                break
    if bad_mon is not None:
        def fails(c):
            w = max([mx for _, cs in c[3] for _, mx in cs] + [0]) * min(c[0], max([D for D, _ in c[3]] + [0])) + max([D for D, _ in c[3]] + [0])
            if w >= INT_MAX or any(D == 0 and any(mx > 0 for _, mx in cs) for D, cs in c[3]):
                return False
            r, o, _ = run_lines(exe, "pure", [allot_line(*c)])
            return r == 0 and len(o) == 1 and allot_monitor(*c, parse_allot_out(o[0])[0]) is not None
        small = shrink_allot(bad_mon[0], fails)
        r, o, _ = run_lines(exe, "pure", [allot_line(*small)])
        what = allot_monitor(*small, parse_allot_out(o[0])[0])
        ck.counterexample("allot:" + what.split(",")[0].split(" (")[0][:60].replace(" ", "-"),
                          "market::update_allotment on `%s` grants `%s`: %s" % (allot_line(*small), o[0], what),
                          {"engine": "E-PURE", "mode": "pure", "stdin": allot_line(*small), "case": list(small), "observed": o[0], "violation": what})

    # ---- outside the modelled domain: int overflow of `max_workers * assigned_per_priority + carry` (recorded, not an obligation)
    probe = [allot_line(s_, 2 * s_, 0, [(2 * s_, [(0, s_), (0, s_)])] + [(0, [])] * (nlev - 1)) for s_ in (46340, 46341, 50000)]
    rcp, implp, _ = run_lines(exe, "pure", probe)
    modelp = model_lines(ck, "c16", probe)
    ck.extra["observation_int_overflow_in_update_allotment"] = [
        {"input": a, "implementation": b, "model_unbounded_int": c} for a, b, c in zip(probe, implp, modelp or [None] * len(probe))]

    # ---- limit_delta, packed word, update_request ---------------------------------------------------------
    lines = []
    bnd = [-70000, -32768, -100, -3, -1, 0, 1, 2, 3, 7, 100, 32767, 70000]
    for _ in range(1500 if quick else 40000):
        d, l, n = rng.choice(bnd + [rng.randrange(-50, 50)]), rng.choice([0, 1, 2, 3, 15, 255, 100000, rng.randrange(0, 40)]), rng.choice(bnd + [rng.randrange(-20, 60)])
        lines.append("ld %d %d %d" % (d, l, n))
    ctr = 2 * base
    for _ in range(600 if quick else 20000):
        k = rng.choice([0, 0, 1, 2, 3, 65534, 65535, 65536, 65537, 1 << 20, (1 << 31) // ctr, (1 << 32) // ctr, (1 << 47)])
        acc = rng.choice([0, 0, 1, -1, 5, -7, base - 1, -base, rng.randrange(-base, base)])
        word = (base + k * ctr + acc) % (1 << 64)
        d = rng.choice([0, 1, -1, 2, -3, 100, -100, rng.randrange(-300, 300)])
        if not (-base <= acc + d < base):
            d = 0
        lines.append("add %d %d" % (word, d))
    for _ in range(600 if quick else 20000):
        soft, total = rng.choice([0, 1, 2, 5, 100]), rng.randrange(-3, 50)
        d = rng.choice([0, 1, -1, 7, -7, rng.randrange(-100, 100)])
        lines.append("upd %d %d %d %d" % (soft, total, base, d))
    for _ in range(800 if quick else 20000):
        mnw = rng.choice([0, 0, 1, 2, 7, 1000])
        lines.append("ur %d %d %d %d %d" % (mnw, rng.randrange(-1, 4), rng.randrange(-5, mnw + 6), rng.choice([-1, 0, 1]), rng.choice([0, 1, -1, mnw, -mnw, rng.randrange(-10, 10)])))
    rc, impl, err = run_lines(exe, "pure", lines)
    if rc != 0 or len(impl) != len(lines):
        ck.oblige("corr:serializer arithmetic", "correspondence", False, "harness died rc=%d at %r %s" % (rc, lines[len(impl)] if len(impl) < len(lines) else None, err[-300:]))
        return
    ck.count(len(lines))
    for l, o in zip(lines, impl):
        w = l.split()
        ck.distinct.add((w[0], o.split()[0] if w[0] != "ld" else (int(o) > 0) - (int(o) < 0), w[0] == "add" and o.startswith("D")))
    model = model_lines(ck, "c16", lines)
    if model is not None:
        # the harness prints an `add` result as "D 1 <extracted>" (drainer) or "<word> 0"
        m2 = []
        for l, m in zip(lines, model):
            if l.startswith("add"):
                w = m.split()
                m2.append("D 1 %s" % w[2] if w[1] == "1" else "%s 0" % w[0])
            else:
                m2.append(m)
        d = first_diff(impl, m2)
        ck.oblige("corr:limit_delta / packed my_pending_delta word / arena::update_request == model", "correspondence", d is None,
                  "" if d is None else "input %r: implementation %r, model %r" % (lines[d], impl[d], m2[d] if d < len(m2) else None))
    # monitors: limit_delta = clamp difference; update_request clamps; a drained update applies the whole delta
    bad = None
    for l, o in zip(lines, impl):
        w = l.split()
        a = [int(x) for x in w[1:]]
        if w[0] == "ld":
            exp = min(a[1], a[2]) - min(a[1], a[2] - a[0])
            if int(o) != exp:
                bad = (l, o, "limit_delta(delta=%d, limit=%d, new=%d) = %s but min(limit,new) - min(limit,prev) = %d" % (a[0], a[1], a[2], o, exp))
        elif w[0] == "ur":
            mn, mx = [int(x) for x in o.split()]
            hi = 1 if (a[1] + a[3] > 0 and a[0] == 0) else a[0]
            if not (0 <= mx <= hi and mn == (1 if a[1] + a[3] > 0 else 0) and mx == max(0, min(hi, a[2] + a[4]))):
                bad = (l, o, "arena::update_request returned (min=%d,max=%d) for my_max_num_workers=%d, total request %d, mandatory %d" % (mn, mx, a[0], a[2] + a[4], a[1] + a[3]))
        elif w[0] == "upd":
            ws = o.split()
            if ws[2] == "-" or int(ws[1]) != a[1] + a[3] or int(ws[0]) != base or int(ws[2]) != min(a[0], a[1] + a[3]) - min(a[0], a[1]):
                bad = (l, o, "update(%d) on an idle serializer (limit %d, total %d) left total=%s pending=%s handed=%s" % (a[3], a[0], a[1], ws[1], ws[0], ws[2]))
        if bad:
            break
    ck.oblige("monitor:limit_delta is the clamp difference, update_request clamps into [0,max], an idle update applies its delta", "correspondence", bad is None,
              "" if bad is None else bad[2])
    if bad:
        ck.counterexample("serializer:" + bad[0].split()[0], bad[2], {"engine": "E-PURE", "mode": "pure", "stdin": bad[0], "observed": bad[1], "violation": bad[2]})


# ---------------------------------------------------------------------------------------------------------
# world: market + serializer through threading_control_impl
# ---------------------------------------------------------------------------------------------------------
def parse_world(line):
    f = {}
    head, _, rest = line.partition(" C=")
    for kv in head.split():
        k, v = kv.split("=")
        f[k] = v
    cpart, _, tail = rest.partition(" ser=")
    ser, _, prox = tail.partition(" prox=")
    levels = []
    for part in cpart.split("|"):
        cs = []
        for tok in part.split():
            i, mn, mx, al, tp = tok.split(":")
            cs.append((int(i), int(mn), int(mx), int(al), int(tp)))
        levels.append(cs)
    return {"soft": int(f["soft"]), "total": int(f["total"]), "mand": int(f["mand"]), "D": [int(x) for x in f["D"].split(",")],
            "levels": levels, "ser": [int(x) for x in ser.split(",")], "prox": [int(x) for x in prox.split(",")]}


def world_monitor(st, base, stale_ok):
    """Property monitors on one state of the real market + serializer."""
    D, lv = st["D"], st["levels"]
    # the property is about the arenas' actual demand (sum of their requests), whatever the market's words say
    levels = [(sum(c[2] for c in lv[l]), [(c[1], c[2]) for c in lv[l]]) for l in range(len(D))]
    al = [[c[3] for c in cs] for cs in lv]
    if not stale_ok:
        m = allot_monitor(st["soft"], sum(d for d, _ in levels), st["mand"], levels, al)
        if m:
            return m
    if st["total"] != sum(D) or any(D[l] != levels[l][0] for l in range(len(D))):
        return "market words inconsistent with the clients' requests: total=%d levels=%s requests=%s" % (st["total"], D, [[c[2] for c in cs] for cs in lv])
    ssoft, stotal, spend, handed = st["ser"]
    if spend != base:
        return "my_pending_delta=%d at rest" % spend
    if stotal != st["total"]:
        return "serializer total request %d != market total demand %d" % (stotal, st["total"])
    if st["prox"][0] == st["mand"]:
        eff = eff_limit(st["soft"], st["mand"])
        if ssoft != eff:
            return "serializer soft limit %d but the market's effective limit is %d (soft=%d mandatory=%d)" % (ssoft, eff, st["soft"], st["mand"])
    if handed != min(ssoft, stotal):
        return "thread dispatcher was asked for %d workers in total, min(limit %d, request %d) expected" % (handed, ssoft, stotal)
    return None


def gen_world_seq(rng, nlev, nops):
    soft = rng.choice([0, 1, 2, 3, 4, 7, 15])
    ops = ["reset %d" % soft]
    arenas = {}     # id -> [level, mnw, flag_mandatory, flag_pool]
    nid = 0
    for _ in range(rng.randrange(1, 6)):
        lvl, mnw = rng.randrange(nlev), rng.choice([0, 1, 1, 2, 3, 4, 7, 8, 16, 100])
        ops.append("reg %d %d %d" % (nid, lvl, mnw))
        arenas[nid] = [lvl, mnw, False, False, 0]
        nid += 1
    for _ in range(nops):
        r = rng.random()
        ids = sorted(arenas)
        if r < 0.08 or not ids:
            lvl, mnw = rng.randrange(nlev + (1 if rng.random() < 0.05 else 0)), rng.choice([0, 1, 2, 3, 5, 8, 64])
            ops.append("reg %d %d %d" % (nid, lvl, mnw))
            if lvl < nlev:
                arenas[nid] = [lvl, mnw, False, False, 0]
            nid += 1
        elif r < 0.16:
            i = rng.choice(ids)
            ops.append("unreg %d" % i)
            a = arenas[i]
            if not a[2] and not a[3] and a[4] == 0:
                del arenas[i]
        elif r < 0.30:
            ops.append("lim %d" % rng.choice([0, 0, 1, 1, 2, 3, 4, 8, 15, 100]))
        elif r < 0.85:
            # the arena protocol: advertise_new_work<spawned|enqueued> / out_of_work
            i = rng.choice(ids)
            a = arenas[i]
            k = rng.random()
            if k < 0.35:            # spawned work
                if not a[3]:
                    a[3] = True
                    ops.append("adj %d 0 %d" % (i, a[1]))
            elif k < 0.6:           # enqueued work
                md = 0 if a[2] else 1
                wd = 0 if a[3] else a[1]
                if md and a[1] == 0:
                    wd = 1
                a[2], a[3] = True, True
                if md or wd:
                    ops.append("adj %d %d %d" % (i, md, wd))
            else:                    # out_of_work
                md = -1 if a[2] else 0
                wd = -a[1] if a[3] else 0
                if md and a[1] == 0:
                    wd = -1
                a[2], a[3] = False, False
                if md or wd:
                    ops.append("adj %d %d %d" % (i, md, wd))
        else:
            # free-form deltas (the market must stay consistent whatever the arenas ask for)
            i = rng.choice(ids + [nid + 3])
            md, wd = rng.choice([0, 0, 1, -1, 2]), rng.choice([0, 1, -1, 2, -2, 5, -5, 50])
            ops.append("adj %d %d %d" % (i, md, wd))
            if i in arenas and -1 <= md <= 1:
                arenas[i][4] += 1       # no longer following the protocol: never unregister it
    return ops


def run_world(ck, exe, consts):
    quick = ck.tier == "quick"
    rng = ck.rng
    nlev, base = consts["numPriorityLevels"], consts["pendingDeltaBase"]
    seqs = [gen_world_seq(rng, nlev, rng.choice([10, 30, 60, 120])) for _ in range(60 if quick else 1500)]
    bad_corr, bad_mon = None, None
    nstates = 0
    for ops in seqs:
        rc, impl, err = run_lines(exe, "world", ops)
        if rc != 0 or len(impl) != len(ops):
            bad_mon = (ops[:len(impl) + 1], "harness died rc=%d: %s" % (rc, err[-300:]))
            break
        model = model_lines(ck, "c16m", ops)
        if model is not None and bad_corr is None:
            d = first_diff(impl, model)
            if d is not None:
                bad_corr = (ops[:d + 1], impl[d], model[d] if d < len(model) else None)
        protocol_ok = True
        for k, (op, o) in enumerate(zip(ops, impl)):
            if o == "bad-op":
                ck.count(1, ("world", "bad-op", op.split()[0]))
                continue
            st = parse_world(o)
            nstates += 1
            # sum = min(...) in the soft-limit-0 case needs a requesting client behind every mandatory request
            stale = False
            m = world_monitor(st, base, stale)
            ck.count(1, ("world", op.split()[0], st["soft"] == 0, st["mand"] > 0, st["total"] == 0, st["ser"][3] == st["ser"][0], len([1 for cs in st["levels"] if cs])))
            if m and bad_mon is None:
                bad_mon = (ops[:k + 1], m)
        if bad_mon:
            break
    ck.extra["world_sequences"] = len(seqs)
    ck.extra["world_states_checked"] = nstates
    if seqs:
        ck.sample({"world_ops": seqs[0][:8], "note": "first ops of one sequence"})
    ck.oblige("monitor:market words consistent, allotment properties, dispatcher asked for min(limit, demand) after every operation", "correspondence",
              bad_mon is None, "" if bad_mon is None else "%s after ops %s" % (bad_mon[1], bad_mon[0][-6:]))
    if ck.extra.get("model_ok"):
        ck.oblige("corr:threading_control_impl{market, serializer proxy} == World machine (state after every operation)", "correspondence",
                  bad_corr is None, "" if bad_corr is None else "after %s: implementation %r, model %r" % (bad_corr[0][-4:], bad_corr[1], bad_corr[2]))
    if bad_mon is not None:
        ops, what = bad_mon
        def fails(o2):
            rc, impl, _ = run_lines(exe, "world", o2)
            if rc != 0:
                return "harness died" in what
            for x in impl:
                if x != "bad-op" and world_monitor(parse_world(x), base, False):
                    return True
            return False
        cur = list(ops)
        i = len(cur) - 1
        while i >= 1:
            cand = cur[:i] + cur[i + 1:]
            if fails(cand):
                cur = cand
            i -= 1
        rc, impl, _ = run_lines(exe, "world", cur)
        ck.counterexample("world:" + what.split(":")[0].split(",")[0][:50].replace(" ", "-"),
                          "operation sequence %s drives the real market/serializer into a state violating the property: %s" % (cur, what),
                          {"engine": "E-PURE", "mode": "world", "stdin": "\n".join(cur), "observed": impl[-1] if impl else None, "violation": what})


# ---------------------------------------------------------------------------------------------------------
# global_control
# ---------------------------------------------------------------------------------------------------------
def run_gc(ck, exe, consts):
    quick = ck.tier == "quick"
    rng = ck.rng
    res = {}
    for pm, dflt, vals in ((1, consts["defaultNumThreads"], [1, 1, 2, 2, 3, 4, 8, 16, 17, 100, 1000]),
                           (0, consts["threadStackSize"], [100000, 200000, 400000, 800000, 4194304, 9000000])):
        ops = ["reset %d %d" % (pm, dflt)]
        live, nh = {}, 0
        for _ in range(700 if quick else 20000):
            if live and (rng.random() < 0.45 or len(live) >= 8):
                h = rng.choice(sorted(live))
                ops.append("destroy %d" % h)
                del live[h]
            else:
                v = rng.choice(vals)
                ops.append("create %d %d" % (nh, v))
                live[nh] = v
                nh += 1
            if rng.random() < 0.03:
                ops.append("destroy %d" % (nh + 5))      # not alive: rejected by both sides
        rc, impl, err = run_lines(exe, "gc", ops)
        if rc != 0 or len(impl) != len(ops):
            ck.oblige("corr:global_control", "correspondence", False, "harness died rc=%d %s" % (rc, err[-300:]))
            return
        model = model_lines(ck, "c16gc", ops)
        live, bad, badc, notmax = {}, None, None, None
        for k, (op, o) in enumerate(zip(ops, impl)):
            w = op.split()
            if o == "bad-op":
                if model is not None and model[k] != "bad-op" and badc is None:
                    badc = (ops[:k + 1], o, model[k])
                continue
            if w[0] == "create":
                live[int(w[1])] = int(w[2])
            elif w[0] == "destroy":
                live.pop(int(w[1]), None)
            f = dict(kv.split("=") for kv in o.split())
            val = int(f["value"])
            ck.count(1, ("gc", pm, w[0], len(live), val == dflt))
            if pm:
                exp = min(live.values()) if live else dflt
                if val != exp and bad is None:
                    bad = (ops[:k + 1], "active max_allowed_parallelism is %d, the minimum of the live controls %s is %d" % (val, sorted(live.values()), exp))
                if (int(f["soft"]) != val - 1 or int(f["ser"]) != val - 1) and bad is None and k > 0:
                    bad = (ops[:k + 1], "active value %d but market soft limit %s / serializer limit %s (expected value-1 workers)" % (val, f["soft"], f["ser"]))
            else:
                exp = max(live.values()) if live else dflt
                if val != exp and notmax is None:
                    notmax = {"ops": [x for x in ops[1:k + 1]][-6:], "live": sorted(live.values()), "active": val}
            if model is not None and badc is None:
                mf = dict(kv.split("=") for kv in model[k].split()) if model[k] != "bad-op" else None
                if mf is None or mf["value"] != f["value"] or (pm and k > 0 and mf["last"] != "-" and int(mf["last"]) - 1 != int(f["soft"])):
                    badc = (ops[:k + 1], o, model[k])
        if pm:
            ck.oblige("monitor:active max_allowed_parallelism = min of live controls, applied as value-1 workers to market and serializer", "correspondence",
                      bad is None, "" if bad is None else "%s after %s" % (bad[1], bad[0][-5:]))
            if bad:
                cur = list(bad[0])
                def fails(o2):
                    rc, im, _ = run_lines(exe, "gc", o2)
                    lv = {}
                    for op, o in zip(o2, im):
                        w = op.split()
                        if o == "bad-op":
                            continue
                        if w[0] == "create":
                            lv[int(w[1])] = int(w[2])
                        elif w[0] == "destroy":
                            lv.pop(int(w[1]), None)
                        f = dict(kv.split("=") for kv in o.split())
                        if w[0] != "reset" and (int(f["value"]) != (min(lv.values()) if lv else dflt) or int(f["soft"]) != int(f["value"]) - 1):
                            return True
                    return False
                i = len(cur) - 1
                while i >= 1:
                    cand = cur[:i] + cur[i + 1:]
                    if fails(cand):
                        cur = cand
                    i -= 1
                ck.counterexample("gc:" + bad[1].split(",")[0][:40].replace(" ", "-"), "global_control sequence %s: %s" % (cur[1:], bad[1]),
                                  {"engine": "E-PURE", "mode": "gc", "stdin": "\n".join(cur), "violation": bad[1], "default": dflt})
        else:
            ck.extra["observation_thread_stack_size_control"] = notmax or "active value always the maximum of the live controls"
        if model is not None:
            ck.oblige("corr:global_control storage (%s) == GC machine" % ("max_allowed_parallelism" if pm else "thread_stack_size"), "correspondence",
                      badc is None, "" if badc is None else "after %s: implementation %r, model %r" % (badc[0][-4:], badc[1], badc[2]))
        res[pm] = len(ops)
    ck.extra["gc_ops"] = res


# ---------------------------------------------------------------------------------------------------------
# E-SHIM: slots, pending delta
# ---------------------------------------------------------------------------------------------------------
def parse_runs(out):
    runs, cur = [], None
    for l in out.split("\n"):
        if l.startswith("run "):
            cur = {"lines": [], "mon": None, "sched": None, "cfg": None, "fin": None}
            runs.append(cur)
        elif cur is None:
            continue
        elif l.startswith("cfg "):
            cur["cfg"] = l
        elif l.startswith("e ") or l.startswith("r "):
            cur["lines"].append(l[2:])
        elif l.startswith("fin "):
            cur["fin"] = l[4:]
        elif l.startswith("mon "):
            cur["mon"] = l[4:]
        elif l.startswith("sched"):
            cur["sched"] = l.split()[1:]
    return runs


def shim_run(exe, mode, scenario, how, arg, n, timeout=600):
    rc, out, err = sh([exe, mode, how, str(arg), str(n)], input=scenario, timeout=timeout)
    return rc, parse_runs(out), out, err


ORDER_RANK = {"rlx": 0, "cns": 1, "acq": 1, "rel": 1, "acqrel": 2, "sc": 3}


def ev_match(impl, model):
    """exact, or the implementation's memory order is stronger than the model's (tolerated, counted)"""
    if impl == model:
        return True, False
    a, b = impl.split(), model.split()
    if len(a) == 7 and len(b) == 7 and a[:3] == b[:3] and a[4:] == b[4:] and ORDER_RANK.get(a[3], -1) > ORDER_RANK.get(b[3], 9):
        return True, True
    return False, False


CONTENTION = [(1, 1, [("e", 2, 0), ("e", 2, 0)]), (2, 0, [("w", 2, 0), ("w", 2, 0)]), (2, 1, [("e", 1, 0), ("w", 2, 1), ("w", 2, 1)]),
              (3, 1, [("w", 2, 1), ("w", 2, 1), ("e", 2, 1)]), (2, 2, [("e", 2, 1), ("e", 2, 1), ("w", 1, 0)])]


def slot_scenarios(rng, n):
    scs = [(2, 1, [("e", 2, 0), ("w", 2, 1)]), (1, 1, [("e", 2, 0), ("e", 2, 0), ("w", 2, 1)]), (3, 0, [("w", 2, 0), ("w", 2, 1), ("e", 2, 2), ("e", 1, 0)]),
           (2, 2, [("e", 2, 0), ("e", 2, 1), ("w", 2, 0), ("e", 1, 1)])] + CONTENTION
    while len(scs) < n:
        maxc = rng.choice([1, 2, 2, 3, 3, 4])
        res = rng.randrange(0, min(maxc, 2) + 1)
        T = rng.choice([2, 3, 3, 4, 5])
        ths = [(rng.choice("ew"), rng.choice([1, 2, 2, 3]), rng.randrange(0, maxc + 1)) for _ in range(T)]
        scs.append((maxc, res, ths))
    return scs


def slot_text(sc):
    return "cfg %d %d\n" % (sc[0], sc[1]) + "".join("th %s %d %d\n" % t for t in sc[2])


def run_slots(ck, exe):
    quick = ck.tier == "quick"
    rng = ck.rng
    scs = slot_scenarios(rng, 24 if quick else 300)
    bad_mon, bad_corr, nruns, nev = None, None, 0, 0
    tolerated = 0
    for si, sc in enumerate(scs):
        text = slot_text(sc)
        seed = rng.randrange(1, 1 << 30)
        rc, runs, out, err = shim_run(exe, "slots", text, "rand", seed, 10 if quick else 40)
        if not runs:
            bad_mon = (sc, None, "harness died rc=%d %s" % (rc, (out + err)[-300:]))
            break
        for r in runs:
            nruns += 1
            nev += len(r["lines"])
            if r["mon"] != "ok" and bad_mon is None:
                bad_mon = (sc, r["sched"], r["mon"])
            if ck.extra.get("model_ok") and bad_corr is None:
                ml = [r["cfg"]] + r["lines"] + ["check"]
                mo = drv("c16slots", "\n".join(ml) + "\n")
                for a, b in zip(r["lines"], mo[1:-1]):
                    if " res " in a:
                        if b != "ok":
                            bad_corr = (sc, r["sched"], "result line %r: %s" % (a, b))
                            break
                    else:
                        okk, tol = ev_match(a, b)
                        tolerated += tol
                        if not okk:
                            bad_corr = (sc, r["sched"], "thread %s: implementation access %r, model %r" % (a.split()[0], a, b))
                            break
                ck.traces_validated += 1
                inside = mo[-1]
                if bad_corr is None and not inside.startswith("inside=0 "):
                    bad_corr = (sc, r["sched"], "model state at the end: %s" % inside)
            ck.count(1, ("slots", sc[0], sc[1], len(sc[2]), sum(1 for l in r["lines"] if l.endswith(" res -1")) > 0,
                         sum(1 for l in r["lines"] if " xchg " in l and l.split()[4] == "1") > 0))
        if bad_mon:
            break
    # bounded-preemption exhaustive schedules on small scenarios
    dfs_total = 0
    if bad_mon is None:
        for sc in (CONTENTION if quick else CONTENTION + scs[:8]):
            small = (sc[0], sc[1], [(k, min(r, 2), f) for k, r, f in sc[2][:3]])
            rc, runs, out, err = shim_run(exe, "slots", slot_text(small), "dfs", 2, 1500 if quick else 30000)
            summ = [l for l in out.split("\n") if l.startswith("summary")]
            if summ:
                dfs_total += int(summ[0].split()[1].split("=")[1])
            if runs and runs[-1]["mon"] != "ok":
                bad_mon = (small, runs[-1]["sched"], runs[-1]["mon"])
                break
    ck.extra["slots_random_runs"] = nruns
    ck.extra["slots_events_replayed"] = nev
    ck.extra["slots_dfs_schedules"] = dfs_total
    ck.extra["slots_stronger_memory_orders_tolerated"] = tolerated
    ck.count(dfs_total)
    if scs:
        ck.sample({"slots_scenario": slot_text(scs[0]).split("\n")[:-1]})
    ck.oblige("monitor:occupied slots have distinct owners, index < num_slots, workers not in reserved slots, my_limit covers the slot (all explored schedules)",
              "correspondence", bad_mon is None, "" if bad_mon is None else "%s in scenario %r" % (bad_mon[2], slot_text(bad_mon[0])))
    if ck.extra.get("model_ok"):
        ck.oblige("corr:occupy_free_slot/release trace == Slots model (every atomic access: kind, variable, order, values; results)", "correspondence",
                  bad_corr is None, "" if bad_corr is None else "%s; scenario %r schedule %s" % (bad_corr[2], slot_text(bad_corr[0]), ",".join(bad_corr[1] or [])[:200]))
    if bad_mon is None and bad_corr is not None:
        # the code no longer follows the protocol model: hunt for a schedule on which the property itself breaks
        for sc in [bad_corr[0]] + CONTENTION:
            small = (sc[0], sc[1], [(k, min(r, 2), f) for k, r, f in sc[2][:3]])
            rc, runs, out, err = shim_run(exe, "slots", slot_text(small), "dfs", 2 if quick else 3, 6000 if quick else 200000)
            if runs and runs[-1]["mon"] != "ok":
                bad_mon = (small, runs[-1]["sched"], runs[-1]["mon"])
                break
    if bad_mon is not None and bad_mon[1] is not None:
        sc, sched, what = bad_mon
        # shrink: fewer threads / rounds while some bounded schedule still fails
        best = (sc, sched)
        for drop in range(len(sc[2]) - 1, -1, -1):
            cand = (best[0][0], best[0][1], [t for i, t in enumerate(best[0][2]) if i != drop])
            if len(cand[2]) < 2:
                continue
            rc, runs, out, err = shim_run(exe, "slots", slot_text(cand), "dfs", 2, 5000)
            if runs and runs[-1]["mon"] != "ok" and runs[-1]["mon"].split()[0] == what.split()[0]:
                best = (cand, runs[-1]["sched"])
                what = runs[-1]["mon"]
        sc, sched = best
        ck.counterexample("slots:" + " ".join(what.split()[1:7]).replace(" ", "-")[:60] if what.startswith("VIOLATION") else "slots:" + what[:40],
                          "arena(max_concurrency=%d, reserved=%d), threads %s, schedule %s: %s" % (sc[0], sc[1], sc[2], ",".join(sched), what),
                          {"engine": "E-SHIM", "mode": "slots", "stdin": slot_text(sc), "schedule": ",".join(sched), "violation": what})


def run_pend(ck, exe, consts):
    quick = ck.tier == "quick"
    rng = ck.rng
    scs = [(2, [3, -1, 2, -2]), (0, [1, 1]), (1, [5, -5, 5])]
    while len(scs) < (14 if quick else 200):
        T = rng.choice([2, 3, 3, 4, 5])
        scs.append((rng.choice([0, 1, 2, 3, 10]), [rng.choice([1, -1, 2, -2, 3, 7, -7, 20, 0]) for _ in range(T)]))
    bad_mon, bad_corr, nruns = None, None, 0
    for soft, ds in scs:
        text = "cfg %d %s\n" % (soft, " ".join(str(d) for d in ds))
        rc, runs, out, err = shim_run(exe, "pend", text, "rand", rng.randrange(1, 1 << 30), 10 if quick else 40)
        if not runs:
            bad_mon = (text, None, "harness died rc=%d %s" % (rc, (out + err)[-300:]))
            break
        for r in runs:
            nruns += 1
            if r["mon"] != "ok" and bad_mon is None:
                bad_mon = (text, r["sched"], r["mon"])
            if ck.extra.get("model_ok") and bad_corr is None:
                mo = drv("c16pend", "\n".join([r["cfg"]] + r["lines"] + ["check"]) + "\n")
                d = first_diff(r["lines"], mo[1:-1])
                if d is not None:
                    bad_corr = (text, r["sched"], "implementation access %r, model %r" % (r["lines"][d] if d < len(r["lines"]) else None, mo[1 + d] if 1 + d < len(mo) - 1 else None))
                elif mo[-1] != r["fin"] + " done=1":
                    bad_corr = (text, r["sched"], "final state: implementation %r, model %r" % (r["fin"], mo[-1]))
                ck.traces_validated += 1
            ck.count(1, ("pend", len(ds), soft == 0, sum(1 for l in r["lines"] if " xchg " in l)))
        if bad_mon:
            break
    if bad_mon is None:
        for soft, ds in scs[:(2 if quick else 10)]:
            text = "cfg %d %s\n" % (soft, " ".join(str(d) for d in ds[:3]))
            rc, runs, out, err = shim_run(exe, "pend", text, "dfs", 2, 400 if quick else 20000)
            summ = [l for l in out.split("\n") if l.startswith("summary")]
            if summ:
                ck.count(int(summ[0].split()[1].split("=")[1]))
            if runs and runs[-1]["mon"] != "ok":
                bad_mon = (text, runs[-1]["sched"], runs[-1]["mon"])
                break
    ck.extra["pend_random_runs"] = nruns
    ck.oblige("monitor:concurrent update(): my_total_request = sum of deltas, word back at base, dispatcher asked for min(limit,total) (all explored schedules)",
              "correspondence", bad_mon is None, "" if bad_mon is None else "%s in %r" % (bad_mon[2], bad_mon[0]))
    if ck.extra.get("model_ok"):
        ck.oblige("corr:thread_request_serializer::update trace == pending-delta model (fetch_add / exchange / total store, values)", "correspondence",
                  bad_corr is None, "" if bad_corr is None else "%s; %r schedule %s" % (bad_corr[2], bad_corr[0], ",".join(bad_corr[1] or [])[:200]))
    if bad_mon is None and bad_corr is not None:
        for soft, ds in scs[:10]:
            text = "cfg %d %s\n" % (soft, " ".join(str(d) for d in ds[:4]))
            rc, runs, out, err = shim_run(exe, "pend", text, "dfs", 3, 30000)
            if runs and runs[-1]["mon"] != "ok":
                bad_mon = (text, runs[-1]["sched"], runs[-1]["mon"])
                break
    if bad_mon is not None and bad_mon[1] is not None:
        text, sched, what = bad_mon
        ck.counterexample("pend:" + what.split("(")[0][:50].replace(" ", "-"), "threads calling update() with `%s` under schedule %s: %s" % (text.strip(), ",".join(sched), what),
                          {"engine": "E-SHIM", "mode": "pend", "stdin": text, "schedule": ",".join(sched), "violation": what})


# ---------------------------------------------------------------------------------------------------------
def run(ck):
    ck.rule = ("E-PURE: demand vectors for update_allotment = per priority level 0-6 (sometimes 10-40) clients with max_workers from "
               "{0,1,2,3,...,1000, random<3000, equal values, ~40000}, min_workers 0/1, soft limit from {0,1,2,3,total,total±1,total/2,...}, "
               "8% with inconsistent market words, plus fixed boundary vectors; limit_delta / packed-word / update_request triples from boundary sets; "
               "op sequences (register/unregister/adjust_demand following the arena flag protocol and free-form/set_active_num_workers) through the real "
               "threading_control_impl; global_control create/destroy sequences (<= 8 live). E-SHIM: 2-5 threads entering/leaving arenas of 1-4 slots "
               "(0-2 reserved) and 2-5 concurrent update() calls under random and bounded-preemption (2) schedules. "
               "distinct = distinct (kind, limit class, mandatory, #levels, #clients, outcome class) tuples. "
               "Second half: E-SHIM 2-4 threads running random programs of enqueue / spawn / out_of_work / pops on one real arena of the white-box world "
               "(max_concurrency 1-3, reserved 0-2, soft limit 0-2), random + bounded-preemption schedules, every access to the two atomic_flag words replayed; "
               "E-PURE random sequences (20-300 operations, 2-4 slots) of dispatch-loop / isolate / spawn / affinity spawn / enqueue / critical / idle-flag / take "
               "operations played by one thread on a real arena of the whole instrumented runtime; E-SHIM whole runtime: 19 targeted scenario programs "
               "(isolation with plain / mailed / enqueued / critical / nested work, mandatory concurrency incl. out_of_work while a slot holds a task the idle "
               "isolated thread cannot take, worker budget L=1..3, observers with arenas created and destroyed, over-subscribed and one-thread arenas) and random "
               "programs (1-3 external threads, 1-2 arenas of 1-3 slots, L=1..4, nested tg / pfor / isolate / enqueue / critical, observers, quiescence checks) "
               "under seeded random schedules with 5 different stay probabilities; one process per run. "
               "Third part: E-PURE 'nest' puppet: random sequences (20-300 operations, 2-4 slots, up to 8 dispatchers) with REAL nested isolate_within_arena / task_arena::execute calls "
               "(address tags incl. re-use, explicit tags 101/102, 35% of the regions left by exception), waits, spawns, takes incl. resume stream, steal_or_get_critical, "
               "get_critical_task(t) (bypass / displacement), stack switches; whole-runtime programs extended with isot (throwing isolate functor), byp (bypassed task), waits after nested "
               "scopes; life-cycle traces (every access to my_references / my_num_workers_allotted / my_limit / my_is_occupied) of ~140 (quick) whole-runtime runs validated step by step")
    ck.assumptions += [
        "modelled: update_allotment (exact loop structure), arena::update_request, market adjust_demand/set_active_num_workers words, "
        "thread_request_serializer (limit_delta, packed my_pending_delta, update/drain under interleaving, proxy mandatory concurrency), "
        "global_control storage, slot occupy/release protocol incl. my_limit CAS-max",
        "int arithmetic is modelled over unbounded integers: the allotment theorems assume max_workers * assigned_per_priority + carry < 2^31 "
        "(holds while soft limit and per-arena requests are < 46340); inputs are generated inside that range",
        "allot_sum in the soft-limit-0 case assumes that some client with a mandatory request also requests workers (what advertise_new_work/out_of_work "
        "maintain sequentially); the atomic-flag protocol of the arena (my_pool_state / my_mandatory_concurrency) is not modelled here",
        "WF (market words = sums of client requests) is a hypothesis of the allotment theorems; it is checked on every state the real market reaches in the "
        "op-sequence runs (sampled), not proved for the machine",
        "per-arena num_workers_active <= allotted does NOT hold: try_join is check-then-add under a shared lock (example in Props/C16.lean, overshoot 1 observed in the "
        "validated traces); proved instead (workers_inside_bounded, slots_unique_lifecycle, references_exact): workers inside <= num_workers_active, <= num_slots - reserved, "
        "threads inside <= num_slots, at every instant of every interleaving; the budget theorem is about the allotment and about the sum handed to the thread server",
        "isolation is modelled at the level of one serialised operation per container (the atomic-access protocols of the deque, proxy, mailbox and stream are C01's). "
        "Model/C16Iso.lean (older, kept): one region level = its tag.  Model/C16Nest.lean: isolate_within_arena as a stack discipline per task dispatcher — nested at will, "
        "normal and exceptional exit (the save / capture / restore skeleton is regenerated from the source), task_arena::execute inside a region (same-arena path of "
        "nested_arena_context; the other-arena path performs the same two assignments on the other arena's slot dispatcher), resume stream (unfiltered), bypassed tasks, the "
        "critical task that displaces a stolen / bypassed / initial task (re-spawn), extra dispatchers and arbitrary stack switches (attach is unconstrained: a superset of what "
        "suspend / resume / recall do; the coroutine switch itself is C20's).  Not modelled: resume tasks pushed into the CRITICAL stream when the target runs a critical task "
        "(they carry no_isolation and are found only by loops without isolation), more than one arena",
        "isolation tags are addresses: the model takes the tag as an input of `isolate` under the environment assumption that the address of a live local is not the tag of any "
        "live region (an explicit tag may equal another live EXPLICIT tag: isolated_task_group, collaborative_call_once).  The nest puppet reports the real addresses and the "
        "model must accept them (checked on every run).  After a region has ended its tag may come again: isolation_tag_reuse_safe states what then holds; the residue (a task that "
        "outlived its region is executed by the waiter of a later region with the same address) is the known finding isolation-tag-reuse-foreign-task-in-later-region, demonstrated "
        "on a real arena with the real isolate_within_arena (own obligation) and on the uninstrumented library (harness/c16/demo_isolation_tag_reuse.cpp); the random whole-runtime "
        "programs never let a task outlive its region (every run/crit/byp/enq inside iso sits in a task_group waited for inside the region)",
        "tLive / gLive in isolation_tag_reuse_safe are ghost facts recorded at each take; that they hold for scoped programs is by construction of the programs, not a theorem; "
        "isolation_direct_wait proves gLive for a loop entered directly from the isolate functor",
        "worker life cycle (Model/C16Life.lean): my_references is modelled as its two fields (external, worker) — no carry, i.e. fewer than 2^ref_external_bits external references; "
        "a worker leaves only after an is_recall_requested() poll that answered true (is_worker_should_leave; the top-priority variant additionally needs an empty pool: a subset); "
        "the 1 ms linger loop of outermost_worker_waiter is a sequence of polls; thread_dispatcher's choice of the client and the shared lock are not modelled (any interleaving of "
        "try_join calls is allowed: a superset); arena destruction is not modelled (the validator stops at the constructor's store of a new arena object in the same memory)",
        "mandatory concurrency: one arena; has_tasks() is an oracle (its value is irrelevant to the mandatory accounting); the two critical sections of adjust_demand are atomic steps; "
        "the allotment consequence (no worker under soft limit 0 without a mandatory request) is allot_softzero_none",
        "observers: one notification pass is one step (the list is protected by a reader-writer lock); a proxy is never unlinked in the model (unlinking an unreferenced dead proxy "
        "does not change the order of the others); exits for observers deactivated while a thread is inside are not required (documented behaviour of observe(false))",
        "worker budget end-to-end (at most L-1 workers inside user bodies) and the per-arena concurrency bound are covered by sampled whole-runtime monitors plus the theorems on "
        "allotment / serializer / slots / mandatory accounting; under L=1 the monitor allows the one mandatory worker from an enqueue (or a delegated execute on a possibly full arena) "
        "until the arena's next quiescent checkpoint; the checkpoint lets the arena settle for 400 scheduling points after out_of_work() because arena::try_join is "
        "check-then-add: a worker that read a positive allotment just before the mandatory request was withdrawn still joins afterwards and may run one more task before "
        "its next recall check (seen once in 8 800 runs of one scenario before the settling phase was added; transient, corrected by recall)",
        "known finding one-thread-arena-second-external-thread: task_arena(1) has a second slot for the mandatory worker which occupy_free_slot<false> also hands to a second external "
        "thread; random scenarios avoid that shape, a dedicated scenario demonstrates it",
        "known finding emptied-proxy-keeps-arena-nonempty-finalize-hangs: an emptied task_proxy (or a hole) left in a slot's pool keeps has_tasks() true when no thread is left to "
        "scan it; the whole-runtime harness reports it (monitor STUCK, own obligation), then drops the leftovers white-box so that the run can end; a dedicated scenario demonstrates it "
        "deterministically; harness/c16/demo_finalize_hang.cpp shows the resulting tbb::finalize() hang on the uninstrumented library",
        "not modelled / no theorem: thread creation in the rml server, arena creation/destruction, TCM permit manager",
        "slots: the start index of a range scan is treated as an arbitrary choice (FastRandom / last index); memory orders are compared in the trace, the proof is over "
        "sequentially consistent interleavings (the protocol has a single word per slot and uses a seq_cst exchange)"]
    ck.trusted += ["harness/c16/wb.cpp (white-box construction of market/serializer/threading_control_impl without threads; fake rml server; "
                   "arena words my_max_num_workers set directly)", "harness/shim (E-SHIM runtime)", "checks/c16.py + checks/c16b.py monitors, line formats and the regex / expression translator of the E-GEN conditions",
                   "harness/c16/rt.cpp (whole-runtime scenario interpreter, ghost-state monitors, puppet that plays every slot of a real arena from one thread; "
                   "isolate_within_arena's two statements and the dispatcher's `ed.isolation = isolation(*t)` after get_task are replayed by the puppet, their text is E-GEN checked)",
                   "Driver/C16.lean: composition of one receive_or_steal_task pass from model operations (c16iso, c16nest), inference of silent steps / oracles from the trace (c16mand), "
                   "choice among the enabled life-cycle steps / environment steps that reproduce a logged access, reads outside the protocol accepted when they see the model's value (c16life)",
                   "checks/c16c.py (E-GEN regexes for the isolate_within_arena skeleton etc., nest / life monitors); harness/c16/rt.cpp `nest` puppet: loops are virtual frames, a resume task is a "
                   "dummy task whose tag is set as suspend_point_type's constructor does (text E-GEN checked), extra dispatchers are constructed directly (as create_coroutine does)",
                   "correspondence is sampled (differential), not proved"]
    exe, consts = gen(ck)
    ck.extra["model_ok"] = bool(ck.lean_stage())
    if not ck.extra["model_ok"]:
        # the drivers may be stale or missing: the implementation-side monitors below still run and produce replays
        try:
            drv("c16", "ld 0 0 0\n")
            ck.extra["model_ok"] = True
        except BuildError:
            pass
    run_pure(ck, exe, consts)
    run_world(ck, exe, consts)
    run_gc(ck, exe, consts)
    run_slots(ck, exe)
    run_pend(ck, exe, consts)
    c16b.run_mand(ck, exe, sh, drv)
    rt = c16b.build_rt()
    c16b.run_iso(ck, rt, sh, drv, first_diff)
    c16c.run_nest(ck, rt, sh, drv, first_diff)
    results = c16b.run_rt(ck, rt, sh)
    c16c.run_life(ck, rt, sh, drv, results)


def replay(ck, obj):
    r = obj["replay"]
    exe = build_wb()
    rc, out, err = sh([exe, "consts"], timeout=60)
    consts = json.loads(out)
    base = consts["pendingDeltaBase"]
    mode = r["mode"]
    print("replay of %s (%s)" % (obj.get("key"), obj.get("what")))
    still = False
    if mode == "pure":
        rc, impl, err = run_lines(exe, "pure", [r["stdin"]])
        print("input : %s\noutput: %s (rc=%d)" % (r["stdin"], impl, rc))
        if rc != 0 or not impl:
            still = True
        elif r["stdin"].startswith("allot"):
            c = r["case"]
            case = (c[0], c[1], c[2], [(D, [tuple(x) for x in cs]) for D, cs in c[3]])
            m = allot_monitor(*case, parse_allot_out(impl[0])[0])
            print("monitor: %s" % (m or "ok"))
            still = m is not None
        else:
            still = impl[0] == r.get("observed")
    elif mode == "world":
        ops = r["stdin"].split("\n")
        rc, impl, err = run_lines(exe, "world", ops)
        for op, o in zip(ops, impl):
            print("%-16s -> %s" % (op, o))
            if o != "bad-op":
                m = world_monitor(parse_world(o), base, False)
                if m:
                    print("monitor: " + m)
                    still = True
        still = still or rc != 0
    elif mode == "gc":
        ops = r["stdin"].split("\n")
        rc, impl, err = run_lines(exe, "gc", ops)
        lv = {}
        for op, o in zip(ops, impl):
            print("%-16s -> %s" % (op, o))
            w = op.split()
            if o == "bad-op":
                continue
            if w[0] == "create":
                lv[int(w[1])] = int(w[2])
            elif w[0] == "destroy":
                lv.pop(int(w[1]), None)
            f = dict(kv.split("=") for kv in o.split())
            if w[0] != "reset" and (int(f["value"]) != (min(lv.values()) if lv else r["default"]) or int(f["soft"]) != int(f["value"]) - 1):
                print("monitor: active value / applied limit wrong here")
                still = True
    elif mode in ("mand", "iso", "scen", "nest", "life"):
        still = c16b.replay_part2(ck, r, sh, drv)
    else:
        rc, runs, out, err = shim_run(exe, mode, r["stdin"], "replay", r["schedule"], 1)
        print(out[-3000:])
        still = not runs or runs[-1]["mon"] != "ok"
    print("property %s on this tree" % ("STILL FAILS" if still else "holds now"))
    return 1 if still else 0
