"""Shared machinery of the oneTBB verification checks.

Every property check is  python3 checks/check.py <Cxx> --tier quick|thorough [--replay file]
(cwd /verif).  A check
  1. regenerates lean/TbbVerif/Generated/<Cxx>.lean from /repo's current working tree,
  2. builds the property's Lean modules (theorems are re-checked by the kernel) and audits them
     (no sorry/admit/axiom/native_decide/bv_decide; `#print axioms` of every property theorem),
  3. builds the C++ harnesses against /repo's current tree and runs the correspondence between the
     Lean model's executable definitions (tbbdrv) and the real code,
  4. if (2) or (3) broke, searches for a concrete failing input / schedule / history,
  5. writes evidence/<id>.json and prints VIOLATION / KNOWN-FINDING lines.
"""
import fcntl
import hashlib
import json
import os
import random
import re
import shlex
import subprocess
import sys
import time

ROOT = os.path.dirname(os.path.dirname(os.path.abspath(__file__)))
REPO = os.environ.get("VERIF_REPO", "/repo")
LEAN = os.path.join(ROOT, "lean")
BUILD = os.path.join(ROOT, "build")
EVID = os.path.join(ROOT, "evidence")
REPLAYS = os.path.join(ROOT, "replays")
KNOWN = os.path.join(ROOT, "KNOWN_FINDINGS.txt")
ALLOWED_AXIOMS = {"propext", "Classical.choice", "Quot.sound"}
NCPU = os.cpu_count() or 4

CXX = os.environ.get("CXX", "g++")
SHIM_FLAGS = ["-include", os.path.join(ROOT, "harness/shim/prelude.h"), "-I" + os.path.join(ROOT, "harness/shim"), "-pthread"]
SHIM_SRC = "harness/shim/verif_sched.cpp"
# flags that match how /repo builds libtbb (see _build/build.ninja), minus LTO
TBB_INC = ["-I" + os.path.join(REPO, "include")]
TBB_SRC_INC = ["-I" + os.path.join(REPO, "src")]
STD = ["-std=c++17"]


def log(*a):
    print("[check]", *a, file=sys.stderr, flush=True)


def sh(cmd, input=None, timeout=None, cwd=None, env=None):
    """Run a command (list), return (rc, stdout, stderr); rc = -9 on timeout."""
    try:
        p = subprocess.run(cmd, input=input, capture_output=True, text=True, timeout=timeout, cwd=cwd, env=env)
        return p.returncode, p.stdout, p.stderr
    except subprocess.TimeoutExpired as e:
        out = e.stdout.decode() if isinstance(e.stdout, bytes) else (e.stdout or "")
        err = e.stderr.decode() if isinstance(e.stderr, bytes) else (e.stderr or "")
        return -9, out, err


class BuildError(Exception):
    pass


# --------------------------------------------------------------------------------------------------
# Lean side
# --------------------------------------------------------------------------------------------------

class LeanLock:
    """Serialises `lake build` / Generated-file writes (name = ".lean.lock") or, with name=".cxx.lock", the shared C++ builds
    (instrumented runtime objects, /repo/_build): two different locks so a long Lean build does not block C++ builds."""

    def __init__(self, name=".lean.lock"):
        self.name = name

    def __enter__(self):
        os.makedirs(BUILD, exist_ok=True)
        self.f = open(os.path.join(BUILD, self.name), "w")
        fcntl.flock(self.f, fcntl.LOCK_EX)
        return self

    def __exit__(self, *a):
        fcntl.flock(self.f, fcntl.LOCK_UN)
        self.f.close()


def write_if_changed(path, text):
    os.makedirs(os.path.dirname(path), exist_ok=True)
    try:
        if open(path).read() == text:
            return False
    except FileNotFoundError:
        pass
    tmp = path + ".tmp%d" % os.getpid()
    open(tmp, "w").write(text)
    os.replace(tmp, path)
    return True


def gen_write(module, body, imports=("TbbVerif.Core.Cint",)):
    """Write lean/TbbVerif/Generated/<module>.lean (only if its content changed)."""
    text = "-- GENERATED from %s by checks/ on every run. Do not edit.\n" % REPO
    for i in imports:
        text += "import %s\n" % i
    text += "namespace TbbVerif.Generated.%s\nopen TbbVerif.Cint\n%s\nend TbbVerif.Generated.%s\n" % (module, body, module)
    with LeanLock():
        return write_if_changed(os.path.join(LEAN, "TbbVerif", "Generated", module + ".lean"), text)


def lake_build(targets, timeout=3600):
    with LeanLock():
        t0 = time.time()
        rc, out, err = sh(["lake", "build"] + list(targets), cwd=LEAN, timeout=timeout)
        return rc == 0, out + err, time.time() - t0


_ERR_RE = re.compile(r"error: (TbbVerif/[\w/]+\.lean):(\d+):(\d+): (.*)")


def lean_errors(logtext):
    """[(file, line, first message line)] from lake output."""
    return [(m.group(1), int(m.group(2)), m.group(4)) for m in _ERR_RE.finditer(logtext)]


_DECL_RE = re.compile(r"^(?:@\[[^\]]*\]\s*)?(?:private\s+|protected\s+)?(theorem|lemma|def|example|instance|abbrev|structure|inductive)\s+([\w.']+)?", re.M)


def decl_at(path, line):
    """Name of the declaration of a Lean file that contains `line`."""
    try:
        src = open(os.path.join(LEAN, path)).read().split("\n")
    except OSError:
        return "?"
    for i in range(min(line, len(src)) - 1, -1, -1):
        m = _DECL_RE.match(src[i])
        if m:
            return (m.group(2) or m.group(1))
    return "?"


def prop_theorems(pid):
    """(namespace, [theorem names]) declared in Props/<pid>.lean."""
    src = open(os.path.join(LEAN, "TbbVerif", "Props", pid + ".lean")).read()
    src_nc = strip_lean_comments(src)
    ns = re.search(r"^namespace\s+([\w.]+)", src_nc, re.M)
    names = re.findall(r"^theorem\s+([\w.']+)", src_nc, re.M)
    return (ns.group(1) if ns else ""), names


def strip_lean_comments(s):
    out = []
    i, depth, n = 0, 0, len(s)
    while i < n:
        if s.startswith("/-", i):
            depth += 1
            i += 2
        elif depth and s.startswith("-/", i):
            depth -= 1
            i += 2
        elif depth:
            if s[i] == "\n":
                out.append("\n")
            i += 1
        elif s.startswith("--", i):
            while i < n and s[i] != "\n":
                i += 1
        elif s[i] == '"':
            j = i + 1
            while j < n and s[j] != '"':
                j += 2 if s[j] == "\\" else 1
            out.append('""')
            i = j + 1
        else:
            out.append(s[i])
            i += 1
    return "".join(out)


FORBIDDEN = re.compile(r"\bsorry\b|\badmit\b|^\s*axiom\s|\bnative_decide\b|\bbv_decide\b|implemented_by|\bunsafe\s|maxHeartbeats\s+0\b|\bextern\b", re.M)


def lean_files_of(pid):
    """Lean sources whose content the property's theorems depend on (by import closure)."""
    seen, todo = set(), ["TbbVerif.Props." + pid]
    while todo:
        m = todo.pop()
        if m in seen or not m.startswith("TbbVerif"):
            continue
        p = os.path.join(LEAN, *m.split(".")) + ".lean"
        if not os.path.exists(p):
            continue
        seen.add(m)
        for im in re.findall(r"^import\s+([\w.]+)", open(p).read(), re.M):
            todo.append(im)
    return sorted(seen)


def lean_audit(pid):
    """grep audit + #print axioms of every theorem in Props/<pid>.lean.
    Returns (list of (theorem, ok, detail), list of grep hits)."""
    hits = []
    mods = lean_files_of(pid)
    for m in mods:
        p = os.path.join(LEAN, *m.split(".")) + ".lean"
        txt = strip_lean_comments(open(p).read())
        for mm in FORBIDDEN.finditer(txt):
            line = txt.count("\n", 0, mm.start()) + 1
            hits.append("%s:%d: %s" % (os.path.relpath(p, LEAN), line, mm.group(0).strip()))
    ns, names = prop_theorems(pid)
    os.makedirs(os.path.join(BUILD, pid), exist_ok=True)
    f = os.path.join(BUILD, pid, "Audit.lean")
    body = "import TbbVerif.Props.%s\n" % pid + "".join("#print axioms %s.%s\n" % (ns, n) for n in names)
    open(f, "w").write(body)
    rc, out, err = sh(["lake", "env", "lean", f], cwd=LEAN, timeout=900)
    res = []
    text = out + err
    for n in names:
        full = "%s.%s" % (ns, n)
        m = re.search(r"'%s' depends on axioms: \[([^\]]*)\]" % re.escape(full), text, re.S)
        if m:
            ax = {a.strip() for a in m.group(1).replace("\n", " ").split(",") if a.strip()}
            bad = ax - ALLOWED_AXIOMS
            res.append((n, not bad, "axioms: " + ", ".join(sorted(ax)) if not bad else "FORBIDDEN axioms: " + ", ".join(sorted(bad))))
        elif re.search(r"'%s' does not depend on any axioms" % re.escape(full), text):
            res.append((n, True, "axioms: none"))
        else:
            res.append((n, False, "no #print axioms output (rc=%d): %s" % (rc, text[-300:])))
    return res, hits, mods


# --------------------------------------------------------------------------------------------------
# C++ side
# --------------------------------------------------------------------------------------------------

def _sha(path):
    h = hashlib.sha1()
    try:
        with open(path, "rb") as f:
            while True:
                b = f.read(1 << 20)
                if not b:
                    break
                h.update(b)
    except OSError:
        return "missing"
    return h.hexdigest()


def _parse_depfile(p):
    try:
        txt = open(p).read()
    except OSError:
        return []
    txt = txt.replace("\\\n", " ")
    deps = []
    for line in txt.split("\n"):
        if ":" in line:
            deps += line.split(":", 1)[1].split()
    return sorted(set(deps))


def _cxx_object(outdir, src, flags, timeout):
    """Compile one translation unit; re-use the object iff command and all dependencies are unchanged."""
    if os.path.basename(src) == "verif_sched.cpp":
        # the E-SHIM runtime itself is never compiled with the atomic-renaming prelude or sanitizers
        nf, skip = [], False
        for f in flags:
            if skip:
                skip = False
            elif f == "-include":
                skip = True
            elif not f.startswith("-fsanitize") and not f.startswith("-fno-sanitize"):
                nf.append(f)
        flags = nf
    tag = hashlib.sha1((src + " " + " ".join(flags)).encode()).hexdigest()[:12]
    obj = os.path.join(outdir, os.path.basename(src) + "." + tag + ".o")
    cmd = [CXX] + STD + list(flags) + TBB_INC + ["-c", src, "-o", obj, "-MD", "-MF", obj + ".d"]
    stamp = obj + ".stamp.json"
    try:
        st = json.load(open(stamp))
        if st["cmd"] == cmd and os.path.exists(obj) and all(_sha(d) == h for d, h in st["deps"].items()):
            return obj, False
    except (OSError, ValueError, KeyError):
        pass
    rc, o, e = sh(cmd, timeout=timeout)
    if rc != 0:
        raise BuildError("compile of %s failed (rc=%d):\n%s" % (src, rc, (o + e)[-4000:]))
    deps = {d: _sha(d) for d in _parse_depfile(obj + ".d") if not d.startswith("/usr/")}
    deps[src] = _sha(src)
    json.dump({"cmd": cmd, "deps": deps}, open(stamp, "w"))
    return obj, True


def cxx_build(pid, name, sources, flags=(), libs=(), timeout=1800):
    """Compile+link `sources` (paths relative to /verif or absolute) into build/<pid>/<name>.
    Each translation unit is rebuilt iff its command or the content of any file it depended on
    (headers/sources of /repo included, from its -MD depfile) changed.  Raises BuildError."""
    from concurrent.futures import ThreadPoolExecutor
    outdir = os.path.join(BUILD, pid)
    os.makedirs(outdir, exist_ok=True)
    out = os.path.join(outdir, name)
    srcs = [s if os.path.isabs(s) else os.path.join(ROOT, s) for s in sources]
    t0 = time.time()
    with ThreadPoolExecutor(max_workers=min(NCPU, max(1, len(srcs)))) as ex:
        res = list(ex.map(lambda s: _cxx_object(outdir, s, list(flags), timeout), srcs))
    objs = [o for o, _ in res]
    link_flags = [f for f in flags if f.startswith("-fsanitize") or f in ("-pthread", "-g", "-flto")]
    cmd = [CXX] + link_flags + objs + ["-o", out] + list(libs)
    stamp = out + ".link.json"
    # objects / archives passed through `libs` (e.g. the instrumented runtime) are link inputs too
    libhash = {l: _sha(l) for l in libs if isinstance(l, str) and not l.startswith("-") and os.path.isfile(l)}
    try:
        st = json.load(open(stamp))
        fresh = st["cmd"] == cmd and os.path.exists(out) and not any(ch for _, ch in res) and st.get("libhash") == libhash
    except (OSError, ValueError, KeyError):
        fresh = False
    if not fresh:
        rc, o, e = sh(cmd, timeout=timeout)
        if rc != 0:
            raise BuildError("link of %s failed (rc=%d):\n%s" % (name, rc, (o + e)[-4000:]))
        json.dump({"cmd": cmd, "libhash": libhash}, open(stamp, "w"))
        log("built %s/%s in %.1fs" % (pid, name, time.time() - t0))
    return out


RT_FLAGS = ["-O1", "-g", "-DNDEBUG", "-D__TBB_BUILD", "-fPIC", "-D__TBB_GNU_ASM_VERSION=2040", "-mrtm", "-mwaitpkg", "-fwrapv",
            "-fno-strict-overflow"]


def shim_runtime_objects(extra_flags=(), timeout=1800):
    """The whole of /repo/src/tbb/*.cpp compiled with the E-SHIM prelude (every atomic access, fence, pause, yield,
    futex call, std::mutex, pthread_create/join, steady_clock and RDTSC of libtbb becomes controlled), as a list of
    object files to pass in `libs` of cxx_build (add "-ldl").  Objects are cached per translation unit by content
    hash of all dependencies, so an edit anywhere in /repo/src/tbb or /repo/include is picked up."""
    from concurrent.futures import ThreadPoolExecutor
    outdir = os.path.join(BUILD, "shimrt")
    os.makedirs(outdir, exist_ok=True)
    srcdir = os.path.join(REPO, "src", "tbb")
    srcs = sorted(os.path.join(srcdir, f) for f in os.listdir(srcdir) if f.endswith(".cpp"))
    flags = RT_FLAGS + list(extra_flags) + SHIM_FLAGS
    with LeanLock(".cxx.lock"):   # one builder at a time (the objects are shared by several properties)
        with ThreadPoolExecutor(max_workers=NCPU) as ex:
            res = list(ex.map(lambda s_: _cxx_object(outdir, s_, flags, timeout), srcs))
    return [o for o, _ in res]


def find_tbb_lib():
    """Directory of the built libtbb of $VERIF_REPO (rebuilt from the current tree by ensure_repo_built); when a scratch
    tree given through VERIF_REPO has no _build (header-only experiments) the library of /repo is used."""
    for root in (REPO, "/repo"):
        b = os.path.join(root, "_build")
        for d in sorted(os.listdir(b)) if os.path.isdir(b) else []:
            if os.path.exists(os.path.join(b, d, "libtbb.so")):
                return os.path.join(b, d)
    return None


def ensure_repo_built(targets=("tbb", "tbbmalloc"), timeout=3600):
    """Bring /repo/_build's libraries up to date with the working tree (ninja is incremental)."""
    b = os.path.join(REPO, "_build")
    if not os.path.isdir(b):
        return find_tbb_lib()
    with LeanLock(".cxx.lock"):
        rc, o, e = sh(["cmake", "--build", b, "--target"] + list(targets) + ["-j", str(NCPU)], timeout=timeout)
    if rc != 0:
        raise BuildError("cmake --build of /repo failed:\n" + (o + e)[-4000:])
    return find_tbb_lib()


def drv(model, text, timeout=600):
    """Feed `text` (lines) to the Lean model driver `model` (e.g. "c11" or "c11st": the executable is
    drv_<first three characters>, the model name selects the driver inside it); returns output lines."""
    exe = os.path.join(LEAN, ".lake", "build", "bin", "drv_" + model[:3])
    rc, out, err = sh([exe, model], input=text, timeout=timeout)
    if rc != 0:
        raise BuildError("%s %s failed rc=%d: %s" % (exe, model, rc, err[-1000:]))
    return out.split("\n")[:-1] if out.endswith("\n") else out.split("\n")


def first_diff(a, b):
    """index of the first differing line of two lists (None if equal)."""
    for i in range(min(len(a), len(b))):
        if a[i] != b[i]:
            return i
    if len(a) != len(b):
        return min(len(a), len(b))
    return None


# --------------------------------------------------------------------------------------------------
# Check object: obligations, coverage, findings, evidence, exit status
# --------------------------------------------------------------------------------------------------

def known_findings():
    res = []
    try:
        for line in open(KNOWN):
            line = line.strip()
            m = re.match(r"finding:\s+property=(\S+)\s+key=(\S+)\s*(.*)", line)
            if m:
                res.append((m.group(1), m.group(2), m.group(3)))
    except OSError:
        pass
    return res


class Check:
    def __init__(self, pid, tier, seed):
        self.pid, self.tier, self.seed = pid, tier, seed
        self.rng = random.Random(seed * 1000003 + int(pid[1:]))
        self.t0 = time.time()
        self.obligations = []          # dicts: name kind ok detail
        self.evaluations = 0
        self.distinct = set()
        self.samples = []
        self.rule = ""
        self.assumptions = []
        self.trusted = ["Lean 4.33 kernel", "axioms propext / Classical.choice / Quot.sound only (audited with #print axioms)"]
        self.extra = {}
        self.counterexamples = []      # dicts: key, what, replay (object)
        self.traces_validated = 0
        self.checker_cmd = "cd lean && lake build TbbVerif.Props.%s drv_%s && lake env lean ../build/%s/Audit.lean" % (pid, pid.lower(), pid)

    # -- obligations ----------------------------------------------------------------------------
    def oblige(self, name, kind, ok, detail="", cex_keys=None):
        """cex_keys: keys of the counterexamples that account for this obligation's failure; if every one of them is a
        listed known finding the broken obligation is considered explained (no extra no-failing-input-found line)."""
        self.obligations.append({"name": name, "kind": kind, "ok": bool(ok), "detail": str(detail)[:2000],
                                 "cex_keys": list(cex_keys) if cex_keys else []})
        if not ok:
            log("OBLIGATION FAILED: %s [%s] %s" % (name, kind, str(detail)[:400]))
        return ok

    def broken(self):
        return [o for o in self.obligations if not o["ok"]]

    # -- coverage -------------------------------------------------------------------------------
    def count(self, n=1, distinct_key=None):
        self.evaluations += n
        if distinct_key is not None:
            self.distinct.add(distinct_key)

    def sample(self, x, cap=6):
        if len(self.samples) < cap:
            self.samples.append(x)

    # -- counterexamples ------------------------------------------------------------------------
    def counterexample(self, key, what, replay):
        """A concrete input/schedule/history on which the *property* fails on the implementation
        (or on the model instantiated with what the code now says)."""
        self.counterexamples.append({"key": key, "what": what, "replay": replay})
        log("COUNTEREXAMPLE key=%s: %s" % (key, str(what)[:400]))

    # -- the standard Lean stage ----------------------------------------------------------------
    def lean_stage(self, extra_targets=()):
        pid = self.pid
        ok, logtext, dt = lake_build(["TbbVerif.Props." + pid, "drv_" + pid.lower()] + list(extra_targets))
        self.extra["lake_build_s"] = round(dt, 1)
        ns, names = prop_theorems(pid)
        if not ok:
            errs = lean_errors(logtext)
            failed = {}
            for f, line, msg in errs:
                failed.setdefault((f, decl_at(f, line)), msg)
            for (f, d), msg in failed.items():
                self.oblige("lean:%s:%s" % (f, d), "theorem", False, msg)
            if not errs:
                self.oblige("lean:build", "theorem", False, logtext[-1500:])
            failed_names = {d for (_, d) in failed}
            for n in names:
                if n not in failed_names:
                    self.oblige("theorem:" + n, "theorem", False, "not re-checked: the property's Lean modules did not build")
            return False
        res, hits, mods = lean_audit(pid)
        for n, okk, det in res:
            self.oblige("theorem:" + n, "theorem", okk, det)
        self.oblige("audit:no-sorry-axiom-native_decide", "audit", not hits, "; ".join(hits))
        self.extra["lean_modules"] = mods
        self.extra["theorems"] = [n for n, _, _ in res]
        return all(o for _, o, _ in res) and not hits

    # -- finish ---------------------------------------------------------------------------------
    def finish(self):
        pid = self.pid
        os.makedirs(EVID, exist_ok=True)
        os.makedirs(REPLAYS, exist_ok=True)
        known = [(k, t) for (p, k, t) in known_findings() if p == pid]
        broken = self.broken()
        lines = []
        nviol = 0
        unknown_cex = []
        for c in self.counterexamples:
            hit = [t for (k, t) in known if k == c["key"]]
            if hit:
                lines.append("KNOWN-FINDING: property=%s key=%s %s" % (pid, c["key"], c["what"]))
            else:
                unknown_cex.append(c)
        for c in unknown_cex:
            h = hashlib.sha1(json.dumps(c, sort_keys=True, default=str).encode()).hexdigest()[:10]
            path = os.path.join(REPLAYS, "%s-%s.json" % (pid, h))
            json.dump({"property": pid, "key": c["key"], "what": c["what"], "replay": c["replay"],
                       "broken_obligations": broken}, open(path, "w"), indent=1, default=str)
            lines.append("VIOLATION property=%s replay=%s" % (pid, path))
            nviol += 1
        # obligations that broke and are not explained by a known finding / reported counterexample
        known_keys = {k for (k, _) in known}
        unexplained = [o for o in broken if not o.get("explained")
                       and not (o.get("cex_keys") and all(k in known_keys for k in o["cex_keys"]))]
        if unexplained and not unknown_cex:
            # every broken obligation that a known finding accounts for is marked by the plug-in
            h = hashlib.sha1(json.dumps(unexplained, sort_keys=True).encode()).hexdigest()[:10]
            path = os.path.join(REPLAYS, "%s-%s.json" % (pid, h))
            json.dump({"property": pid, "key": None,
                       "what": "proof obligation or correspondence no longer checks; the search found no failing input",
                       "broken_obligations": unexplained}, open(path, "w"), indent=1)
            lines.append("VIOLATION property=%s replay=%s no-failing-input-found" % (pid, path))
            nviol += 1
        # obligations whose failure is entirely accounted for by listed known findings are reported separately: they are
        # not claimed (the property is known not to hold at those inputs), so they are neither counted as obligations
        # nor as discharged
        explained = [o for o in broken if o not in unexplained]
        counted = [o for o in self.obligations if o not in explained]
        ev = {
            "property_id": pid, "tier": self.tier, "seed": self.seed, "level": "proof",
            "coverage": {
                "obligations": len(counted),
                "discharged": sum(1 for o in counted if o["ok"]),
                "explained_by_known_findings": [{"name": o["name"], "detail": o["detail"][:200]} for o in explained],
                "known_findings_demonstrated": [c["key"] for c in self.counterexamples if c["key"] in known_keys],
                "checker_cmd": self.checker_cmd,
                "trusted_base": self.trusted,
                "evaluations": self.evaluations,
                "distinct_nontrivial": len(self.distinct),
                "rule": self.rule,
                "samples": self.samples,
                "traces_validated_against_impl": self.traces_validated,
                "obligation_list": [{"name": o["name"], "kind": o["kind"], "ok": o["ok"], "detail": o["detail"][:300]} for o in self.obligations],
            },
            "assumptions": self.assumptions,
            "wall_s": round(time.time() - self.t0, 2),
            "violations": nviol,
        }
        ev["coverage"].update(self.extra)
        json.dump(ev, open(os.path.join(EVID, pid + ".json"), "w"), indent=1, default=str)
        for l in lines:
            print(l, flush=True)
        print("%s %s tier=%s seed=%d obligations=%d discharged=%d evaluations=%d wall=%.1fs" % (
            pid, "VIOLATED" if nviol else "ok", self.tier, self.seed, ev["coverage"]["obligations"],
            ev["coverage"]["discharged"], self.evaluations, ev["wall_s"]), flush=True)
        return 1 if nviol else 0
