"""C07, Token wrap-around (part of the C07 plug-in): the real input_buffer, white box, with low_token = high_token
initialised near SIZE_MAX (and near the sign boundary 2^63), on the op sequences of the ring differential shifted by that
offset.  (1) line by line against the word-level Lean model `Wrap.*` (driver c07bufw: every ++ / - / +1 wraps at
2^tokenBits, the assertion is `(long)(token-low_token) >= 0`); (2) implementation-side monitor, independent of the
models: translation invariance -- the outputs must equal the outputs of the unshifted sequence with every token field
shifted by the offset modulo 2^64 (same parked/run-now decisions, same slots, same wakees, same array sizes)."""
import re

from common import drv, first_diff, sh

M = 1 << 64
TRIPLE = re.compile(r"^(null|\d+):(\d+):([01])$")


def shift_ops(ops, off):
    out = []
    for op in ops:
        if op[0] == "new":
            out.append("neww %d %d" % (op[1], off))
        elif op[0] == "put":
            out.append("put %d %d %d" % (op[1], op[2], (op[3] + off) % M))
        else:
            out.append(op[0])
    return out


def unshift_line(line, off):
    """subtract off (mod 2^64) from every token field of an output line"""
    if line in ("reject", "bad-op"):
        return line
    w = line.split()
    res = []
    # positions of plain-number token fields: after '|' (or at the start for `new`): size low high; `P p info TOK`; `T TOK`
    bar = w.index("|") if "|" in w else -1
    for i, x in enumerate(w):
        m = TRIPLE.match(x)
        if m:
            res.append("%s:%d:%s" % (m.group(1), (int(m.group(2)) - off) % M, m.group(3)))
        elif x.isdigit() and ((bar >= 0 and i in (bar + 2, bar + 3)) or (bar < 0 and i in (1, 2)) or (w[0] == "P" and i == 3) or (w[0] == "T" and i == 1)):
            res.append(str((int(x) - off) % M))
        else:
            res.append(x)
    # the slot of a token is token & (array_size-1): shifting the tokens rotates the array by off mod array_size
    st = bar + 1 if bar >= 0 else 0
    if len(res) >= st + 3 and res[st].isdigit():
        size = int(res[st])
        slots = res[st + 3:]
        if size > 0 and len(slots) == size:
            rot = [None] * size
            for j, x in enumerate(slots):
                rot[(j - off) % size] = x
            res = res[:st + 3] + rot
    return " ".join(res)


def offsets(rng, init):
    base = [M - 1, M - 2, M - 3, M - init, M - init - 1, M - 2 * init + 1, (1 << 63) - 1, (1 << 63) - 2, (1 << 63), (1 << 32) - 2]
    return base + [M - rng.randrange(1, 700) for _ in range(6)] + [(1 << 63) - rng.randrange(0, 60) for _ in range(2)]


def run_wrap(ck, exe, seqs, impl, init):
    quick = ck.tier == "quick"
    n = 260 if quick else 3000
    # the fixed boundary sequences (at the end) and a spread of the generated ones
    idx = list(range(max(0, len(seqs) - 6), len(seqs))) + [i for i in range(len(seqs)) if i % max(1, len(seqs) // n) == 0]
    idx = sorted(set(idx))[: n + 6]
    start = [0]
    for _, ops in seqs:
        start.append(start[-1] + len(ops))
    offs = offsets(ck.rng, init)
    lines, owner, chosen = [], [], []
    for j, si in enumerate(idx):
        style, ops = seqs[si]
        if not ops or ops[0][0] != "new" or any(o[0] == "new" for o in ops[1:]):
            continue
        off = offs[j % len(offs)]
        chosen.append((si, off))
        for oi, l in enumerate(shift_ops(ops, off)):
            lines.append(l)
            owner.append((si, oi, off))
    if not lines:
        return
    text = "\n".join(lines) + "\n"
    rc, out, err = sh([exe], input=text, timeout=120 if quick else 1200)
    got = out.split("\n")[:-1]
    model = drv("c07bufw", text)
    d = first_diff(got, model)
    ok = d is None and rc == 0
    det = ""
    if not ok:
        if d is not None and d < len(owner):
            si, oi, off = owner[d]
            det = "sequence %d (%s) shifted by 2^64-%d, op #%d %r: implementation %r, word-level model %r" % (
                si, seqs[si][0], M - off, oi, lines[d], got[d][:300] if d < len(got) else None, model[d][:300] if d < len(model) else None)
        else:
            det = "harness rc=%d: %s" % (rc, err.strip()[-400:])
    ck.oblige("corr:input_buffer with low_token/high_token near 2^64 (and 2^63) vs the word-level model (every ++ / - wraps)", "correspondence", ok, det)
    ck.count(len(lines), ("ringwrap",))
    # translation invariance against the unshifted run of the same sequence
    bad = None
    nwrapped = 0
    for p, (si, oi, off) in enumerate(owner):
        if p >= len(got):
            bad = bad or (si, oi, off, "no output (harness died)", "")
            break
        ref = impl[start[si] + oi] if start[si] + oi < len(impl) else None
        if oi == 0:
            if off + sum(1 for o in seqs[si][1] if o[0] in ("done", "tok", "put")) >= M:
                nwrapped += 1
        u = unshift_line(got[p], off)
        if ref is not None and u != ref and bad is None:
            bad = (si, oi, off, got[p], ref)
    ck.extra["ringwrap"] = {"sequences": len(chosen), "ops": len(lines), "sequences_whose_counters_can_cross_2^64": nwrapped,
                            "offsets": sorted({"2^64-%d" % (M - o) if o > (1 << 63) + 100 else ("2^63%+d" % (o - (1 << 63)) if o > (1 << 40) else str(o)) for _, o in chosen})[:24]}
    ck.oblige("monitor:input_buffer behaves the same when its token counters start near 2^64 / 2^63 (outputs equal the unshifted run's, token fields shifted modulo 2^64)",
              "correspondence", bad is None,
              "" if bad is None else "sequence %d (%s) shifted by %d (=2^64-%d), op #%d %s: shifted run %r, unshifted run %r" % (
                  bad[0], seqs[bad[0]][0], bad[2], M - bad[2], bad[1], lines[[i for i, o in enumerate(owner) if o[0] == bad[0] and o[1] == bad[1]][0]], bad[3][:300], bad[4][:300]))
    if bad is not None or not ok:
        si, oi, off = (bad[0], bad[1], bad[2]) if bad is not None else owner[min(d if d is not None else 0, len(owner) - 1)]
        ops = seqs[si][1][:oi + 1]
        # shrink: drop ops from the front part while the shifted and the unshifted run still disagree
        def fails(cand):
            t1 = "\n".join(shift_ops(cand, off)) + "\n"
            t0 = "\n".join(("new %d" % o[1]) if o[0] == "new" else ("put %d %d %d" % o[1:]) if o[0] == "put" else o[0] for o in cand) + "\n"
            r1, o1, _ = sh([exe], input=t1, timeout=30)
            r0, o0, _ = sh([exe], input=t0, timeout=30)
            a, b = o1.split("\n")[:-1], o0.split("\n")[:-1]
            return r1 != 0 or len(a) != len(b) or any(unshift_line(x, off) != y for x, y in zip(a, b))
        cur = list(ops)
        if fails(cur):
            i, budget = 1, 300
            while i < len(cur) and len(cur) > 2 and budget > 0:
                budget -= 1
                cand = cur[:i] + cur[i + 1:]
                if fails(cand):
                    cur = cand
                else:
                    i += 1
        ck.counterexample("ringwrap:%s:o%d" % (seqs[si][0], seqs[si][1][0][1]),
                          "input_buffer with low_token=high_token=%d (2^64-%d): %s" % (off, M - off, "; ".join(shift_ops(cur, off))[:600]),
                          {"engine": "E-PURE-WRAP", "harness": "harness/c07/pure.cpp", "stdin": "\n".join(shift_ops(cur, off)) + "\n",
                           "stdin_unshifted": "\n".join(("new %d" % o[1]) if o[0] == "new" else ("put %d %d %d" % o[1:]) if o[0] == "put" else o[0] for o in cur) + "\n",
                           "offset": off})


def replay_wrap(exe, obj):
    r = obj["replay"]
    off = r["offset"]
    r1, o1, _ = sh([exe], input=r["stdin"], timeout=60)
    r0, o0, _ = sh([exe], input=r["stdin_unshifted"], timeout=60)
    a, b = o1.split("\n")[:-1], o0.split("\n")[:-1]
    m = drv("c07bufw", r["stdin"])
    print("replay of %s: input_buffer with counters starting at %d" % (obj.get("key"), off))
    for l, x, y in zip(r["stdin"].split("\n"), a, b):
        print("  %-28s -> %s   [unshifted: %s]" % (l, x[:110], y[:80]))
    if r1 != 0 or len(a) != len(b) or any(unshift_line(x, off) != y for x, y in zip(a, b)) or first_diff(a, m) is not None:
        print("STILL FAILS: the shifted run differs from the unshifted run / the word-level model")
        return 1
    print("property holds now (translation invariant, equal to the word-level model)")
    return 0
