"""C15 extension (a): aggregator batches of the buffering nodes.  Real nodes + real aggregator, batches forced by holding
`handler_busy` (harness/c15/batch.cpp), compared after every batch with the Lean model `Batch.handleOps` (drv_c15 c15bat), plus
implementation-side monitors (conservation, FIFO / exact sequence / priority across batches, no lost forward at quiescence)."""
import os
import random

import common
from common import BuildError, cxx_build, drv, first_diff, sh

SRC = "harness/c15/batch.cpp"
KEY_SEQ_LOST = "sequencer-rejected-put-cancels-forward"
OPK = {"s": "reg_succ", "x": "rem_succ", "g": "req_item", "r": "res_item", "l": "rel_res", "c": "con_res", "p": "put_item", "f": "try_fwd_task"}
_exe = {}


def exe(libs):
    if "bat" not in _exe:
        _exe["bat"] = cxx_build("C15", "batch", [SRC], flags=["-O1", "-g", "-fno-access-control", "-pthread"], libs=libs)
    return _exe["bat"]


def run_impl(text, timeout=1800, watchdog=None):
    env = dict(os.environ)
    if watchdog:
        env["C15_WATCHDOG"] = str(watchdog)
    rc, out, err = sh([_exe["bat"]], input=text, timeout=timeout, env=env)
    lines = out.split("\n")[:-1] if out.endswith("\n") else out.split("\n")
    return rc, lines, err


# ---------------------------------------------------------------------------------------------
# script generation
# ---------------------------------------------------------------------------------------------
def gen_script(rng, kind, n=26):
    ls = ["reset %s 1" % kind]
    base = 0
    if kind != "prio" and rng.random() < 0.25:
        base = rng.choice([2 ** 32 - 3, 2 ** 32, 2 ** 32 + 5, 2 ** 31 - 2, 2 ** 40 + 1, 2 ** 16 - 1])
        ls.append("shift %d" % base)
    nxt = base          # sequencer: next sequence number not yet put (drifting window)
    v = 0
    resv_guess = False
    succs = 0
    for _ in range(n):
        x = rng.random()
        if x < 0.10:
            ls.append("verdicts " + " ".join([rng.choice("aaarp")] + [rng.choice("aarp") for _ in range(rng.randrange(0, 7))]))
            continue
        if x < 0.20:
            ls.append("drain")
            continue
        pub = x < 0.32
        k = 1 if rng.random() < 0.35 else rng.randrange(2, 6)
        ops = []
        for _ in range(k):
            y = rng.random()
            if y < 0.42:
                v += 1
                if kind in ("seq", "seqid"):
                    z = rng.random()
                    if z < 0.62:
                        tag = nxt; nxt += 1
                    elif z < 0.80:
                        tag = max(base, nxt - rng.randrange(1, 5))          # duplicate or stale
                    else:
                        tag = nxt + rng.randrange(1, 4)                      # ahead (leaves a gap for a while)
                    ops.append("p%d" % (tag * 8 + v % 8 if kind == "seq" else tag))
                elif kind == "prio":
                    ops.append("p%d" % (rng.randrange(1, 50) * 64 + v % 64))
                else:
                    ops.append("p%d" % v)
            elif y < 0.54:
                ops.append("g")
            elif y < 0.62:
                ops.append("r"); resv_guess = True
            elif y < 0.74 or succs == 0:
                ops.append("s%d" % rng.randrange(4)); succs += 1
            elif y < 0.80:
                ops.append("x%d" % rng.randrange(4))
            elif y < 0.93 and not pub:
                if "f" not in ops:
                    ops.append("f")
            else:
                ops.append("g")
        if resv_guess and rng.random() < 0.5:
            ops = [o for o in ops if o not in ("r", "l", "c")] + [rng.choice("lc")]     # last arrival = first in list order
            resv_guess = False
        if pub:
            ls.append("drain")
            ops = [o for o in ops if o != "f"] or ["g"]
        ls.append(("batchp " if pub else "batch ") + " ".join(ops))
    ls.append("drain")
    return ls


def corpus():
    c = [
        # the sequencer finding: a rejected put that arrived earlier than an accepted one withdraws the forwarding request
        ["reset seq 1", "batch s0", "drain", "batch p1 p0", "drain"],
        ["reset seq 1", "batch s0", "drain", "batchp p1 p0"],
        # reversed arrival order is observable: get arrived last, runs first
        ["reset queue 1", "batch p1 p2 g", "batch g", "batch s0 p3", "drain"],
        # a forwarder about to exit (its try_fwd_task FAILS in the same batch in which a put arrives)
        ["reset queue 1", "verdicts p", "batch s0 p5", "batch p6 f", "verdicts a", "batch s1", "drain"],
        ["reset queue 1", "verdicts r", "batch s0 p5", "batch f p6", "verdicts a", "drain", "batch s1", "drain"],
        # release re-offers; consume re-offers
        ["reset queue 1", "batch p1 p2", "batch r", "batch s0", "drain", "batch l", "drain"],
        ["reset buffer 1", "batch p1 p2", "batch r", "batch s0", "drain", "batch c", "drain"],
        ["reset prio 1", "batch p5 p9 p7", "batch r", "batch s0 p1", "drain", "batch l", "drain"],
        # sequence numbers beyond 2^32 and across the 2^32 boundary, ring growth there
        ["reset seq 1", "shift 4294967294", "batch s0", "drain"] + ["batch p%d p%d" % ((4294967294 + 2 * i + 1) * 8, (4294967294 + 2 * i) * 8 + 1) for i in range(5)] + ["drain"],
        ["reset seqid 1", "shift 1099511627776", "batch p1099511627781 p1099511627776 p1099511627777", "batch s2", "drain", "batch p1099511627776 p1099511627775", "drain"],
        # a tag equal to my_head - 1 and far below are rejected
        ["reset seq 1", "batch p0 p8 s0", "drain", "batch p9 p1 p16", "drain"],
    ]
    return c


def exhaustive(kind):
    """every ordered pair / some triples of op kinds as one batch, from three start states"""
    res = []
    starts = {"empty": [], "items": ["batch p%d p%d" % ((8, 0) if kind in ("seq",) else (1, 0) if kind == "seqid" else (11, 12))],
              "resv": ["batch p%d p%d" % ((8, 0) if kind == "seq" else (1, 0) if kind == "seqid" else (11, 12)), "batch r"]}
    pv = {"seq": ["p16", "p1"], "seqid": ["p2", "p0"]}.get(kind, ["p21", "p22"])
    alpha = ["s0", "x0", "g", "r", "l", "c", "f"] + pv
    for sname, pre in starts.items():
        for succ in (False, True):
            for vd in ("a", "r", "p"):
                for a in alpha:
                    for b in alpha:
                        if a == b and a[0] in "lcfp":
                            continue
                        s = ["reset %s 1" % kind, "verdicts " + vd] + pre
                        if succ:
                            s += ["verdicts r", "batch s1", "verdicts " + vd]     # a live... forwarder may be held after this
                        s += ["batch %s %s" % (a, b), "drain"]
                        res.append(s)
    return res


# ---------------------------------------------------------------------------------------------
# implementation-side monitor (independent of the Lean model)
# ---------------------------------------------------------------------------------------------
def parse_line(o):
    """'res ; offers ; T? ; resv busy live | succs | dump...' -> dict"""
    p = [x.strip() for x in o.split(" ; ")]
    if len(p) != 4:
        return None
    st = p[3].split(" | ")
    flags = st[0].split()
    offers = [] if p[1] == "-" else [tuple(x[1:].split(":")) for x in p[1].split()]
    return {"res": [] if p[0] == "-" else p[0].split(","), "offers": [(int(r), int(v), vd) for r, v, vd in offers], "T": p[2],
            "reserved": flags[0] == "1", "busy": flags[1] == "1", "live": int(flags[2]),
            "succs": [] if st[1] == "-" else [int(x) for x in st[1].split(",")], "dump": st[2:]}


def buffered(kind, dump):
    """items in the buffer, in buffer order (holes skipped); reserved one included for the ring kinds"""
    if kind == "prio":
        d = dump[1]
        return [] if d == "-" else [int(x) for x in d.split(",") if x != "_"]
    v = dump[1]
    return [] if v == "-" else [int(x.rstrip("*")) for x in v.split(",") if x != "_"]


def front_valid(kind, dump):
    if kind == "prio":
        return dump[1] != "-"
    v = dump[1]
    if v == "-":
        return False
    xs = v.split(",")
    return (xs[-1] if kind == "buffer" else xs[0]) != "_"


def monitor(ls, out):
    kind = ls[0].split()[1]
    tagof = (lambda v: v // 8) if kind == "seq" else (lambda v: v)
    pend = {}           # accepted, still inside: item -> index of the line that accepted it
    left = []           # items handed out (get / consumed reservation / accepted offer), in line order
    resv = None         # item currently reserved
    nxt = 0             # sequencer: next number to be handed out
    last_trigger = -1
    rej_since = {}      # successor -> line of its latest rejecting ('r') answer
    for i, (l, o) in enumerate(zip(ls, out)):
        if i == 0 or o in ("ok", "bad-op"):
            continue
        w = l.split()
        if w[0] == "shift":
            nxt = int(w[1])
            continue
        d = parse_line(o)
        if d is None:
            return "unparsable harness output %r" % o
        ops = w[1:] if w[0] in ("batch", "batchp") else []
        out_now = []
        consumed = []
        new_resv = None
        resv0 = resv        # reserved (not buffered) when the batch starts
        for op, r in zip(ops, d["res"]):
            if op[0] == "p":
                v = int(op[1:])
                if r == "S":
                    if v in pend or v in left:
                        return "line %d: item %d accepted twice" % (i, v)
                    if kind in ("seq", "seqid") and tagof(v) < nxt:
                        return "line %d: sequencer accepted item %d whose number %d was already emitted (next is %d)" % (i, v, tagof(v), nxt)
                    pend[v] = i
                    last_trigger = i
            elif op == "g" and r not in ("S", "F"):
                out_now.append(int(r))
            elif op == "r" and r not in ("S", "F"):
                new_resv = int(r)
            elif op == "l":
                resv = None; last_trigger = i
            elif op == "c":
                if resv is not None:
                    out_now.append(resv); consumed.append(resv)
                resv = None; last_trigger = i
            elif op[0] == "s":
                last_trigger = i
        if new_resv is not None:
            resv = new_resv
        for r, v, vd in d["offers"]:
            if vd == "a":
                out_now.append(v)
            elif vd == "r":
                rej_since[r] = i
        for v in out_now + ([new_resv] if new_resv is not None else []):
            if v not in pend:
                return "line %d: item %d handed out but it is not in the node (never accepted, or handed out before)" % (i, v)
        if len(set(out_now)) != len(out_now):
            return "line %d: an item handed out twice: %s" % (i, out_now)
        taken = out_now + ([new_resv] if new_resv is not None else [])
        stay = {v: j for v, j in pend.items() if v not in taken}
        if kind == "queue":
            for y in taken:
                older = [x for x, j in stay.items() if j < pend[y]]
                if older:
                    return "line %d: queue_node handed out %d (accepted in line %d) while %d, accepted in an earlier batch, stays" % (i, y, pend[y], older[0])
        if kind in ("seq", "seqid"):
            tags = sorted(tagof(v) for v in out_now)
            if tags != list(range(nxt, nxt + len(tags))):
                return "line %d: sequencer_node handed out numbers %s, expected the run from %d" % (i, tags, nxt)
            nxt += len(tags)
        if kind == "prio":
            for y in [t for t in taken if t not in consumed]:
                big = [x for x, j in stay.items() if j < i and x > y and x != resv and x != resv0]
                if big:
                    return ("line %d: priority_queue_node handed out %d although %d was buffered before this batch and stays buffered" % (i, y, big[0]))
        for v in out_now:
            left.append(v); del pend[v]
        have = sorted(buffered(kind, d["dump"]))
        want = sorted(v for v in pend if not (kind == "prio" and v == resv))
        if have != want:
            return "line %d: items lost or duplicated: accepted and not handed out %s, buffer holds %s" % (i, want, have)
        quiescent = w[0] in ("drain", "batchp")
        if quiescent:
            if d["busy"] or d["live"]:
                return "line %d: forwarder_busy / a live forwarder after the forwarder finished" % i
            if not d["reserved"] and front_valid(kind, d["dump"]) and d["succs"]:
                silent = [r for r in d["succs"] if rej_since.get(r, -1) < last_trigger]
                if silent:
                    return ("line %d: LOST FORWARD: the node is idle (no forwarder), holds a forwardable item, successor(s) %s are registered in push mode and "
                            "have not refused anything since the last request for forwarding (line %d)" % (i, silent, last_trigger))
    return None


# ---------------------------------------------------------------------------------------------
def run_scripts(scripts):
    lines = [l for s in scripts for l in s]
    text = "\n".join(lines) + "\n"
    rc, impl, err = run_impl(text, watchdog=60)
    if rc != 0 or len(impl) != len(lines):
        hung = None
        if impl and impl[-1].startswith("HANG"):
            k = len(impl) - 1       # number of completed lines; line k (0-based) never completed
            pos = 0
            for s in scripts:
                if pos <= k < pos + len(s) + 1:
                    hung = s[:max(2, k - pos + 1)]
                    break
                pos += len(s)
        return None, ("harness rc=%d, %d output lines for %d input lines: %s" % (rc, len(impl), len(lines), (impl[-1:] + [err[-300:]])), hung)
    mod = drv("c15bat", text)
    res, pos = [], 0
    for s in scripts:
        io, mo = impl[pos:pos + len(s)], mod[pos:pos + len(s)]
        pos += len(s)
        res.append((s, io, mo, first_diff(io, mo), monitor(s, io)))
    return res, (None, None)


def mon_fails(script):
    rc, o, _ = run_impl("\n".join(script) + "\n", timeout=120, watchdog=15)
    if rc != 0 or len(o) != len(script):
        return True
    return monitor(script, o) is not None


def shrink(script):
    cur = list(script)
    changed = True
    while changed:
        changed = False
        for i in range(len(cur) - 1, 0, -1):
            cand = cur[:i] + cur[i + 1:]
            if len(cand) > 1 and mon_fails(cand):
                cur = cand; changed = True
        for i in range(1, len(cur)):
            w = cur[i].split()
            if w[0] in ("batch", "batchp", "verdicts") and len(w) > 2:
                for j in range(len(w) - 1, 0, -1):
                    cand = cur[:i] + [" ".join(w[:j] + w[j + 1:])] + cur[i + 1:]
                    if len(w) > 2 and mon_fails(cand):
                        cur = cand; w = cur[i].split(); changed = True
                        if len(w) <= 2:
                            break
    return cur


def safe_drv(script):
    try:
        return drv("c15bat", "\n".join(script) + "\n", timeout=120)
    except Exception as e:        # noqa: a model that cannot follow is not the point of a replay file
        return ["model driver failed: %s" % str(e)[:200]]


def classify(script, problem):
    kind = script[0].split()[1]
    if kind in ("seq", "seqid") and "LOST FORWARD" in problem:
        # the known shape: the batch that made the last request for forwarding also contains a put that the sequencer REJECTED
        # (case put_item assigns try_forwarding = internal_push(tmp), withdrawing the request of an earlier-handled operation)
        import re
        m = re.search(r"last request for forwarding \(line (\d+)\)", problem)
        rc, o, _ = run_impl("\n".join(script) + "\n", timeout=120, watchdog=15)
        if m and rc == 0 and int(m.group(1)) < len(o):
            k = int(m.group(1))
            w = script[k].split()
            if w[0] in ("batch", "batchp") and " ; " in o[k]:
                res = o[k].split(" ; ")[0].split(",")
                if any(op[0] == "p" and r == "F" for op, r in zip(w[1:], res)):
                    return KEY_SEQ_LOST
    ops = "_".join(l.replace(" ", "") for l in script[1:])[:60]
    return "c15bat:%s:%s" % (kind, ops)


def report(ck, script, problem, hang=False):
    small = list(script) if hang else shrink(script)
    rc, o, _ = run_impl("\n".join(small) + "\n", timeout=120, watchdog=15)
    prob2 = (monitor(small, o) if rc == 0 and len(o) == len(small) else None) or problem
    key = classify(small, prob2)
    if any(c["key"] == key for c in ck.counterexamples):
        return key
    ck.counterexample(key, "%s — real node, real aggregator, script %s" % (prob2, " / ".join(small)),
                      {"engine": "E-REAL(forced aggregator batches, scripted successors)", "harness": SRC, "model": "c15bat", "script": small,
                       "observed": o, "monitor": prob2, "model_prediction": safe_drv(small)})
    return key


def distribution(results):
    dist = {"ops_in_single_batches": {}, "ops_in_multi_batches": {}, "ops_public_api": {}, "batch_sizes": {}, "verdicts": {"a": 0, "r": 0, "p": 0},
            "forward_attempt_patterns": {}, "results": {}, "kinds": {}}
    for s, io, *_ in results:
        kind = s[0].split()[1]
        for l, o in zip(s[1:], io[1:]):
            w = l.split()
            if o in ("ok", "bad-op") or " ; " not in o:
                if o == "bad-op":
                    dist["results"]["bad-op"] = dist["results"].get("bad-op", 0) + 1
                continue
            d = parse_line(o)
            if d is None:
                continue
            if w[0] in ("batch", "batchp"):
                dist["kinds"][kind] = dist["kinds"].get(kind, 0) + 1
                n = len(w) - 1
                dist["batch_sizes"][n] = dist["batch_sizes"].get(n, 0) + 1
                tgt = dist["ops_public_api"] if w[0] == "batchp" else dist["ops_in_single_batches"] if n == 1 else dist["ops_in_multi_batches"]
                for op, r in zip(w[1:], d["res"]):
                    nm = OPK[op[0]]
                    tgt[nm] = tgt.get(nm, 0) + 1
                    cls = "%s:%s" % (nm, r if r in ("S", "F") else "item")
                    dist["results"][cls] = dist["results"].get(cls, 0) + 1
            pat = "".join(vd for _, _, vd in d["offers"])
            for vd in pat:
                dist["verdicts"][vd] += 1
            if pat:
                p = pat if len(pat) <= 4 else pat[:4] + "+"
                dist["forward_attempt_patterns"][p] = dist["forward_attempt_patterns"].get(p, 0) + 1
    pats = sorted(dist["forward_attempt_patterns"].items(), key=lambda kv: -kv[1])
    dist["forward_attempt_patterns"] = dict(pats[:24])
    dist["forward_attempt_patterns_distinct"] = len(pats)
    return dist


def stage(ck, libs):
    exe(libs)
    quick = ck.tier == "quick"
    rng = random.Random(ck.seed * 104729 + 151)
    kinds = ["queue", "buffer", "seq", "prio"]
    nrand = 60 if quick else 900
    scripts = corpus()
    for k in kinds:
        scripts += [gen_script(rng, k) for _ in range(nrand)]
    scripts += [gen_script(rng, "seqid", 14) for _ in range(nrand // 4)]
    ex = []
    for k in kinds:
        e = exhaustive(k)
        ex += e if not quick else rng.sample(e, min(len(e), 160))
    scripts += ex
    res, (err, hung) = run_scripts(scripts)
    label = "aggregator batches of buffer/queue/sequencer/priority_queue nodes"
    if res is None:
        ck.oblige("corr:%s" % label, "correspondence", False, err)
        if hung:
            return {report(ck, hung, "the real node never completes the last line (watchdog): a created forwarding task was never spawned / "
                                     "wait_for_all() does not return", hang=True)}
        return set()
    nops = sum(len(l.split()) - 1 for s in scripts for l in s if l.startswith("batch"))
    ck.count(nops)
    for s, io, *_ in res:
        for l, o in zip(s[1:], io[1:]):
            ck.distinct.add(("c15bat", s[0].split()[1], l.split()[0], tuple(sorted({x[0] for x in l.split()[1:]}))[:6] if l.startswith("batch") else (), o.split(" ;")[0][:6]))
    ck.traces_validated += len(scripts)
    dist = distribution(res)
    ck.extra["batch_distribution"] = dist
    ck.extra.setdefault("scripts", {})[label] = {"scripts": len(scripts), "batch_ops": nops}
    s0 = res[len(corpus()) + 3]
    ck.sample({"model": "c15bat", "script": s0[0][:10], "impl": s0[1][:10], "lean_model": s0[2][:10]}, cap=14)
    bad_corr = [(s, io, mo, d) for (s, io, mo, d, mon) in res if d is not None]
    bad_mon = [(s, io, mon) for (s, io, mo, d, mon) in res if mon is not None]
    det = ""
    if bad_corr:
        s, io, mo, d = bad_corr[0]
        det = "script %s: line %d %r: implementation %r, model %r" % (" / ".join(s[:d + 1]), d, s[d], io[d] if d < len(io) else None, mo[d] if d < len(mo) else None)
    ck.oblige("corr:%s (real nodes + real aggregator, batches forced by holding handler_busy, vs Lean Batch.handleOps: per-op results, offers, "
              "white-box state after every batch)" % label, "correspondence", not bad_corr, det)
    allk = set(OPK.values())
    cov_ok = (set(dist["ops_in_multi_batches"]) == allk and set(dist["ops_public_api"]) == allk - {"try_fwd_task"} and all(dist["verdicts"][v] > 0 for v in "arp"))
    ck.oblige("coverage:every op kind occurred inside multi-operation batches (and through the public API), every verdict kind was given",
              "correspondence", cov_ok, {k: dist[k] for k in ("ops_in_multi_batches", "ops_public_api", "verdicts")})
    keys = set()
    seen_cls = set()
    for s, io, mon in bad_mon:
        cls = mon.split(":", 1)[1][:40] if ":" in mon else mon[:40]
        cls = (s[0], "".join(c for c in cls if not c.isdigit()))
        if cls in seen_cls or len(keys - {KEY_SEQ_LOST}) >= 2:
            continue
        seen_cls.add(cls)
        keys.add(report(ck, s, mon))
    unknown = keys - {KEY_SEQ_LOST}
    o = ck.oblige("monitor:%s (conservation, FIFO / exact sequence / priority across batches, no lost forward at quiescence)" % label,
                  "correspondence", not bad_mon, "" if not bad_mon else "%s on script %s" % (bad_mon[0][2], " / ".join(bad_mon[0][0])))
    if bad_mon and not unknown:
        for ob in ck.obligations:
            if not ob["ok"] and ob["name"].startswith("monitor:" + label):
                ob["explained"] = True
    if bad_corr and not bad_mon:
        found = search(ck, rng, kinds)
        if found:
            keys.add(found)
    return keys


def search(ck, rng, kinds):
    """the model no longer describes the code: look for an input on which the PROPERTY fails (monitors only)"""
    cands = []
    for k in kinds:
        cands += exhaustive(k)
        cands += [gen_script(rng, k, 30) for _ in range(400)]
    ck.extra.setdefault("search", {})["c15bat"] = len(cands)
    for i in range(0, len(cands), 300):
        chunk = cands[i:i + 300]
        lines = [l for s in chunk for l in s]
        rc, impl, err = run_impl("\n".join(lines) + "\n")
        if rc != 0 or len(impl) != len(lines):
            # find the script that kills / hangs the harness
            for s in chunk:
                if mon_fails(s):
                    return report(ck, s, "the harness does not complete the script (crash or hang of the real node)", hang=True)
            continue
        pos = 0
        for s in chunk:
            io = impl[pos:pos + len(s)]; pos += len(s)
            mon = monitor(s, io)
            if mon is not None and classify(s, mon) != KEY_SEQ_LOST:
                return report(ck, s, mon)
    return None


def replay(ck, r, libs):
    exe(libs)
    script = r["script"]
    rc, o, err = run_impl("\n".join(script) + "\n", timeout=300)
    print("replay on %s (c15bat, real nodes + real aggregator)" % common.REPO)
    for l, x in zip(script, o):
        print("  %-28s -> %s" % (l, x))
    if rc != 0 or len(o) != len(script):
        print("harness failed rc=%d %s\nSTILL FAILS" % (rc, err[-300:]))
        return 1
    mon = monitor(script, o)
    if mon is None:
        print("property monitor: no violation -> property holds now on this input")
        return 0
    print("property monitor: %s\nSTILL FAILS" % mon)
    return 1
