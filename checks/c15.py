"""C15 — flow-graph buffering, ordering, joining and limiting nodes keep their contracts (DESIGN.md §3 C15).

Layers:  (1) Lean: ItemBuf ring + node machines (Model/C15.lean), theorems in Props/C15.lean;
(2) tie on every run against $VERIF_REPO's headers:  E-GEN constants + a behavioural probe of buffer_node's
try_get-under-reservation (Generated/C15.lean), E-PURE white-box differential on the real item_buffer,
whole REAL nodes driven single-threadedly by op scripts (harness/c15/nodes.cpp) compared line by line with the
model drivers (drv_c15 c15buf/c15prio/c15lim/c15lq/c15jq/c15jk/c15jr/c15ow/c15misc), implementation-side property
monitors on the same runs, and multi-threaded E-REAL monitor runs (harness/c15/mt.cpp);
(3) failing-input search: more seeds + short exhaustive scripts under the monitors, delta-debugging shrink, replay."""
import itertools
import os
import re

import c15bat
import c15gen
import c15jb
import common
from common import BuildError, REPO, cxx_build, drv, first_diff, gen_write, log, sh

NODES_SRC = "harness/c15/nodes.cpp"
NODE_FLAGS = ["-O1", "-g", "-fno-access-control", "-pthread"]
KEY_STEAL = "buffer_node-get-steals-reserved"


# ---------------------------------------------------------------------------------------------
# build helpers
# ---------------------------------------------------------------------------------------------
def tbb_libs():
    """libtbb of $VERIF_REPO (rebuilt incrementally); a header-only scratch worktree without _build links
    /repo's library (all of C15's code is header-only, only the runtime behind it comes from the .so)."""
    d = None
    if os.path.isdir(os.path.join(REPO, "_build")):
        d = common.ensure_repo_built(targets=("tbb",))
    if d is None:
        b = "/repo/_build"
        for x in sorted(os.listdir(b)) if os.path.isdir(b) else []:
            if os.path.exists(os.path.join(b, x, "libtbb.so")):
                d = os.path.join(b, x)
                break
    if d is None:
        raise BuildError("no built libtbb found under %s/_build or /repo/_build" % REPO)
    return ["-L" + d, "-ltbb", "-Wl,-rpath," + d], d


_exes = {}


def exe_nodes():
    if "nodes" not in _exes:
        libs, _ = tbb_libs()
        _exes["nodes"] = cxx_build("C15", "nodes", [NODES_SRC], flags=NODE_FLAGS, libs=libs)
    return _exes["nodes"]


def run_impl(model, text, noguard=False, timeout=300):
    env = dict(os.environ)
    if noguard:
        env["C15_NOGUARD"] = "1"
    rc, out, err = sh([exe_nodes(), model], input=text, timeout=timeout, env=env)
    lines = out.split("\n")[:-1] if out.endswith("\n") else out.split("\n")
    return rc, lines, err


# ---------------------------------------------------------------------------------------------
# E-GEN
# ---------------------------------------------------------------------------------------------
def probe_pop_mode():
    """How does the real buffer_node::try_get treat a reservation?  0 = hands the reserved item out,
    1 = refuses only when the reserved front is the only item, 2 = refuses whenever reserved."""
    rc, o, _ = run_impl("c15buf", "reset buffer 0\nput 7\nreserve\nget\n")
    if rc != 0 or len(o) < 4:
        raise BuildError("probe of buffer_node failed: rc=%d %r" % (rc, o))
    if o[3].split(" ;")[0].strip() == "7":
        return 0, o
    rc, o2, _ = run_impl("c15buf", "reset buffer 0\nput 7\nput 8\nreserve\nget\n")
    return (1 if o2[4].split(" ;")[0].strip() == "8" else 2), o + o2


def gen(ck):
    libs, libdir = tbb_libs()
    ck.extra["libtbb"] = libdir
    exe = cxx_build("C15", "consts", ["harness/c15/consts.cpp"], flags=["-O1", "-fno-access-control", "-pthread"], libs=libs)
    rc, out, err = sh([exe], timeout=60)
    if rc != 0:
        raise BuildError("consts harness failed: " + err[-500:])
    import json
    c = json.loads(out)
    mode, probe = probe_pop_mode()
    c["bufferPopMode"] = mode
    ck.extra["generated_constants"] = c
    body = "".join("def %s : Nat := %d\n" % (k, v) for k, v in c.items())
    gtxt, gobl, gvals = c15gen.generate(REPO)
    ck.extra["generated_skeleton"] = gvals
    gen_write("C15", body + gtxt)
    for name, ok, detail in gobl:
        ck.oblige(name, "generated", ok, detail)
    sk_ok = (gvals.get("tfRegSucc") == 1 and gvals.get("tfRelRes") == 1 and gvals.get("tfConRes") == 1 and gvals.get("tfPutItem") in (1, 3)
             and all(gvals.get(k) != 2 for k in ("tfRemSucc", "tfReqItem", "tfResItem", "tfTryFwd")))
    sk_total = (gvals.get("tfRegSucc") == 1 and gvals.get("tfRelRes") == 1 and gvals.get("tfConRes") == 1 and gvals.get("tfPutItem") in (1, 2, 3)
                and all(gvals.get(k) != 2 for k in ("tfRemSucc", "tfReqItem", "tfResItem", "tfTryFwd")))
    ck.oblige("gen:handle_operations switch keeps every forwarding request for nodes whose push cannot fail (Skel.generated.okTotalPush: hypothesis of "
              "forwarder_task_no_loss for buffer/queue/priority_queue nodes)", "generated", sk_total, gvals)
    ck.oblige("gen:handle_operations switch never withdraws a forwarding request (Skel.generated.ok: hypothesis of forwarder_task_no_loss for "
              "sequencer_node)", "generated", sk_ok, "case put_item ASSIGNS try_forwarding = internal_push(tmp): a rejected put withdraws the request of an "
              "accepted put / reg_succ / rel_res / con_res handled earlier in the same batch" if not sk_ok else gvals)
    ibs = c.get("initialBufferSize", 0)
    ck.oblige("gen:initialBufferSize is a power of two", "generated", ibs > 0 and ibs & (ibs - 1) == 0, c)
    ok = ck.oblige("gen:buffer_node try_get respects a reservation (bufferPopMode >= 1)", "generated", mode >= 1,
                   "probe put 7; try_reserve; try_get on the real buffer_node -> %s" % probe[3] if mode == 0 else "mode %d" % mode)
    return mode


# ---------------------------------------------------------------------------------------------
# script generators (every script starts with a reset line; values are distinct inside a script)
# ---------------------------------------------------------------------------------------------
def rand_modes(rng, maxn=3):
    n = rng.choice([0, 1, 1, 1, 2, 2, 3][:maxn + 4])
    return [rng.choice([0, 0, 0, 1, 2, 3]) for _ in range(n)]


def gen_ib(rng, n):
    ls = ["reset"]
    v = 1
    for _ in range(n):
        r = rng.random()
        if r < 0.40:
            ls.append("push %d" % v); v += 1
        elif r < 0.52:
            ls.append("popf")
        elif r < 0.60:
            ls.append("popb")
        elif r < 0.70:
            ls.append("resf")
        elif r < 0.76:
            ls.append("relf")
        elif r < 0.82:
            ls.append("conf")
        elif r < 0.87:
            ls.append("grow %d" % rng.choice([0, 1, 3, 5, 9, 17, 33, 40]))
        elif r < 0.93:
            ls.append("ext %d" % rng.randrange(0, 80))
        else:
            ls.append("place %d %d" % (rng.randrange(0, 80), v)); v += 1
    return ls


def gen_buf(rng, n, kind, mode):
    ms = rand_modes(rng)
    ls = ["reset %s %d %s" % (kind, mode, " ".join(map(str, ms)))]
    v = 1
    salt = 0
    for _ in range(n):
        r = rng.random()
        if r < 0.45:
            if kind == "seq":
                tag = max(0, int(rng.gauss(v // 2, 3)))
                if rng.random() < 0.1:
                    tag += rng.choice([8, 20, 40])
                salt = (salt + 1) % 8
                ls.append("put %d" % (tag * 8 + salt)); v += 1
            else:
                ls.append("put %d" % v); v += 1
        elif r < 0.60:
            ls.append("get")
        elif r < 0.70:
            ls.append("reserve")
        elif r < 0.78:
            ls.append("release")
        elif r < 0.86:
            ls.append("consume")
        elif ms:
            ls.append("mode %d %d" % (rng.randrange(len(ms)), rng.choice([0, 0, 1, 2, 3])))
        else:
            ls.append("get")
    return ls


def gen_prio(rng, n):
    ms = rand_modes(rng)
    ls = ["reset " + " ".join(map(str, ms))]
    v = 0
    for _ in range(n):
        if ms and rng.random() < 0.12:
            ls.append("mode %d %d" % (rng.randrange(len(ms)), rng.choice([0, 0, 1, 2, 3])))
            continue
        k = 1 if rng.random() < 0.6 else rng.randrange(2, 6)
        ops = []
        for _ in range(k):
            r = rng.random()
            if r < 0.5:
                v += 1
                ops.append("p%d" % (rng.randrange(1, 60) * 64 + v % 64))
            elif r < 0.7:
                ops.append("g")
            elif r < 0.8:
                ops.append("r")
            elif r < 0.9:
                ops.append("l")
            else:
                ops.append("c")
        ls.append("batch " + " ".join(ops))
    return ls


def gen_lim(rng, n, wf):
    """wf = decrements are only sent for messages that were really forwarded (positive, never more than the
    current number of forwarded-and-not-decremented messages): the class on which the ghost monitor is exact."""
    th = rng.choice([1, 1, 2, 3, 5])
    ms = rand_modes(rng)
    ls = ["reset %d %s" % (th, " ".join(map(str, ms)))]
    v = 0
    out = 0       # generator-side estimate (only used for wf scripts; successors that accept everything)
    if wf:
        ms = [0] * max(1, len(ms))
        ls = ["reset %d %s" % (th, " ".join(map(str, ms)))]
    for _ in range(n):
        r = rng.random()
        if r < 0.6:
            v += 1
            nested = []
            if rng.random() < 0.35:
                for _ in range(rng.randrange(1, 3)):
                    if wf:
                        if out > 0:
                            d = rng.randrange(1, out + 1); out -= d; nested.append(d)
                    else:
                        nested.append(rng.choice([1, 1, 2, 3, -1, -2, 0, 7]))
            if not wf and rng.random() < 0.3:
                v += 1
                ls.append("put2 %d %d %s" % (v - 1, v, " ".join(map(str, nested))))
            else:
                ls.append("put %d %s" % (v, " ".join(map(str, nested))))
            if wf:
                # admitted iff count+tries < th; with wf decrements count == out before the nested ones ...
                # the generator does not need to know: the monitor recomputes from the outputs
                pass
        elif r < 0.9:
            if wf:
                ls.append("dec @")      # placeholder resolved by wf_resolve against the implementation output
            else:
                ls.append("dec %d" % rng.choice([1, 1, 1, 2, 3, 0, -1, -2, 9]))
        elif ms and not wf:
            ls.append("mode %d %d" % (rng.randrange(len(ms)), rng.choice([0, 0, 1, 2])))
        else:
            v += 1
            ls.append("put %d" % v)
    return ls


def gen_lq(rng, n):
    th = rng.choice([1, 1, 2, 3])
    ls = ["reset %d" % th]
    v = 0
    for _ in range(n):
        if rng.random() < 0.6:
            v += 1; ls.append("put %d" % v)
        else:
            ls.append("dec @")
    return ls


def gen_join(rng, n, what):
    np_ = rng.choice([2, 2, 3])
    ms = rand_modes(rng)
    ls = ["reset %d %s" % (np_, " ".join(map(str, ms)))]
    v = 0
    for _ in range(n):
        r = rng.random()
        if r < 0.7:
            v += 1
            p = rng.randrange(np_)
            if what == "jq":
                ls.append("put %d %d" % (p, v))
            elif what == "jk":
                key = rng.randrange(1, 7)
                ls.append("put %d %d" % (p, key * 8 + (v % 8)))
            else:
                ls.append("offer %d %d" % (p, v))
        elif r < 0.85:
            ls.append("get")
        elif ms:
            ls.append("mode %d %d" % (rng.randrange(len(ms)), rng.choice([0, 0, 1, 2, 3])))
        else:
            ls.append("get")
    return ls


def gen_ow(rng, n):
    once = rng.choice([0, 1])
    ls = ["reset %d" % once]
    v = 0
    nr = 0
    for _ in range(n):
        r = rng.random()
        if r < 0.3:
            ls.append("reg %d" % rng.choice([0, 0, 0, 2, 3, 1])); nr += 1
        elif r < 0.7:
            v += 1; ls.append("put %d" % v)
        elif r < 0.8:
            ls.append("get")
        elif r < 0.88:
            ls.append("clear")
        elif nr:
            ls.append("mode %d %d" % (rng.randrange(nr), rng.choice([0, 0, 2, 3])))
        else:
            ls.append("get")
    return ls


def gen_misc(rng, n):
    ms = rand_modes(rng)
    ls = ["reset " + " ".join(map(str, ms))]
    v = 0
    for _ in range(n):
        v += 1
        r = rng.random()
        if r < 0.35:
            ls.append("bput %d" % v)
        elif r < 0.65:
            ls.append("sput %d %d %d" % (v, v + 100, v + 200))
        else:
            ls.append("iput %d %d" % (rng.randrange(3), v))
    return ls


# ---------------------------------------------------------------------------------------------
# implementation-side property monitors (independent of the Lean model): (script lines, impl output) -> problem | None
# ---------------------------------------------------------------------------------------------
def parts(line):
    return [p.strip() for p in line.split(" ; ")]


def dl_items(field):
    """'r0:5 r1:(1,2)' -> [('r0','5'), ('r1','(1,2)')]"""
    if field == "-" or not field:
        return []
    return [tuple(x.split(":", 1)) for x in field.split()]


def view_items(dump):
    """'h t n | 5*,6,_ | raw' -> [5, 6]"""
    v = dump.split(" | ")[1]
    if v == "-":
        return []
    return [int(x.rstrip("*")) for x in v.split(",") if x != "_"]


def mon_buf(ls, out):
    kind = ls[0].split()[1]
    acc, handed, resv = [], [], None
    last_dump = None
    for l, o in zip(ls[1:], out[1:]):
        w = l.split()
        if o in ("ok", "bad-op"):
            continue
        if o == "ub":
            return "the node reached a state in which an asserted precondition of item_buffer is violated (op %r)" % l
        p = parts(o)
        res, dl, dump = p[0], dl_items(p[1]), p[2].split(" | ", 1)[1]
        last_dump = dump
        if w[0] == "put" and res == "ok":
            acc.append(int(w[1]))
        elif w[0] == "get" and res != "-":
            if resv is not None and int(res) == resv:
                return "try_get handed out item %s while it is reserved" % res
            handed.append(int(res))
        elif w[0] == "reserve" and res != "-":
            resv = int(res)
        elif w[0] == "release":
            resv = None
        elif w[0] == "consume":
            handed.append(resv); resv = None
        handed += [int(v) for _, v in dl]
        if len(set(handed)) != len(handed):
            return "an item was handed out twice: %s" % handed
        if any(h not in acc for h in handed):
            return "an item that was never accepted was handed out: %s" % handed
        if kind == "queue" and handed != acc[:len(handed)]:
            return "queue_node output order %s is not the arrival order %s" % (handed, acc)
        if kind == "seq" and [h // 8 for h in handed] != list(range(len(handed))):
            return "sequencer_node handed out sequence numbers %s" % [h // 8 for h in handed]
    if last_dump is not None:
        rest = view_items(last_dump)
        if sorted(rest + handed) != sorted(acc):
            return "items lost or duplicated: accepted %s, handed out %s, still buffered %s" % (acc, handed, rest)
    return None


def mon_prio(ls, out):
    buf, resv, acc_n = [], None, 0
    last = None
    for l, o in zip(ls[1:], out[1:]):
        w = l.split()
        if w[0] != "batch" or o == "bad-op":
            continue
        p = parts(o)
        ress = p[0].split(",")
        single = len(w) == 2
        # operations of one aggregator batch are concurrent: any order of them is admissible.  Whatever the order, an item that was buffered
        # before the batch began and is not handed out by any get of this batch is present at every get's linearization point
        taken_here = [int(r) for tok, r in zip(w[1:], ress) if tok in ("g", "r") and r != "-"]
        stay = list(buf)
        for x in taken_here:
            if x in stay:
                stay.remove(x)
        for tok, r in zip(w[1:], ress):
            if tok[0] == "p":
                buf.append(int(tok[1:]))
            elif tok in ("g", "r") and r != "-":
                x = int(r)
                if x not in buf:
                    return "priority_queue_node handed out %d which is not buffered (%s)" % (x, sorted(buf))
                if single and x != max(buf):
                    return "priority_queue_node handed out %d while %d is buffered" % (x, max(buf))
                if stay and x < max(stay):
                    return ("priority_queue_node handed out %d although %d was buffered before this batch of concurrent operations began and stays "
                            "buffered (no order of the batch `%s` makes %d a highest-priority item)" % (x, max(stay), " ".join(w[1:]), x))
                buf.remove(x)
                if tok == "r":
                    resv = x
            elif tok == "l" and resv is not None:
                buf.append(resv); resv = None
            elif tok == "c":
                resv = None
        for _, v in dl_items(p[1]):
            x = int(v)
            if x not in buf:
                return "priority_queue_node forwarded %d which is not buffered" % x
            if x != max(buf):
                return "priority_queue_node forwarded %d while %d is buffered" % (x, max(buf))
            buf.remove(x)
        last = p[2]
    if last is not None:
        data = last.split(" | ")[2]
        toks = [] if data == "-" else data.split(",")
        if any(not x.lstrip("-").isdigit() for x in toks):
            return "priority_queue_node's occupied range contains a slot that holds no item (dump %s): expected buffer %s" % (data, sorted(buf))
        rest = [int(x) for x in toks]
        if sorted(rest) != sorted(buf):
            return "priority_queue_node lost or duplicated items: expected buffer %s, found %s" % (sorted(buf), sorted(rest))
    return None


def mon_lim(ls, out):
    """ghost counter of forwarded-and-not-yet-decremented messages; exact on wf scripts (see gen_lim)"""
    th = int(ls[0].split()[1])
    outst = 0
    for l, o in zip(ls[1:], out[1:]):
        w = l.split()
        if o in ("ok", "bad-op"):
            continue
        p = parts(o)
        if w[0] == "put":
            for d in w[2:]:
                outst -= int(d)
            if p[0] == "1":
                outst += 1
        elif w[0] == "put2":
            for d in w[3:]:
                outst -= int(d)
            outst += p[0].count("1")
        elif w[0] == "dec":
            outst -= int(w[1])
        if outst > th:
            return "limiter_node: %d messages forwarded and not yet decremented, threshold %d" % (outst, th)
    return None


def mon_lq(ls, out):
    th = int(ls[0].split()[1])
    outst, sent, got = 0, [], []
    for l, o in zip(ls[1:], out[1:]):
        w = l.split()
        if o in ("ok", "bad-op"):
            continue
        p = parts(o)
        if w[0] == "put":
            sent.append(int(w[1]))
        elif w[0] == "dec":
            outst -= int(w[1])
        d = [int(v) for _, v in dl_items(p[1])]
        got += d
        outst += len(d)
        if outst > th:
            return "limiter_node (fed by a queue_node): %d messages forwarded and not yet decremented, threshold %d" % (outst, th)
        if got != sent[:len(got)]:
            return "queue_node -> limiter_node: sink order %s is not the arrival order %s" % (got, sent)
    return None


def tuple_vals(s):
    return [int(x) for x in s.strip("()").split(",")]


def emitted_tuples(p, res_is_tuple):
    ts = []
    if res_is_tuple and p[0].startswith("("):
        ts.append(p[0])
    prev = None
    for _, t in dl_items(p[-2] if len(p) >= 3 else p[1]):
        if t != prev:
            ts.append(t)
        prev = t
    return ts


def mon_jq(ls, out):
    n = int(ls[0].split()[1])
    acc = [[] for _ in range(n)]
    tuples = []
    modes0 = ls[0].split()[2:]
    always_accepting = len(modes0) > 0 and all(m == "0" for m in modes0)
    for l, o in zip(ls[1:], out[1:]):
        w = l.split()
        if w[0] == "mode" and o == "ok" and w[2] != "0":
            always_accepting = False
        if o in ("ok", "bad-op"):
            continue
        if o == "ub":
            return "ports_with_no_items wrapped below zero"
        p = parts(o)
        if w[0] == "put" and p[0] == "1":
            acc[int(w[1])].append(int(w[2]))
        res_t = [p[0]] if (w[0] == "get" and p[0].startswith("(")) else []
        prev = None
        ts = list(res_t)
        for _, t in dl_items(p[1]):
            if t != prev:
                ts.append(t)
            prev = t
        for t in ts:
            i = len(tuples)
            tv = tuple_vals(t)
            exp = [a[i] if i < len(a) else None for a in acc]
            if tv != exp:
                return "queueing join: tuple %d is %s, the %d-th messages of the ports are %s" % (i, t, i, exp)
            tuples.append(tv)
        if always_accepting:
            ports = p[2].split(" | ")[1].split(" / ")
            if all(q.strip() != "-" for q in ports):
                return ("queueing join: every port holds its message no. %d (%s) and the successor accepts everything, but the tuple is "
                        "not emitted" % (len(tuples), [q.split(",")[0] for q in ports]))
    return None


def mon_jk(ls, out):
    n = int(ls[0].split()[1])
    puts = {}
    used = {}
    for l, o in zip(ls[1:], out[1:]):
        w = l.split()
        if o in ("ok", "bad-op"):
            continue
        if o == "ub":
            return "key_matching join: a key counted complete was missing at a port"
        p = parts(o)
        if w[0] == "put":
            k = (int(w[1]), int(w[2]))
            puts[k] = puts.get(k, 0) + 1
        ts = []
        if w[0] == "get" and p[0].startswith("("):
            ts.append(p[0])
        prev = None
        for _, t in dl_items(p[1]):
            if t != prev:
                ts.append(t)
            prev = t
        for t in ts:
            tv = tuple_vals(t)
            if len(tv) != n or len({v // 8 for v in tv}) != 1:
                return "key_matching join: tuple %s does not carry one key in all %d components" % (t, n)
            for port, v in enumerate(tv):
                used[(port, v)] = used.get((port, v), 0) + 1
                if used[(port, v)] > puts.get((port, v), 0):
                    return "key_matching join: message %d of port %d used %d times but put %d times" % (v, port, used[(port, v)], puts.get((port, v), 0))
    return None


def mon_jr(ls, out):
    n = int(ls[0].split()[1])
    for l, o in zip(ls[1:], out[1:]):
        if o in ("ok", "bad-op"):
            continue
        p = parts(o)
        evs = [] if p[1] == "-" else p[1].split()
        cur = {}
        block = 0          # consumes still expected in the current all-ports block
        for ev in evs:
            if ev.startswith("res"):
                port, v = ev[3:].split(":")
                cur[int(port)] = int(v)
            elif ev.startswith("rel"):
                cur.pop(int(ev[3:]), None)
            elif ev.startswith("con"):
                port = int(ev[3:])
                if block == 0:
                    if len(cur) != n:
                        return "reserving join: inputs consumed although only ports %s were reserved (%s)" % (sorted(cur), p[1])
                    block = n
                if port not in cur:
                    return "reserving join: port %d consumed without a reservation (%s)" % (port, p[1])
                cur.pop(port)
                block -= 1
        if cur or block:
            return "reserving join: ports %s left reserved / partially consumed after the operation (%s)" % (sorted(cur), p[1])
        dump = p[3].split(" | ")
        if "1" in dump[3]:
            return "reserving join: a port is still reserved after the operation: %s" % p[3]
    return None


def mon_ow(ls, out):
    once = ls[0].split()[1] == "1"
    cur = None
    modes = []
    succs = []

    def accepts(m, v):
        return m == 0 or v % m != 0
    for l, o in zip(ls[1:], out[1:]):
        w = l.split()
        if o == "bad-op":
            continue
        if w[0] == "mode":
            if int(w[1]) < len(modes):
                modes[int(w[1])] = int(w[2])
            continue
        p = parts(o)
        dl = dl_items(p[1])
        dump = p[2].split(" | ")
        if w[0] == "put":
            v = int(w[1])
            if once and cur is not None:
                if p[0] != "0" or dl:
                    return "write_once_node accepted / forwarded a second value %d (first was %d)" % (v, cur)
            else:
                cur = v
                want = ["r%d" % r for r in succs if accepts(modes[r], v)]
                if [r for r, _ in dl] != want or any(int(x) != v for _, x in dl):
                    return "put %d delivered %s, present successors that accept it: %s" % (v, dl, want)
        elif w[0] == "reg":
            r = len(modes); modes.append(int(w[1]))
            if cur is not None and accepts(modes[r], cur):
                if dl != [("r%d" % r, str(cur))]:
                    return "successor r%d registered while the buffer holds %d was given %s" % (r, cur, dl)
            elif dl:
                return "registration delivered %s" % dl
        elif w[0] == "get":
            if (p[0] == "-") != (cur is None) or (cur is not None and int(p[0]) != cur):
                return "try_get returned %s, the %s value is %s" % (p[0], "first" if once else "latest", cur)
        elif w[0] == "clear":
            cur = None
        # which successors are in the push cache now (white-box, only used to know who must be served)
        succs = [] if dump[1] == "-" else [int(x) for x in dump[1].split(",")]
        if (dump[0] == "_") != (cur is None) or (cur is not None and int(dump[0]) != cur):
            return "buffer holds %s, expected %s" % (dump[0], cur)
    return None


def mon_misc(ls, out):
    ms = [int(x) for x in ls[0].split()[1:]]

    def accepts(m, v):
        return m == 0 or v % m != 0
    for l, o in zip(ls[1:], out[1:]):
        w = l.split()
        if o == "bad-op":
            continue
        p = parts(o)
        dl = dl_items(p[1])
        if w[0] == "bput":
            v = int(w[1])
            want = [("r%d" % i, str(v)) for i, m in enumerate(ms) if accepts(m, v)]
            if dl != want:
                return "broadcast_node delivered %s, expected %s" % (dl, want)
        elif w[0] == "sput":
            want = [("p%d" % i, w[1 + i]) for i in range(3)]
            if dl != want:
                return "split_node routed %s, expected %s" % (dl, want)
        elif w[0] == "iput":
            port, v = int(w[1]), int(w[2])
            want = [("r%d" % i, "(%d,%d)" % (port, v)) for i, m in enumerate(ms) if accepts(m, v)]
            if dl != want:
                return "indexer_node delivered %s, expected %s" % (dl, want)
    return None


MONITORS = {"c15buf": mon_buf, "c15prio": mon_prio, "c15lim": mon_lim, "c15lq": mon_lq, "c15jq": mon_jq,
            "c15jk": mon_jk, "c15jr": mon_jr, "c15ow": mon_ow, "c15misc": mon_misc}


# ---------------------------------------------------------------------------------------------
# running batches of scripts
# ---------------------------------------------------------------------------------------------
def split_scripts(lines, outs):
    """split concatenated (script, output) at the reset lines"""
    res, cur_l, cur_o = [], [], []
    for l, o in zip(lines, outs):
        if l.startswith("reset") and cur_l:
            res.append((cur_l, cur_o)); cur_l, cur_o = [], []
        cur_l.append(l); cur_o.append(o)
    if cur_l:
        res.append((cur_l, cur_o))
    return res


def resolve_wf(model, script):
    """wf limiter scripts: 'dec @' becomes 'dec d' with 1 <= d <= forwarded-and-not-decremented (or is dropped);
    resolved incrementally against the real node so that the decrements are well formed by construction."""
    if not any(l == "dec @" for l in script):
        return script
    th = int(script[0].split()[1])
    res = [script[0]]
    outst = 0
    k = 0
    for l in script[1:]:
        if l == "dec @":
            k += 1
            if outst <= 0:
                continue
            d = 1 + (k * 7 + outst) % outst
            res.append("dec %d" % d)
        else:
            res.append(l)
        rc, o, _ = run_impl(model, "\n".join(res) + "\n")
        if rc != 0 or len(o) != len(res):
            return res
        # recompute the ghost from the outputs
        outst = 0
        for ll, oo in zip(res[1:], o[1:]):
            w = ll.split(); p = parts(oo)
            if w[0] == "dec":
                outst -= int(w[1])
            if model == "c15lq":
                outst += len(dl_items(p[1]))
            elif w[0] == "put":
                outst -= sum(int(x) for x in w[2:])
                if p[0] == "1":
                    outst += 1
    return res


def run_batch(model, scripts):
    """returns per script (lines, impl_out, model_out, first diff index | None, monitor problem | None)"""
    lines = [l for s in scripts for l in s]
    text = "\n".join(lines) + "\n"
    if model == "c15ib":
        rc, out, err = sh([_exes["ib"]], input=text, timeout=600)
        impl = out.split("\n")[:-1]
    else:
        rc, impl, err = run_impl(model, text, timeout=600)
    if rc != 0 or len(impl) != len(lines):
        # find the script that kills the harness
        return None, "harness rc=%d, %d output lines for %d input lines: %s" % (rc, len(impl), len(lines), err[-400:])
    mod = drv(model, text)
    res = []
    pos = 0
    for s in scripts:
        io, mo = impl[pos:pos + len(s)], mod[pos:pos + len(s)]
        pos += len(s)
        # after the model says "ub" (asserted precondition violated) nothing is compared any more
        cut = len(s)
        for i, m in enumerate(mo):
            if m == "ub":
                cut = i + 1
                break
        d = first_diff(io[:cut], mo[:cut])
        mon = MONITORS[model](s, io) if model in MONITORS else None
        res.append((s, io, mo, d, mon))
    return res, None


def shrink(model, script, still_fails):
    """delta debugging on the op lines (the reset line stays)"""
    cur = list(script)
    n = 2
    while len(cur) > 2:
        body = cur[1:]
        chunk = max(1, len(body) // n)
        reduced = False
        for i in range(0, len(body), chunk):
            cand = [cur[0]] + body[:i] + body[i + chunk:]
            if len(cand) > 1 and still_fails(cand):
                cur = cand
                n = max(n - 1, 2)
                reduced = True
                break
        if not reduced:
            if chunk == 1:
                break
            n = min(len(body), n * 2)
    return cur


def monitor_fails(model, noguard=False):
    def f(script):
        rc, o, _ = run_impl(model, "\n".join(script) + "\n", noguard=noguard, timeout=60)
        if rc != 0 or len(o) != len(script):
            return True
        return MONITORS[model](script, o) is not None
    return f


def classify_key(model, script, problem):
    if model == "c15buf" and script[0].split()[1] == "buffer" and problem.startswith("try_get handed out item"):
        return KEY_STEAL
    ops = "".join(l.split()[0][0] for l in script[1:])
    return "%s:%s:%s" % (model, script[0].replace(" ", "_"), ops[:24])


def report_cex(ck, model, script, problem, noguard=False):
    small = shrink(model, script, monitor_fails(model, noguard))
    rc, o, _ = run_impl(model, "\n".join(small) + "\n", noguard=noguard)
    prob2 = MONITORS[model](small, o) or problem
    key = classify_key(model, small, prob2)
    ck.counterexample(key, "%s on the real node(s) for script %s" % (prob2, " / ".join(small)),
                      {"engine": "E-MOCK(script, single-threaded real nodes)", "harness": NODES_SRC, "model": model,
                       "script": small, "noguard": noguard, "observed": o, "monitor": prob2,
                       "model_prediction": drv(model, "\n".join(small) + "\n")})
    return key


# ---------------------------------------------------------------------------------------------
# stages
# ---------------------------------------------------------------------------------------------
def exhaustive_scripts(model, mode, maxlen=99):
    """short exhaustive op scripts (coverage in every run; also used by the failing-input search)"""
    res = []
    if model == "c15buf":
        for kind in ("queue", "buffer", "seq"):
            alpha = ["put", "get", "reserve", "release", "consume"]
            for L in range(1, min(6, maxlen + 1)):
                for combo in itertools.product(alpha, repeat=L):
                    if combo[0] != "put":
                        continue
                    s = ["reset %s %d 1" % (kind, mode)]
                    v = 0
                    for c in combo:
                        if c == "put":
                            v += 1
                            s.append("put %d" % (v if kind != "seq" else ((v - 1) // 2) * 8 + v % 8))
                        else:
                            s.append(c)
                    res.append(s)
            # forwarding variants
            for perm in itertools.permutations(range(4)):
                res.append(["reset seq %d 0" % mode] + ["put %d" % (t * 8) for t in perm] + ["put %d" % (perm[0] * 8 + 1)])
            for tags in itertools.product(range(6), repeat=min(5, maxlen)):
                if len(res) > 6000:
                    break
                res.append(["reset seq %d 0" % mode] + ["put %d" % (t * 8 + i) for i, t in enumerate(tags)])
    elif model == "c15jq":
        for L in range(2, min(8, maxlen + 3)):
            for combo in itertools.product([0, 1], repeat=L):
                res.append(["reset 2 0"] + ["put %d %d" % (p, i + 1) for i, p in enumerate(combo)])
    elif model == "c15lq":
        for th in (1, 2):
            for L in range(2, min(8, maxlen + 2)):
                for combo in itertools.product(["put", "dec 0", "dec 1"], repeat=L):
                    s = ["reset %d" % th]; v = 0; outst = 0
                    res.append(s + [("put %d" % (i + 1)) if c == "put" else c for i, c in enumerate(combo)])
    elif model == "c15ow":
        for once in (0, 1):
            for L in range(2, min(6, maxlen + 1)):
                for combo in itertools.product(["reg 0", "put", "get"], repeat=L):
                    res.append(["reset %d" % once] + [("put %d" % (i + 1)) if c == "put" else c for i, c in enumerate(combo)])
    return res


def lq_wellformed(script, out):
    """dec only for forwarded messages"""
    outst = 0
    for l, o in zip(script[1:], out[1:]):
        w = l.split(); p = parts(o)
        if w[0] == "dec":
            if int(w[1]) > outst:
                return False
            outst -= int(w[1])
        outst += len(dl_items(p[1]))
    return True


def stage_model(ck, model, scripts, label, mode):
    res, err = run_batch(model, scripts)
    if res is None:
        ck.oblige("corr:%s" % label, "correspondence", False, err)
        return
    bad_corr = [(s, io, mo, d) for (s, io, mo, d, mon) in res if d is not None]
    bad_mon = [(s, io, mon) for (s, io, mo, d, mon) in res if mon is not None]
    nops = sum(len(s) - 1 for s in scripts)
    ck.count(nops)
    for s, io, *_ in res:
        for l, o in zip(s[1:], io[1:]):
            ck.distinct.add((model, l.split()[0], o.split(" ;")[0][:3], len(o) > 40))
    ck.traces_validated += len(scripts)
    ck.extra.setdefault("scripts", {})[label] = {"scripts": len(scripts), "ops": nops}
    s0 = res[len(res) // 2]
    ck.sample({"model": model, "script": s0[0][:12], "impl": s0[1][:12], "lean_model": s0[2][:12]}, cap=14)
    det = ""
    if bad_corr:
        s, io, mo, d = bad_corr[0]
        det = "script %s: line %d %r: implementation %r, model %r" % (" / ".join(s[:d + 1]), d, s[d], io[d] if d < len(io) else None, mo[d] if d < len(mo) else None)
    ok_c = ck.oblige("corr:%s (real node vs Lean model, per-op results + white-box state)" % label, "correspondence", not bad_corr, det)
    ok_m = True
    if model in MONITORS:
        ok_m = ck.oblige("monitor:%s (implementation-side property monitor)" % label, "correspondence", not bad_mon,
                         "" if not bad_mon else "%s on script %s" % (bad_mon[0][2], " / ".join(bad_mon[0][0])))
    keys = set()
    if bad_mon:
        seen_problem = set()
        for s, io, mon in bad_mon:
            cls = re.sub(r"[0-9]+", "#", mon)[:60]
            if cls in seen_problem or len(seen_problem) >= 4 or len(keys - {KEY_STEAL}) >= 1:
                continue
            seen_problem.add(cls)
            noguard = model == "c15buf" and s[0].split()[1] == "buffer"
            small = shrink(model, s, monitor_fails(model, noguard))
            rc, o2, _ = run_impl(model, "\n".join(small) + "\n", noguard=noguard)
            k = classify_key(model, small, MONITORS[model](small, o2) or mon)
            if k in keys:
                continue
            if any(c["key"] == k for c in ck.counterexamples):      # same finding already reported by an earlier stage
                keys.add(k)
                continue
            keys.add(report_cex(ck, model, small, mon, noguard=noguard))
    elif bad_corr and model in MONITORS:
        # the model no longer describes the code: look for an input on which the PROPERTY fails
        found = search(ck, model, mode)
        if found:
            keys.add(found)
    # obligations fully accounted for by the known buffer_node finding are marked explained
    if keys == {KEY_STEAL}:
        for o in ck.obligations:
            if not o["ok"] and label in o["name"]:
                o["explained"] = True


def search(ck, model, mode):
    """failing-input search: short exhaustive scripts, then more random seeds, under the monitors"""
    cands = exhaustive_scripts(model, mode)
    gens = {"c15buf": lambda r: gen_buf(r, 40, r.choice(["queue", "buffer", "seq"]), mode), "c15prio": lambda r: gen_prio(r, 30),
            "c15lim": lambda r: resolve_wf("c15lim", gen_lim(r, 30, True)), "c15lq": lambda r: resolve_wf("c15lq", gen_lq(r, 30)),
            "c15jq": lambda r: gen_join(r, 40, "jq"), "c15jk": lambda r: gen_join(r, 40, "jk"), "c15jr": lambda r: gen_join(r, 40, "jr"),
            "c15ow": lambda r: gen_ow(r, 30), "c15misc": lambda r: gen_misc(r, 20)}
    import random
    rng = random.Random(ck.seed * 7919 + 15)
    cands += [gens[model](rng) for _ in range(150 if model in ("c15lim", "c15lq") else 1500)]
    ck.extra.setdefault("search", {})[model] = len(cands)
    for i in range(0, len(cands), 400):
        chunk = cands[i:i + 400]
        lines = [l for s in chunk for l in s]
        rc, impl, err = run_impl(model, "\n".join(lines) + "\n", timeout=600)
        if rc != 0 or len(impl) != len(lines):
            continue
        pos = 0
        for s in chunk:
            io = impl[pos:pos + len(s)]; pos += len(s)
            if model == "c15lq" and not lq_wellformed(s, io):
                continue
            mon = MONITORS[model](s, io)
            if mon is not None:
                return report_cex(ck, model, s, mon)
    return None


def run_mt(ck):
    libs, _ = tbb_libs()
    exe = cxx_build("C15", "mt", ["harness/c15/mt.cpp"], flags=["-O1", "-g", "-pthread"], libs=libs)
    quick = ck.tier == "quick"
    reps = 10 if quick else 150
    N = 1500 if quick else 6000
    plan = [("queue", 4, N, 0), ("buffer", 4, N, 0), ("seq", 4, N, 0), ("prio", 4, N, 0), ("lim", 3, N // 2, 3), ("lim", 4, N // 3, 1),
            ("limq", 3, N // 2, 2), ("jq", 2, N, 0), ("jr", 2, N, 0), ("jqm", 2, N // 3, 0), ("jk", 3, N, 0),
            ("wonce", 2, 3 if quick else 20, 0), ("wonce", 3, 2 if quick else 10, 0), ("owrite", 3, 2 if quick else 10, 0),
            ("oreg", 2, 4 if quick else 30, 0), ("wreg", 2, 3 if quick else 20, 0)]
    bad = []
    inconclusive = []
    runs = 0
    for sc, P, n, T in plan:
        for r in range(reps):
            seed = ck.seed * 1000 + r
            rc, out, err = sh([exe, sc, str(seed), str(P), str(n), str(T)], timeout=90)
            runs += 1
            ck.count(P * n, ("mt", sc))
            if "VIOLATION" in out:
                bad.append((sc, seed, P, n, T, "rc=%d %s %s" % (rc, out.strip(), err[-200:])))
                break
            if rc != 0 or "ok " not in out:
                inconclusive.append((sc, seed, P, n, T, "rc=%d %s %s" % (rc, out.strip(), err[-200:])))
                break
    ck.extra["mt_runs"] = runs
    ck.oblige("monitor:multi-threaded real runs (FIFO per producer, sequencer exact order, priority drain, limiter ghost counter at an "
              "instrumented successor, join tuple consistency, racing first writers of write_once_node / writers of overwrite_node with the "
              "store into the buffer held open; a successor being attached to an overwrite_node / write_once_node while another thread writes)", "correspondence", not bad, bad[:2])
    ck.oblige("monitor:multi-threaded real runs terminate with every message delivered", "correspondence", not inconclusive, inconclusive[:2])
    for sc, seed, P, n, T, what in bad[:1]:
        ck.counterexample("mt:%s" % sc, "multi-threaded scenario %s seed %d: %s" % (sc, seed, what),
                          {"engine": "E-REAL", "harness": "harness/c15/mt.cpp", "args": [sc, str(seed), str(P), str(n), str(T)], "observed": what, "repeat": 200})


def run(ck):
    ck.rule = ("op scripts from one PRNG (VERIF_SEED): item_buffer: push/pop front/back/reserve/release/consume/grow/extend/place incl. growth with "
               "reserved slots and holes; nodes: puts / try_get / reserve / release / consume interleaved with successor-mode flips (accept all, "
               "reject all, reject multiples of m), sequence numbers from a drifting window with duplicates, stale and far-ahead tags; priority "
               "batches of 1-5 aggregator ops; limiter puts with nested decrements sent by the successor *during* the put (racing point) with "
               "deltas in {1,2,3,0,-1,-2,7,9}, two puts in flight at once (put2: a second thread is admitted while the first put is "
               "between admission and completion) plus well-formed decrement scripts for the ghost monitor; all short op scripts "
               "(length <= 4 quick / <= 5-7 thorough) for buffer/queue/sequencer, queueing join, queue->limiter, overwrite/write_once; join arrivals at random ports, key "
               "multisets from 6 keys with duplicates, pulls by try_get; multi-threaded runs with 2-4 external threads. "
               "AGGREGATOR BATCHES (extension a/b): scripts of forced batches of 1-5 operations in a chosen ARRIVAL order (all eight op kinds of buffer/queue/"
               "sequencer/priority_queue nodes incl. a held forwarder's try_fwd_task, through white-box execute and through the public API; the four "
               "base-node op kinds of join_node over queueing / key_matching / reserving front ends with 2 and 3 ports), successor verdict scripts over "
               "{accept, refuse-and-stay, refuse-and-switch-to-pull}, head/tail shifted across 2^16, 2^31, 2^32, 2^40 (sequence numbers > 2^32), "
               "every ordered pair of op kinds as one batch from three start states x three verdicts (sampled in quick, all in thorough); the "
               "distribution actually run is in extra.batch_distribution / extra.join_batch_distribution. distinct = distinct "
               "(model, operation, result class) triples")
    ck.assumptions += [
        "modelled: item_buffer ring exactly (slot states, grow re-hash, place_item); handle_operations cases of buffer/queue/sequencer/"
        "priority_queue nodes as atomic steps incl. order()/heapify/reheap and the forwarding task loop; limiter_node's three locked regions "
        "of a put / forward task and decrement_counter; queueing / reserving / key_matching join front ends and ports; overwrite/write_once; "
        "broadcast/split/indexer as their routing functions",
        "aggregator-based nodes (buffer/queue/sequencer/priority_queue, join_node_base): modelled per BATCH as coded (Batch.handleOps / Join.handleOps: list "
        "order = reversed arrival, try_forwarding switch regenerated from the source, order(), forwarder_busy, the offer loop, round-robin / broadcast "
        "cache with pull-mode flips); the single hypothesis about the aggregator is its serialisation (serial handlers, every operation in exactly one "
        "batch, batch = pending stack) — proved for the same _aggregator.h code in C13 (aggregator_serial_exactly_once) and exercised here with real "
        "threads through the real aggregator; limiter / overwrite / write_once: atomicity of the locked regions assumed (mutex), sampled by monitors",
        "join_node: port operations (queueing_port / key_matching_port / reserving_port aggregators) are atomic steps between base-node batches; the "
        "interleaving of a port put with the inside of tuple_accepted (reset_port_count / reset_ports) is not refined below that granularity; "
        "reserving ports have one scripted predecessor each; tie for 2 and 3 ports (theorems for every n)",
        "sequence numbers: the theorem covers numbers < 2^62 in the code's 64-bit arithmetic (regenerated expressions); at 2^64-1 `tag+1` wraps and "
        "grow_my_array's doubling loop cannot terminate above 2^63 (not reachable with real memory)",
        "is_graph_active() is taken as true; reset()/cancellation of the graph are not modelled",
        "priority_queue_node: inside ONE aggregator batch a pop is compared only with the heap part and the last pushed element "
        "(prio_emits_max states exactly that; maximal over everything only at batch boundaries) — concurrent pushes of the same batch",
        "limiter theorem is on the ghost counter (forwarded minus applied positive decrements); my_count itself can exceed the threshold when a "
        "negative decrement races a put (observed on the real node, reported)",
        "key_matching: a duplicate (port,key) put is answered 'rejected' but replaces the stored message (modelled as coded; reported)",
        "not modelled: try_put_and_wait metainfo (preview), reset()/rf_clear_edges, exceptions thrown by user bodies/copy constructors, "
        "hash_buffer bucket layout (abstracted to an association list; compared through sorted dumps), successor caches beyond what the "
        "scripted successors exercise (C14), node priorities",
        "a scratch $VERIF_REPO without _build links /repo's libtbb (C15's code is header-only)",
        "pinned tree: buffer_node::internal_pop ignores my_reserved (Generated bufferPopMode = 0): buffer_reservation_safe / "
        "reserved_front_stable apply to buffer_node only for mode >= 1; the failing input is replayed under key " + KEY_STEAL]
    ck.trusted += ["harness/c15/*.cpp (scripted successors/senders, white-box dumps via -fno-access-control)", "checks/c15.py monitors + script "
                   "generators", "Driver/C15.lean composites (forwarding-task loops around the proved atomic steps)",
                   "checks/c15gen.py (regex extraction of the handle_operations switch and of the index expressions; cexpr translation)",
                   "harness/c15/batch.cpp, joinbatch.cpp (white-box forcing of batches via handler_busy; held forwarder emulation; scripted verdicts)",
                   "Driver/C15Batch.lean (drain loops around the proved Batch.handleOps / Join.handleOps; task bookkeeping of port events)",
                   "correspondence is sampled (differential), not proved"]
    exe_nodes()
    mode = gen(ck)
    ck.lean_stage()
    libs, _ = tbb_libs()
    _exes["ib"] = cxx_build("C15", "ib", ["harness/c15/ib.cpp"], flags=["-O1", "-g", "-fno-access-control", "-fsanitize=address,undefined",
                                                                        "-fno-sanitize-recover=all", "-pthread"], libs=libs)
    quick = ck.tier == "quick"
    k = 8 if quick else 120
    rng = ck.rng
    stage_model(ck, "c15ib", [gen_ib(rng, 60) for _ in range(150 * k)], "item_buffer (E-PURE white-box)", mode)
    corpus_buf = [["reset buffer %d" % mode, "put 7", "reserve", "get", "consume", "put 8", "put 9", "get", "get"],
                  ["reset buffer %d 1" % mode, "put 1", "put 2", "reserve", "get", "get", "release", "get"],
                  ["reset queue %d 0" % mode, "put 1", "put 2", "put 3", "put 4", "reserve", "put 5", "put 6", "consume", "get"],
                  ["reset seq %d 0" % mode, "put 24", "put 16", "put 8", "put 0", "put 1", "put 9", "put 200", "put 32"]]
    stage_model(ck, "c15buf", corpus_buf + [gen_buf(rng, 40, kind, mode) for kind in ("queue", "buffer", "seq") for _ in range(70 * k)],
                "buffer/queue/sequencer nodes", mode)
    stage_model(ck, "c15prio", [["reset", "batch p5", "batch p9 p7 g", "batch g", "batch g"]] + [gen_prio(rng, 30) for _ in range(120 * k)],
                "priority_queue_node", mode)
    stage_model(ck, "c15lim", [gen_lim(rng, 30, False) for _ in range(120 * k)] + [resolve_wf("c15lim", gen_lim(rng, 25, True)) for _ in range(12 * k)],
                "limiter_node", mode)
    # the ghost monitor is exact only on the well-formed class: run it there, correspondence on both
    stage_model(ck, "c15lq", [resolve_wf("c15lq", gen_lq(rng, 25)) for _ in range(25 * k)], "queue_node->limiter_node", mode)
    stage_model(ck, "c15jq", [gen_join(rng, 40, "jq") for _ in range(100 * k)], "join_node queueing", mode)
    stage_model(ck, "c15jk", [["reset 2 0", "put 0 9", "put 0 10", "put 1 11"]] + [gen_join(rng, 40, "jk") for _ in range(100 * k)], "join_node key_matching", mode)
    stage_model(ck, "c15jr", [gen_join(rng, 40, "jr") for _ in range(100 * k)], "join_node reserving", mode)
    stage_model(ck, "c15ow", [gen_ow(rng, 30) for _ in range(80 * k)], "overwrite/write_once nodes", mode)
    stage_model(ck, "c15misc", [gen_misc(rng, 20) for _ in range(40 * k)], "broadcast/split/indexer nodes", mode)
    ml = 4 if quick else 99
    for m, lab in (("c15buf", "buffer/queue/sequencer nodes"), ("c15jq", "join_node queueing"), ("c15lq", "queue_node->limiter_node"),
                   ("c15ow", "overwrite/write_once nodes")):
        stage_model(ck, m, exhaustive_scripts(m, mode, ml), lab + ", all short scripts", mode)
    bat_keys = c15bat.stage(ck, libs) or set()
    if c15bat.KEY_SEQ_LOST in bat_keys or any(c["key"] == c15bat.KEY_SEQ_LOST for c in ck.counterexamples):
        for o in ck.obligations:
            if not o["ok"] and o["name"].startswith("gen:handle_operations switch never withdraws"):
                o["explained"] = True
    c15jb.stage(ck, libs)
    run_mt(ck)
    # the generated obligation about buffer_node is explained by the (known) finding iff its replay was produced
    if mode == 0:
        have = any(c["key"] == KEY_STEAL for c in ck.counterexamples)
        if not have:
            s = ["reset buffer 0", "put 7", "reserve", "get", "consume", "put 8", "put 9", "get", "get"]
            rc, o, _ = run_impl("c15buf", "\n".join(s) + "\n", noguard=True)
            mon = mon_buf(s, o)
            if mon:
                report_cex(ck, "c15buf", s, mon, noguard=True)
                have = True
        if have:
            for o in ck.obligations:
                if not o["ok"] and o["name"].startswith("gen:buffer_node"):
                    o["explained"] = True


# the wild limiter scripts must not be judged by the ghost monitor: wrap it
_mon_lim_raw = mon_lim


def _mon_lim(ls, out):
    # well-formed = every decrement (nested or not) positive and not larger than the ghost at that moment
    th = int(ls[0].split()[1])
    outst = 0
    for l, o in zip(ls[1:], out[1:]):
        w = l.split()
        if o in ("ok", "bad-op"):
            continue
        p = parts(o)
        ds = [int(x) for x in (w[2:] if w[0] == "put" else w[3:] if w[0] == "put2" else w[1:2] if w[0] == "dec" else [])]
        for d in ds:
            if d <= 0 or d > outst:
                return None          # not in the class on which the ghost is observable
            outst -= d
        if w[0] == "put" and p[0] == "1":
            outst += 1
        if w[0] == "put2":
            outst += p[0].count("1")
    return _mon_lim_raw(ls, out)


MONITORS["c15lim"] = _mon_lim


def replay(ck, obj):
    r = obj["replay"]
    if r.get("model") == "c15bat":
        libs, _ = tbb_libs()
        return c15bat.replay(ck, r, libs)
    if r.get("model") == "c15jb":
        libs, _ = tbb_libs()
        return c15jb.replay(ck, r, libs)
    if r.get("engine") == "E-REAL":
        libs, _ = tbb_libs()
        exe = cxx_build("C15", "mt", ["harness/c15/mt.cpp"], flags=["-O1", "-g", "-pthread"], libs=libs)
        for i in range(int(r.get("repeat", 50))):
            rc, out, err = sh([exe] + r["args"], timeout=300)
            if rc != 0 or "VIOLATION" in out:
                print("replay %s run %d: %s" % (obj.get("key"), i, out.strip()))
                print("STILL FAILS")
                return 1
        print("replay %s: %d runs without a violation" % (obj.get("key"), int(r.get("repeat", 50))))
        return 0
    model, script = r["model"], r["script"]
    if model == "c15bat":
        libs, _ = tbb_libs()
        return c15bat.replay(ck, r, libs)
    if model == "c15jb":
        libs, _ = tbb_libs()
        return c15jb.replay(ck, r, libs)
    rc, o, err = run_impl(model, "\n".join(script) + "\n", noguard=bool(r.get("noguard")))
    print("replay of %s on %s (%s)" % (obj.get("key"), REPO, model))
    for l, x in zip(script, o):
        print("  %-14s -> %s" % (l, x))
    if rc != 0 or len(o) != len(script):
        print("harness failed rc=%d %s\nSTILL FAILS" % (rc, err[-300:]))
        return 1
    mon = MONITORS[model](script, o)
    if mon is None:
        print("property monitor: no violation -> property holds now on this input")
        return 0
    print("property monitor: %s\nSTILL FAILS" % mon)
    return 1
