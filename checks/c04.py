"""C04 — cancellation reaches every descendant context and nothing else; one winner (DESIGN.md §3 C04, §4 F2).

E-GEN : two facts about the protocol are re-extracted from the source on every run and written to Generated/C04.lean:
          propagatorHoldsPropagationMutex  (the lock taken by bind_to_impl's fall-back is held by the propagator for the walk)
          bindCopyNeverClears              (bind_to_impl's copies of the parent's flag can only store "cancelled")
        The Lean model `CtxTree` is parameterised by them; the main theorem is stated over the generated values.
E-SHIM: white-box op programs (bind / cancel / destroy / reset over context trees, 2-4 external threads, each with its
        own context list) run on the WHOLE instrumented runtime under seeded random schedules; the atomic-access trace
        restricted to the context / epoch / mutex variables is replayed access by access on `CtxTree` (instantiated with
        the generated facts); implementation-side monitors at quiescence check the property itself.
Search: targeted scenarios for the two windows (fall-back lock not held by the propagator; stale copy overwriting a
        painted flag) under many seeds; any failing schedule is the replay."""
import json
import os
import re

import common
from common import REPO, cxx_build, drv, gen_write, log, sh

SRC = os.path.join(REPO, "src", "tbb")
MUTEX_VARS = ("lm", "regmx", "propmx")

KEY_F2 = "bind-fallback-lock-not-held-by-propagator"
KEY_COPY = "bind-copy-overwrites-cancel-flag"


# --------------------------------------------------------------------------------------------------
# E-GEN: source extractor
# --------------------------------------------------------------------------------------------------

def strip_comments(s):
    s = re.sub(r"/\*.*?\*/", lambda m: re.sub(r"[^\n]", " ", m.group(0)), s, flags=re.S)
    return re.sub(r"//[^\n]*", "", s)


def function_body(text, header_re):
    """Body (between the outermost braces) of the first function whose header matches header_re."""
    m = re.search(header_re, text)
    if not m:
        return None
    i = text.find("{", m.end())
    if i < 0:
        return None
    depth, j = 0, i
    while j < len(text):
        if text[j] == "{":
            depth += 1
        elif text[j] == "}":
            depth -= 1
            if depth == 0:
                return text[i + 1:j]
        j += 1
    return None


LOCK_RE = re.compile(r"scoped_lock\s+\w+\s*[({]\s*([\w.:>\-]+?)\s*[)}]\s*;")


def locks_held_at(body, pos):
    """Names of the mutexes locked by scoped_lock objects that are still in scope at offset `pos` of `body`."""
    held, stack = [], [[]]
    i = 0
    while i < pos:
        c = body[i]
        if c == "{":
            stack.append([])
        elif c == "}":
            if len(stack) > 1:
                stack.pop()
        else:
            m = LOCK_RE.match(body, i)
            if m:
                stack[-1].append(m.group(1).split("->")[-1].split(".")[-1].split("::")[-1])
                i = m.end()
                continue
        i += 1
    for fr in stack:
        held += fr
    return held


def extract_facts():
    """Returns (facts dict, problems list)."""
    problems = []
    dis = strip_comments(open(os.path.join(SRC, "cancellation_disseminator.h")).read())
    tgc = strip_comments(open(os.path.join(SRC, "task_group_context.cpp")).read())
    tc = strip_comments(open(os.path.join(SRC, "threading_control.cpp")).read())
    # 1. locks the propagator holds when it bumps the epoch and while it walks the lists
    prop = function_body(dis, r"bool\s+propagate_task_group_state\s*\(")
    plocks = []
    if prop is None:
        problems.append("cancellation_disseminator::propagate_task_group_state not found")
    else:
        me = re.search(r"\+\+\s*the_context_state_propagation_epoch|the_context_state_propagation_epoch\s*(\+\+|\+=|\.fetch_add)", prop)
        mw = re.search(r"\.propagate_task_group_state\s*\(", prop)
        if not me or not mw:
            problems.append("epoch increment or list walk not recognised in the propagator")
        else:
            at_epoch = locks_held_at(prop, me.start())
            at_walk_end = locks_held_at(prop, prop.rfind("return"))
            plocks = [l for l in at_epoch if l in at_walk_end]
    # wrappers that could hold a lock around the call
    for hdr in (r"void\s+threading_control_impl::propagate_task_group_state\s*\(", r"void\s+threading_control::propagate_task_group_state\s*\("):
        b = function_body(tc, hdr)
        if b is not None:
            mc = re.search(r"propagate_task_group_state\s*\(", b)
            if mc:
                plocks += locks_held_at(b, mc.start())
    # 2. the lock of the binder's fall-back
    bind = function_body(tgc, r"void\s+task_group_context_impl::bind_to_impl\s*\(")
    fallback = None
    if bind is None:
        problems.append("task_group_context_impl::bind_to_impl not found")
        bind = ""
    else:
        mi = re.search(r"if\s*\(\s*local_count_snapshot\s*!=\s*the_context_state_propagation_epoch[^)]*\)\s*\)\s*\{", bind)
        if not mi:
            problems.append("epoch comparison of the binder's fall-back not recognised")
        else:
            blk = bind[mi.end():]
            end = blk.find("}")
            ml = LOCK_RE.search(blk[:end])
            if ml:
                fallback = ml.group(1).split("::")[-1]
            else:
                problems.append("the binder's fall-back takes no scoped_lock")
    # 3. can a copy of the parent's flag store 0 ?
    stores = list(re.finditer(r"ctx\.my_cancellation_requested\.store\s*\(", bind))
    never_clears = bool(stores)
    if not stores:
        problems.append("no store to ctx.my_cancellation_requested in bind_to_impl")
    for m in stores:
        arg = bind[m.end():m.end() + 160]
        before = bind[max(0, m.start() - 200):m.start()]
        if re.match(r"\s*ctx\.my_parent->my_cancellation_requested\.load", arg):
            never_clears = False          # unconditional copy of whatever the parent's flag is
        elif re.match(r"\s*(1|true|(std::)?uint32_t\s*[({]\s*1\s*[)}])\s*,", arg):
            guard = re.search(r"if\s*\(\s*ctx\.my_parent->my_cancellation_requested\.load\s*\([^)]*\)\s*(!=\s*0\s*)?\)\s*\{?\s*$", before)
            if not guard:
                never_clears = False
                problems.append("a constant store to the flag in bind_to_impl is not guarded by the parent's flag")
        else:
            never_clears = False
            problems.append("unrecognised store to ctx.my_cancellation_requested in bind_to_impl")
    facts = {
        "propagatorLocks": sorted(set(plocks)),
        "fallbackLock": fallback or "?",
        "propagatorHoldsPropagationMutex": bool(fallback) and fallback in plocks,
        "bindCopyNeverClears": never_clears,
        "bindCopySites": len(stores),
    }
    return facts, problems


def gen(ck):
    facts, problems = extract_facts()
    ck.extra["generated_facts"] = facts
    lb = lambda b: "true" if b else "false"
    body = ("/-- the mutex bind_to_impl's fall-back locks -/\ndef fallbackLock : String := %s\n"
            "/-- mutexes the propagator holds from the epoch increment to the end of the walk -/\ndef propagatorLocks : List String := [%s]\n"
            "def propagatorHoldsPropagationMutex : Bool := %s\n"
            "def bindCopyNeverClears : Bool := %s\n") % (
        json.dumps(facts["fallbackLock"]), ", ".join(json.dumps(x) for x in facts["propagatorLocks"]),
        lb(facts["propagatorHoldsPropagationMutex"]), lb(facts["bindCopyNeverClears"]))
    gen_write("C04", body)
    ck.oblige("gen:source shapes recognised (propagator locks, binder fall-back lock, binder copy sites)", "generated", not problems, "; ".join(problems))
    o1 = ck.oblige("gen:propagatorHoldsPropagationMutex — hypothesis of cancel_reaches_all_bound", "generated", facts["propagatorHoldsPropagationMutex"],
                   "binder's fall-back locks %s; the propagator holds %s during the walk" % (facts["fallbackLock"], facts["propagatorLocks"]))
    o2 = ck.oblige("gen:bindCopyNeverClears — hypothesis of cancel_reaches_all_bound and cancel_sticky", "generated", facts["bindCopyNeverClears"],
                   "bind_to_impl copies the parent's flag with an unconditional load+store pair (%d sites): it can write 0 over a 1" % facts["bindCopySites"])
    return facts


# --------------------------------------------------------------------------------------------------
# scenarios: a global, sequentially valid list of ops distributed over threads; deps = ops that must have completed
# --------------------------------------------------------------------------------------------------

def scenario_text(sc):
    lines = ["threads %d" % sc["threads"], "order " + " ".join(map(str, sc["order"]))]
    for o in sc["ops"]:
        lines.append("op %d %d %s %d %s %s" % (o["id"], o["th"], o["kind"], o["x"], "-" if o["p"] is None else o["p"],
                                               ",".join(map(str, o["deps"])) if o["deps"] else "-"))
    for (t, conds) in sc.get("guide", []):
        lines.append("guide %d %s" % (t, ",".join("%s=%d" % kv for kv in conds)))
    return "\n".join(lines) + "\ngo\n"


def mk_ops(raw):
    """raw: list of (thread, kind, x, p, deps) -> op dicts with ids"""
    return [{"id": i, "th": t, "kind": k, "x": x, "p": p, "deps": list(d)} for i, (t, k, x, p, d) in enumerate(raw)]


def random_scenario(rng, allow_reset=False):
    """A random context forest of depth <= 4 built, cancelled at several levels and partly destroyed by 2-4 threads."""
    T = rng.choice([2, 3, 3, 4])
    order = list(range(T))
    rng.shuffle(order)
    nctx = rng.randrange(3, 9)
    raw, bind_op, depth, parent, children, last_use = [], {}, {}, {}, {}, {}
    live = []

    after = {}      # context -> id of its latest reset (later uses of the context wait for it: reset is not concurrent-safe)

    def add(t, kind, x, p, deps):
        deps = list(deps) + [after.get(x), after.get(p) if p is not None else None]
        raw.append((t, kind, x, p, sorted(set(d for d in deps if d is not None))))
        return len(raw) - 1
    # a prefix of binds makes some tree exist before the races start; the rest is interleaved with cancels
    nxt = 1
    budget = rng.randrange(6, 16)
    destroyed = set()
    while budget > 0:
        budget -= 1
        r = rng.random()
        t = rng.randrange(T)
        if (r < 0.5 or not live) and nxt <= nctx:
            x = nxt
            nxt += 1
            cands = [c for c in live if depth[c] < 3 and c not in destroyed]
            p = rng.choice(cands) if cands and rng.random() < 0.8 else None
            deps = [bind_op[p]] if p is not None else []
            i = add(t, "bind", x, p, deps)
            bind_op[x], depth[x], parent[x] = i, (depth[p] + 1 if p is not None else 0), p
            children.setdefault(x, [])
            if p is not None:
                children[p].append(x)
            last_use.setdefault(x, []).append(i)
            if p is not None:
                last_use[p].append(i)
            live.append(x)
            if rng.random() < 0.15:      # a second thread races for the same bind
                t2 = rng.randrange(T)
                j = add(t2, "bind", x, p, deps)
                last_use[x].append(j)
                if p is not None:
                    last_use[p].append(j)
        elif r < 0.85 and live:
            x = rng.choice([c for c in live if c not in destroyed] or live)
            if x in destroyed:
                continue
            early = rng.random() < 0.25      # cancel racing with (or preceding) the first bind of x
            i = add(t, "cancel", x, None, [] if early else [bind_op[x]] if rng.random() < 0.6 else [])
            last_use[x].append(i)
        elif r < 0.93 and live:
            leaves = [c for c in live if c not in destroyed and all(ch in destroyed for ch in children[c])]
            if leaves:
                x = rng.choice(leaves)
                i = add(t, "destroy", x, None, last_use[x])
                destroyed.add(x)
                if parent[x] is not None:
                    last_use[parent[x]].append(i)
        elif allow_reset and live:
            x = rng.choice(live)
            if x not in destroyed and not children[x]:
                i = add(t, "reset", x, None, last_use[x])
                last_use[x].append(i)
                after[x] = i
    return {"threads": T, "order": order, "ops": mk_ops(raw)}


def f2_scenario(extra_children=1, pad=0):
    """The window of DESIGN §4-F2: C1 <- C2 live in X's list (thread 1); B (thread 2) binds fresh children of C2 while
    thread 0 cancels C1; registry order B before X (X creates its thread_data after B: push_front)."""
    raw = [(1, "bind", 1, None, []), (1, "bind", 2, 1, [0])]
    for k in range(pad):
        raw.append((1, "bind", 20 + k, 1, [0]))
    for k in range(extra_children):
        raw.append((2, "bind", 5 + k, 2, [1]))
    raw.append((0, "cancel", 1, None, [1]))
    # guide: X builds C1 <- C2; the canceller runs until it has synced and unlocked B's (empty) list; B binds C5 completely;
    # then everybody runs to the end
    guide = [(1, [("st2", 3)]), (0, [("G", 1), ("ep2", 1), ("lm2", 0)]), (2, [("st5", 3)])]
    return {"threads": 3, "order": [0, 1, 2], "ops": mk_ops(raw), "guide": guide}


def copy_scenarios():
    """Windows of the unconditional load+store copy in bind_to_impl."""
    return [
        # cancel before the first use, then bind under a non-default parent (sequential)
        {"threads": 2, "order": [0, 1], "ops": mk_ops([(0, "bind", 1, None, []), (1, "cancel", 2, None, []), (1, "bind", 2, 1, [0, 1])])},
        # cancel of the parent racing the child's root-branch copy
        {"threads": 2, "order": [0, 1], "ops": mk_ops([(0, "bind", 1, None, []), (0, "cancel", 1, None, [0]), (1, "bind", 2, 1, [0])])},
        # cancel of a context racing its own first bind
        {"threads": 3, "order": [0, 1, 2], "ops": mk_ops([(0, "bind", 1, None, []), (1, "bind", 2, 1, [0]), (2, "cancel", 2, None, [])])},
        # grand-parent cancel racing a fast-path bind
        {"threads": 3, "order": [2, 1, 0], "ops": mk_ops([(1, "bind", 1, None, []), (1, "bind", 2, 1, [0]), (2, "bind", 3, 2, [1]), (0, "cancel", 1, None, [1])])},
    ]


CORPUS = [
    # two cancels of the same context + a cancel one level below, children bound concurrently
    {"threads": 4, "order": [3, 1, 0, 2], "ops": mk_ops([
        (1, "bind", 1, None, []), (1, "bind", 2, 1, [0]), (2, "bind", 3, 2, [1]), (3, "bind", 4, 3, [2]),
        (0, "cancel", 1, None, [1]), (2, "cancel", 1, None, [1]), (3, "cancel", 3, None, [2]), (1, "bind", 5, 2, [1])])},
    # siblings / unrelated trees must stay untouched; leaf destroyed while its grand-parent is cancelled
    {"threads": 3, "order": [1, 0, 2], "ops": mk_ops([
        (0, "bind", 1, None, []), (0, "bind", 2, 1, [0]), (1, "bind", 3, 1, [0]), (2, "bind", 6, None, []), (2, "bind", 7, 6, [3]),
        (1, "bind", 4, 3, [2]), (0, "cancel", 2, None, [1]), (2, "cancel", 3, None, [2]), (1, "destroy", 4, None, [5])])},
]


# --------------------------------------------------------------------------------------------------
# running the harness, parsing, replaying on the Lean model
# --------------------------------------------------------------------------------------------------

def build():
    objs = common.shim_runtime_objects()
    return cxx_build("C04", "wb", ["harness/c04/wb.cpp", common.SHIM_SRC],
                     flags=["-O1", "-g", "-fno-access-control", "-I" + REPO + "/src"] + common.SHIM_FLAGS, libs=objs + ["-ldl"])


def build_nat():
    objs = common.shim_runtime_objects()
    return cxx_build("C04", "nat", ["harness/c04/nat.cpp", common.SHIM_SRC],
                     flags=["-O1", "-g", "-fno-access-control", "-I" + REPO + "/src"] + common.SHIM_FLAGS, libs=objs + ["-ldl"])


NAT_PLANS = ["-", "L1:1:b", "L0:1:e,L1:4:b", "X:2", "X:4,L2:5:b", "X:6,L1:2:e", "L1:0:b,L1:2:e,X:5", "L0:0:b,X:3"]


def natural_family(ck, seed, quick):
    """nested parallel_for loops with explicit contexts on the whole runtime (workers steal and bind), monitors only"""
    exe = build_nat()
    n = 40 if quick else 400
    bad, total = [], 0
    for i, plan in enumerate(NAT_PLANS):
        P, W = (3, 3) if i % 2 == 0 else (4, 2)
        rc, out, err = sh([exe, str(P), str(W), plan, "rand", str(seed * 53 + i), str(n)], timeout=1200)
        runs = parse_runs(out)
        total += len(runs)
        for r in runs:
            ck.count(1, ("natural", plan, r["mon"].split(":")[0]))
            if r["mon"] != "ok":
                bad.append((P, W, plan, r))
        if rc not in (0, 1, 3) or not runs:
            bad.append((P, W, plan, {"mon": "harness failed rc=%d %s" % (rc, (out + err)[-200:]), "sched": []}))
    # keep a violation whose schedule reproduces in a fresh process
    chosen = None
    f = os.path.join(common.BUILD, "C04", "confirm_nat.sched")
    for (P, W, plan, r) in sorted(bad, key=lambda b: len(b[3]["sched"]))[:8]:
        if not r["sched"]:
            chosen = chosen or (P, W, plan, r)
            continue
        open(f, "w").write(" ".join(map(str, r["sched"])))
        rc, out, err = sh([exe, str(P), str(W), plan, "replay", f], timeout=300)
        rr = parse_runs(out)
        if rr and rr[0]["mon"] != "ok":
            chosen = (P, W, plan, dict(rr[0], sched=r["sched"]))
            break
    if bad and (chosen is None or not chosen[3]["sched"]):
        # nothing reproduced (the failing runs were later runs of a batch): look for a failing FIRST run of a process
        plans = []
        for (P, W, plan, r) in bad:
            if (P, W, plan) not in plans:
                plans.append((P, W, plan))
        found = None
        for k in range(400 if quick else 3000):
            P, W, plan = plans[k % len(plans)]
            rc, out, err = sh([exe, str(P), str(W), plan, "rand", str(seed * 100003 + 7 * k + 1), "1"], timeout=300)
            rr = parse_runs(out)
            if rr and rr[0]["mon"] != "ok":
                found = (P, W, plan, rr[0])
                break
        if found:
            chosen = found
        elif chosen is None:
            P, W, plan, r = bad[0]
            chosen = (P, W, plan, dict(r, mon=r["mon"] + " [schedule did not reproduce in a fresh process: found in a later run of a batch]"))
    ck.extra.setdefault("schedules", {})["natural_runs"] = total
    ck.oblige("monitor:natural usage (nested parallel_for with explicit contexts, workers, external canceller): reach / overreach / winner / no hang",
              "correspondence", not bad, "" if not bad else "%s | P=%d W=%d plan=%s" % (chosen[3]["mon"], chosen[0], chosen[1], chosen[2]))
    if chosen:
        P, W, plan, r = chosen
        kind = r["mon"].split(":")[0].replace("VIOLATION ", "").split(" ")[0].lower()
        ck.counterexample("natural-" + kind, "%s | nested parallel_for P=%d W=%d cancel plan %s | schedule of %d steps" % (r["mon"], P, W, plan, len(r["sched"])),
                          {"engine": "E-SHIM (whole instrumented runtime, natural usage)", "harness": "nat", "P": P, "W": W, "plan": plan,
                           "schedule": r["sched"], "monitor": r["mon"]})


def parse_runs(out):
    runs, cur = [], None
    for l in out.split("\n"):
        w = l.split()
        if not w:
            continue
        if w[0] == "run":
            cur = {"reg": [], "ev": [], "notes": [], "ctx": {}, "mon": "", "sched": [], "steps": 0}
        elif cur is None:
            continue
        elif w[0] == "reg":
            cur["reg"] = [int(x) for x in w[1:]]
        elif w[0] == "e":
            cur["ev"].append((int(w[1]), w[2], w[3], int(w[4]), int(w[5]), int(w[6])))
        elif w[0] == "n":
            cur["notes"].append((int(w[1]), w[2], int(w[3]), int(w[4])))
        elif w[0] == "ctx":
            cur["ctx"][int(w[1])] = w[2:]
        elif w[0] == "steps":
            cur["steps"] = int(w[1])
        elif w[0] == "mon":
            cur["mon"] = " ".join(w[1:])
        elif w[0] == "sched":
            cur["sched"] = [int(x) for x in w[1:]]
        elif w[0] == "end":
            runs.append(cur)
            cur = None
    return runs


def is_mutex(var):
    return var.startswith("lm") or var in ("regmx", "propmx")


def canon_event(e):
    """harness event -> the model's event text, or None if the access is not a model step
    (failed lock attempts and loads of a mutex flag)."""
    (t, kind, var, a, b, ok) = e
    if is_mutex(var):
        if kind == "xchg" and a == 0 and b == 1:
            return "lock " + var
        if (kind == "xchg" and b == 0) or (kind == "store" and a == 0):
            return "unlock " + var
        return None
    if kind == "load":
        return "load %s %d" % (var, a)
    if kind == "store":
        return "store %s %d" % (var, a)
    if kind == "xchg":
        return "xchg %s %d %d" % (var, a, b)
    if kind == "fadd":
        return "fadd %s %d %d" % (var, a, b)
    if kind == "cas":
        return "cas %s %d %d %s" % (var, a, b, "ok" if ok else "fail")
    return "%s %s %d %d" % (kind, var, a, b)


def model_input(sc, run, facts):
    """driver lines that replay one observed run on CtxTree, and what is needed to judge the answer"""
    T = sc["threads"]
    lines = ["reset", "cfg %d %d" % (facts["propagatorHoldsPropagationMutex"], facts["bindCopyNeverClears"]),
             "reg " + " ".join(map(str, run["reg"]))]
    for t in range(T):
        ops = [o for o in sc["ops"] if o["th"] == t]
        lines.append("prog %d %s" % (t, " ; ".join("%s %d%s" % (o["kind"], o["x"], (" " + ("-" if o["p"] is None else str(o["p"]))) if o["kind"] == "bind" else "") for o in ops)))
    evs = [(e[0], canon_event(e)) for e in run["ev"]]
    evs = [(t, c) for (t, c) in evs if c is not None]
    for (t, c) in evs:
        lines.append("s %d" % t)
    ctxs = sorted(run["ctx"])
    for x in ctxs:
        lines.append("ctx %d" % x)
    for t in range(T):
        lines.append("res %d" % t)
    lines.append("quiet " + " ".join(map(str, range(T))))
    return lines, evs, ctxs


def judge(sc, run, out, evs, ctxs):
    """None if the model reproduced the trace access by access, the results and the final context table; else a description."""
    T = sc["threads"]
    hdr = 3 + T
    if any(o != "ok" for o in out[:hdr]):
        return "model rejected the scenario header: %s" % out[:hdr]
    for i, (t, c) in enumerate(evs):
        m = out[hdr + i].split(" | ")
        if m[0] != c:
            return "access %d (thread %d): implementation `%s`, model `%s`" % (i, t, c, m[0])
        if m[1].split()[2] != "0":
            return "access %d (thread %d): the model flags an API-precondition violation" % (i, t)
    k = hdr + len(evs)
    for j, x in enumerate(ctxs):
        impl, mod = run["ctx"][x], out[k + j].split()
        if impl[0] == "4":
            if mod[0] != "4":
                return "context %d: destroyed in the implementation, state %s in the model" % (x, mod[0])
        elif impl != mod:
            return "context %d at quiescence (state cancel may_have_children parent list): implementation %s, model %s" % (x, impl, mod)
    k += len(ctxs)
    for t in range(T):
        impl = [str(r) for (tt, tag, oid, r) in run["notes"] if tt == t and tag == "ope" and r >= 0]
        if impl != out[k + t].split():
            return "thread %d cancel results: implementation %s, model %s" % (t, impl, out[k + t].split())
    if out[k + T] != "1":
        return "the model still has operations in flight at the end of the trace"
    return None


def replay_many(sc, runs, facts):
    """replays all runs of one scenario in a single driver process; list of verdicts (None = agrees)"""
    parts, text = [], []
    for r in runs:
        lines, evs, ctxs = model_input(sc, r, facts)
        parts.append((len(lines), evs, ctxs))
        text += lines
    if not text:
        return []
    out = drv("c04", "\n".join(text) + "\n")
    res, pos = [], 0
    for r, (n, evs, ctxs) in zip(runs, parts):
        res.append(judge(sc, r, out[pos:pos + n], evs, ctxs))
        pos += n
    return res


def replay_on_model(sc, run, facts):
    return replay_many(sc, [run], facts)[0]


def run_scenario(exe, sc, mode_args, timeout=600):
    rc, out, err = sh([exe] + [str(a) for a in mode_args], input=scenario_text(sc), timeout=timeout)
    runs = parse_runs(out)
    return rc, runs, (out + err)[-400:]


# --------------------------------------------------------------------------------------------------
# classification of a monitor violation by what the trace shows (which window was hit)
# --------------------------------------------------------------------------------------------------

def classify(run):
    """key naming the shape of the failing history"""
    mon = run["mon"]
    m = re.search(r"context (\d+)", mon)
    kind = mon.split(":")[0].replace("VIOLATION ", "") if mon.startswith("VIOLATION") else mon.split(" ")[0]
    if not m:
        return kind.lower()
    x = int(m.group(1))
    ev = run["ev"]
    can = "can%d" % x
    # (a) a binder's copy wrote 0 over a 1 in x (or in the context the message is about)
    val = 0
    for (t, k, var, a, b, ok) in ev:
        if var != can:
            continue
        if k == "xchg":
            val = 1
        elif k == "store":
            if a == 0 and val == 1 and not any(o for o in []):
                # who stored 0 ?  a reset is a seq_cst store by an op of kind reset: the harness never mixes reset with the reach monitor
                return KEY_COPY
            val = a
    if kind == "reach":
        # (b) the binder of x took the fall-back lock while a propagation was between its epoch increment and its end,
        #     and the parent was painted afterwards
        binder = next((t for (t, k, var, a, b, ok) in ev if k == "cas" and var == "st%d" % x and ok), None)
        fb_during = False
        for idx, (t, k, var, a, b, ok) in enumerate(ev):
            if t == binder and var == "propmx" and k == "xchg" and a == 0 and b == 1:
                # a propagation that bumped the epoch before this point and is still syncing lists afterwards
                for c in set(e[0] for e in ev[:idx] if e[1] == "fadd" and e[2] == "G"):
                    started = max(i2 for i2, e in enumerate(ev[:idx]) if e[0] == c and e[1] == "fadd" and e[2] == "G")
                    ended = any(e[0] == c and e[2] == "regmx" and ((e[1] == "xchg" and e[4] == 0) or (e[1] == "store" and e[3] == 0)) for e in ev[started:idx])
                    if not ended and any(e[0] == c and e[1] == "store" and e[2].startswith("ep") for e in ev[idx:]):
                        fb_during = True
        if fb_during:
            return KEY_F2
        return "reach-lost-without-fallback"
    return kind.lower() + "-unclassified"


# --------------------------------------------------------------------------------------------------
# the check
# --------------------------------------------------------------------------------------------------

class Acc:
    """collects correspondence failures and monitor violations over many runs"""

    def __init__(self):
        self.bad_corr, self.viol, self.runs, self.deadlocks, self.cands = [], {}, 0, [], {}

    def confirm(self, exe):
        """A run is reproducible from its schedule only when it was the first run of its harness process (later runs of
        a batch inherit allocator / runtime state).  For every violation key keep the shortest candidate whose schedule
        reproduces the same violation in a fresh process."""
        os.makedirs(os.path.join(common.BUILD, "C04"), exist_ok=True)
        f = os.path.join(common.BUILD, "C04", "confirm.sched")
        for key, cl in self.cands.items():
            cl.sort(key=lambda c: len(c[1]["sched"]))
            chosen = None
            for (sc, r) in cl[:8]:
                open(f, "w").write(" ".join(map(str, r["sched"])))
                rc, runs, tail = run_scenario(exe, sc, ["replay", f])
                if runs and runs[0]["mon"] != "ok" and classify(runs[0]) == key:
                    chosen = (sc, runs[0])
                    break
            if chosen is None:
                # look for a failing FIRST run of a process on the scenarios that failed
                scs = []
                for (sc, r) in cl:
                    if sc not in scs:
                        scs.append(sc)
                for k in range(300):
                    sc = scs[k % len(scs)]
                    rc, runs, tail = run_scenario(exe, sc, ["rand", 900001 + 13 * k, 1])
                    if runs and runs[0]["mon"] != "ok" and classify(runs[0]) == key:
                        chosen = (sc, runs[0])
                        break
            if chosen is None:
                sc, r = cl[0]
                r = dict(r, mon=r["mon"] + " [schedule did not reproduce in a fresh process: found in a later run of a batch]")
                chosen = (sc, r)
            self.viol[key] = chosen

    def add(self, ck, exe, sc, mode_args, facts, family):
        rc, runs, tail = run_scenario(exe, sc, mode_args)
        if rc not in (0, 1, 3) or (not runs and rc != 0):
            self.deadlocks.append((sc, {"mon": "harness failed rc=%d %s" % (rc, tail[-200:]), "sched": [], "ev": []}))
            return
        live = [r for r in runs if not r["mon"].startswith("DEADLOCK")]
        verdicts = dict(zip(map(id, live), replay_many(sc, live, facts)))
        for r in runs:
            self.runs += 1
            kinds = tuple(sorted(set(e[1] + ":" + re.sub(r"\d+", "", e[2]) for e in r["ev"])))
            ck.count(1, (family, sc["threads"], len(sc["ops"]), kinds, tuple(sorted((k, tuple(v[:2])) for k, v in r["ctx"].items()))))
            if r["mon"].startswith("DEADLOCK"):
                self.deadlocks.append((sc, r))
                continue
            d = verdicts[id(r)]
            ck.traces_validated += 1
            if d:
                self.bad_corr.append((sc, r, d))
            if r["mon"] != "ok":
                self.cands.setdefault(classify(r), []).append((sc, r))
        if self.runs <= 40 and runs:
            ck.sample({"family": family, "scenario": scenario_text(sc).split("\n")[:-2], "registry": runs[0]["reg"],
                       "trace_head": [" ".join(map(str, e)) for e in runs[0]["ev"][:14]], "monitor": runs[0]["mon"]}, cap=5)


def cex_obj(sc, r, key):
    return {"engine": "E-SHIM (whole instrumented runtime, white-box op program)", "key": key, "scenario": sc, "registry_walk_order": r["reg"],
            "schedule": r["sched"], "monitor": r["mon"], "final_contexts(state cancel mhc parent list)": r["ctx"],
            "trace(tid kind var a b ok)": [" ".join(map(str, e)) for e in r["ev"][:400]]}


def run(ck):
    quick = ck.tier == "quick"
    ck.rule = ("E-SHIM on the whole instrumented runtime: hand-written contention scenarios + seeded random op programs (context forests of depth <= 4, "
               "2-4 threads with their own context lists, cancels at several levels incl. before/while the context is first bound, racing binds of "
               "one context, destroy of leaves, random registry orders), each under seeded random schedules; state-guided schedules for the two "
               "binding windows; every trace is replayed access by access on CtxTree; distinct = (family, #threads, #ops, access kinds, final table)")
    ck.assumptions += [
        "proved on the model CtxTree (any number of threads/contexts, any programs, all schedules, sequentially consistent interleavings): "
        "single winner, no overreach, stickiness, and cancel_reaches_all_bound for the protocol in which the propagator holds the binder's "
        "fall-back mutex and the binder's copies cannot clear the flag (both facts regenerated from the source)",
        "store-buffer (TSO) reordering of the relaxed accesses is NOT modelled: the shim serialises accesses; memory orders are not compared",
        "the registry of threads is fixed during a run: registration / exit of threads (context-list orphaning) while cancels are in flight is not "
        "modelled; all context lists start with epoch = global epoch",
        "reset is modelled but excluded from the reach theorem and reach monitor (the API forbids concurrent use); FPU settings, ITT, exceptions not modelled",
        "agreement of model and implementation is sampled (the traces explored), not proved"]
    ck.trusted += ["checks/c04.py source extractor (E-GEN; cross-checked by the trace replay: a wrong fact makes the model diverge from the trace)",
                   "harness/shim (atomic shim + baton scheduler)", "harness/c04/wb.cpp (white-box op driver, monitors)", "trace canonicalisation in checks/c04.py"]
    facts = gen(ck)
    ck.lean_stage()
    exe = build()
    acc = Acc()
    seed = ck.seed
    # A. corpus + random scenarios under random schedules
    nsc, nsched = (80, 25) if quick else (500, 60)
    for i, sc in enumerate(CORPUS + copy_scenarios()):
        acc.add(ck, exe, sc, ["rand", seed * 131 + i, 40 if quick else 400], facts, "corpus")
    for i in range(nsc):
        sc = random_scenario(ck.rng, allow_reset=(i % 8 == 7))
        acc.add(ck, exe, sc, ["rand", seed * 1009 + i, nsched], facts, "random")
    # B. the two binding windows: state-guided schedule + seeded random schedules on padded variants
    acc.add(ck, exe, f2_scenario(), ["guide", "x"], facts, "f2-guided")
    for (ec, pad) in [(1, 0), (2, 4), (3, 8)]:
        sc = f2_scenario(ec, pad)
        sc.pop("guide", None)
        acc.add(ck, exe, sc, ["rand", seed * 17 + 7, 400 if quick else 3000], facts, "f2-random")
    acc.confirm(exe)
    ck.extra["schedules"] = {"runs": acc.runs}
    # obligations
    ck.oblige("corr:atomic-access trace of the context/epoch/mutex variables replays on CtxTree (accesses, values, results, final table)",
              "correspondence", not acc.bad_corr,
              "" if not acc.bad_corr else "%s | scenario: %s | registry %s" % (acc.bad_corr[0][2], scenario_text(acc.bad_corr[0][0]).replace("\n", " / "), acc.bad_corr[0][1]["reg"]))
    o_dead = ck.oblige("monitor:no deadlock (lock order registry -> propagation -> list; binder list, then propagation)", "correspondence", not acc.deadlocks,
                       "" if not acc.deadlocks else acc.deadlocks[0][1]["mon"])
    reach = {k: v for k, v in acc.viol.items() if v[1]["mon"].startswith("VIOLATION reach")}
    other = {k: v for k, v in acc.viol.items() if k not in reach}
    ck.oblige("monitor:bound beneath cancelled => cancelled at quiescence", "correspondence", not reach,
              "; ".join("%s: %s" % (k, v[1]["mon"]) for k, v in reach.items()))
    ck.oblige("monitor:exactly one true per cancellation, sticky until reset, nothing outside the subtree marked", "correspondence", not other,
              "; ".join("%s: %s" % (k, v[1]["mon"]) for k, v in other.items()))
    for key, (sc, r) in sorted(acc.viol.items()):
        ck.counterexample(key, "%s | scenario: %s | registry walk order %s | schedule of %d steps" % (
            r["mon"], scenario_text(sc).replace("\n", " / "), r["reg"], len(r["sched"])), cex_obj(sc, r, key))
    for sc, r in acc.deadlocks[:1]:
        ck.counterexample("deadlock", r["mon"], cex_obj(sc, dict(r, reg=r.get("reg", []), ctx=r.get("ctx", {})), "deadlock"))
    if acc.bad_corr and not acc.viol:
        # the model no longer describes the code: look harder for a property failure before giving up
        for i in range(60 if quick else 400):
            acc.add(ck, exe, random_scenario(ck.rng), ["rand", seed * 7001 + i, 40], facts, "search")
        acc.confirm(exe)
        for key, (sc, r) in sorted(acc.viol.items()):
            ck.counterexample(key, r["mon"], cex_obj(sc, r, key))
    natural_family(ck, seed, quick)
    # broken generated facts are explained by the counterexamples that exhibit them
    for o in ck.obligations:
        if not o["ok"] and ((KEY_F2 in acc.viol and ("propagatorHoldsPropagationMutex" in o["name"] or "bound beneath" in o["name"]))
                            or (KEY_COPY in acc.viol and ("bindCopyNeverClears" in o["name"] or "exactly one true" in o["name"]))):
            if set(acc.viol) <= {KEY_F2, KEY_COPY}:
                o["explained"] = True


def replay(ck, obj):
    r = obj["replay"]
    if r.get("harness") == "nat":
        exe = build_nat()
        os.makedirs(os.path.join(common.BUILD, "C04"), exist_ok=True)
        f = os.path.join(common.BUILD, "C04", "replay.sched")
        open(f, "w").write(" ".join(map(str, r["schedule"])))
        rc, out, err = sh([exe, str(r["P"]), str(r["W"]), r["plan"], "replay", f], timeout=600)
        runs = parse_runs(out)
        for x in runs:
            print("monitor:", x["mon"])
        return 0 if runs and all(x["mon"] == "ok" for x in runs) else 1
    exe = build()
    os.makedirs(os.path.join(common.BUILD, "C04"), exist_ok=True)
    f = os.path.join(common.BUILD, "C04", "replay.sched")
    open(f, "w").write(" ".join(map(str, r["schedule"])))
    rc, runs, tail = run_scenario(exe, r["scenario"], ["replay", f])
    for x in runs:
        print("registry walk order:", x["reg"])
        for e in x["ev"]:
            print("  ", *e)
        print("final contexts (state cancel mhc parent list):", x["ctx"])
        print("monitor:", x["mon"])
    if not runs:
        print("harness failed:", tail)
        return 1
    return 0 if all(x["mon"] == "ok" for x in runs) else 1
