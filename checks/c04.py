"""C04 — cancellation reaches every descendant context and nothing else; one winner (DESIGN.md §3 C04, §4 F2).

E-GEN : three facts about the protocol are re-extracted from the source on every run and written to Generated/C04.lean:
          propagatorHoldsPropagationMutex  (the lock taken by bind_to_impl's fall-back is held by the propagator for the walk)
          bindCopyNeverClears              (bind_to_impl's copies of the parent's flag can only store "cancelled")
          resetStores / resetSeqCode       (exactly which members of its context task_group_context_impl::reset stores to, in
                                            program order; the model's reset step performs the modelled ones in that order)
        The Lean model `CtxTree` is parameterised by them; the main theorems are stated over the generated values.
E-SHIM: white-box op programs (bind / cancel / destroy / reset over context trees, 2-4 external threads, each with its
        own context list) run on the WHOLE instrumented runtime under seeded random schedules; the atomic-access trace
        restricted to the context / epoch / mutex variables is replayed access by access on `CtxTree` (instantiated with
        the generated facts); implementation-side monitors at quiescence check the property itself.
Search: targeted scenarios for the two windows (fall-back lock not held by the propagator; stale copy overwriting a
        painted flag) under many seeds; any failing schedule is the replay."""
import json
import os
import re

import common
from common import REPO, cxx_build, drv, gen_write, log, sh

SRC = os.path.join(REPO, "src", "tbb")
MUTEX_VARS = ("lm", "regmx", "propmx")

KEY_F2 = "bind-fallback-lock-not-held-by-propagator"
KEY_COPY = "bind-copy-overwrites-cancel-flag"


# --------------------------------------------------------------------------------------------------
# E-GEN: source extractor
# --------------------------------------------------------------------------------------------------

def strip_comments(s):
    s = re.sub(r"/\*.*?\*/", lambda m: re.sub(r"[^\n]", " ", m.group(0)), s, flags=re.S)
    return re.sub(r"//[^\n]*", "", s)


def function_body(text, header_re):
    """Body (between the outermost braces) of the first function whose header matches header_re."""
    m = re.search(header_re, text)
    if not m:
        return None
    i = text.find("{", m.end())
    if i < 0:
        return None
    depth, j = 0, i
    while j < len(text):
        if text[j] == "{":
            depth += 1
        elif text[j] == "}":
            depth -= 1
            if depth == 0:
                return text[i + 1:j]
        j += 1
    return None


LOCK_RE = re.compile(r"scoped_lock\s+\w+\s*[({]\s*([\w.:>\-]+?)\s*[)}]\s*;")


def locks_held_at(body, pos):
    """Names of the mutexes locked by scoped_lock objects that are still in scope at offset `pos` of `body`."""
    held, stack = [], [[]]
    i = 0
    while i < pos:
        c = body[i]
        if c == "{":
            stack.append([])
        elif c == "}":
            if len(stack) > 1:
                stack.pop()
        else:
            m = LOCK_RE.match(body, i)
            if m:
                stack[-1].append(m.group(1).split("->")[-1].split(".")[-1].split("::")[-1])
                i = m.end()
                continue
        i += 1
    for fr in stack:
        held += fr
    return held


def extract_facts():
    """Returns (facts dict, problems list)."""
    problems = []
    dis = strip_comments(open(os.path.join(SRC, "cancellation_disseminator.h")).read())
    tgc = strip_comments(open(os.path.join(SRC, "task_group_context.cpp")).read())
    tc = strip_comments(open(os.path.join(SRC, "threading_control.cpp")).read())
    # 1. locks the propagator holds when it bumps the epoch and while it walks the lists
    prop = function_body(dis, r"bool\s+propagate_task_group_state\s*\(")
    plocks = []
    if prop is None:
        problems.append("cancellation_disseminator::propagate_task_group_state not found")
    else:
        me = re.search(r"\+\+\s*the_context_state_propagation_epoch|the_context_state_propagation_epoch\s*(\+\+|\+=|\.fetch_add)", prop)
        mw = re.search(r"\.propagate_task_group_state\s*\(", prop)
        if not me or not mw:
            problems.append("epoch increment or list walk not recognised in the propagator")
        else:
            at_epoch = locks_held_at(prop, me.start())
            at_walk_end = locks_held_at(prop, prop.rfind("return"))
            plocks = [l for l in at_epoch if l in at_walk_end]
    # wrappers that could hold a lock around the call
    for hdr in (r"void\s+threading_control_impl::propagate_task_group_state\s*\(", r"void\s+threading_control::propagate_task_group_state\s*\("):
        b = function_body(tc, hdr)
        if b is not None:
            mc = re.search(r"propagate_task_group_state\s*\(", b)
            if mc:
                plocks += locks_held_at(b, mc.start())
    # 2. the lock of the binder's fall-back
    bind = function_body(tgc, r"void\s+task_group_context_impl::bind_to_impl\s*\(")
    fallback = None
    if bind is None:
        problems.append("task_group_context_impl::bind_to_impl not found")
        bind = ""
    else:
        mi = re.search(r"if\s*\(\s*local_count_snapshot\s*!=\s*the_context_state_propagation_epoch[^)]*\)\s*\)\s*\{", bind)
        if not mi:
            problems.append("epoch comparison of the binder's fall-back not recognised")
        else:
            blk = bind[mi.end():]
            end = blk.find("}")
            ml = LOCK_RE.search(blk[:end])
            if ml:
                fallback = ml.group(1).split("::")[-1]
            else:
                problems.append("the binder's fall-back takes no scoped_lock")
    # 3. can a copy of the parent's flag store 0 ?
    stores = list(re.finditer(r"ctx\.my_cancellation_requested\.store\s*\(", bind))
    never_clears = bool(stores)
    if not stores:
        problems.append("no store to ctx.my_cancellation_requested in bind_to_impl")
    for m in stores:
        arg = bind[m.end():m.end() + 160]
        before = bind[max(0, m.start() - 200):m.start()]
        if re.match(r"\s*ctx\.my_parent->my_cancellation_requested\.load", arg):
            never_clears = False          # unconditional copy of whatever the parent's flag is
        elif re.match(r"\s*(1|true|(std::)?uint32_t\s*[({]\s*1\s*[)}])\s*,", arg):
            guard = re.search(r"if\s*\(\s*ctx\.my_parent->my_cancellation_requested\.load\s*\([^)]*\)\s*(!=\s*0\s*)?\)\s*\{?\s*$", before)
            if not guard:
                never_clears = False
                problems.append("a constant store to the flag in bind_to_impl is not guarded by the parent's flag")
        else:
            never_clears = False
            problems.append("unrecognised store to ctx.my_cancellation_requested in bind_to_impl")
    # 4. which members of its own context does reset() store to, in program order ?
    rs = function_body(tgc, r"void\s+task_group_context_impl::reset\s*\(")
    reset_stores, reset_codes = [], []
    MODELLED = {"my_cancellation_requested": 0, "my_may_have_children": 1}
    UNMODELLED_OK = {"my_exception"}
    if rs is None:
        problems.append("task_group_context_impl::reset not found")
    else:
        pat = re.compile(r"(?P<obj>[\w.>\-]*?)\b(?P<f>my_\w+)\s*(?:\.\s*(?P<m>store|exchange|fetch_\w+|compare_exchange_\w+)\s*\(\s*(?P<a>[^,)]*)|(?P<op>=|\+=|-=|\|=|&=|\+\+|--)(?!=)\s*(?P<v>[^;]*);)")
        for m in pat.finditer(rs):
            obj, f = m.group("obj"), m.group("f")
            if f in MODELLED and rs[:m.start()].count("{") != rs[:m.start()].count("}"):
                problems.append("reset stores to %s inside a nested block (conditionally): the model's reset stores unconditionally" % f)
            val = (m.group("a") if m.group("m") else m.group("v")) or ""
            val = val.strip()
            if obj != "ctx.":
                problems.append("reset writes %s%s: not a member of its own context" % (obj, f))
                continue
            reset_stores.append(f)
            if f in MODELLED:
                if (m.group("m") in (None, "store")) and m.group("op") in (None, "=") and re.fullmatch(r"0|false|(std::)?uint32_t\s*[({]\s*0\s*[)}]|(d1::)?task_group_context::\w*no_children\w*", val or "x"):
                    reset_codes.append(MODELLED[f])
                else:
                    problems.append("reset writes %s with an unrecognised value `%s`" % (f, val))
            elif f not in UNMODELLED_OK:
                problems.append("reset writes %s, which the model does not expect reset to touch" % f)
    facts = {
        "resetStores": reset_stores,
        "resetSeqCode": reset_codes,
        "resetClearsCancelFlag": 0 in reset_codes,
        "resetClearsMayHaveChildren": 1 in reset_codes,
        "propagatorLocks": sorted(set(plocks)),
        "fallbackLock": fallback or "?",
        "propagatorHoldsPropagationMutex": bool(fallback) and fallback in plocks,
        "bindCopyNeverClears": never_clears,
        "bindCopySites": len(stores),
    }
    return facts, problems


def gen(ck):
    facts, problems = extract_facts()
    ck.extra["generated_facts"] = facts
    lb = lambda b: "true" if b else "false"
    body = ("/-- the mutex bind_to_impl's fall-back locks -/\ndef fallbackLock : String := %s\n"
            "/-- mutexes the propagator holds from the epoch increment to the end of the walk -/\ndef propagatorLocks : List String := [%s]\n"
            "def propagatorHoldsPropagationMutex : Bool := %s\n"
            "def bindCopyNeverClears : Bool := %s\n"
            "/-- the members of its own context that task_group_context_impl::reset stores to, in program order -/\n"
            "def resetStores : List String := [%s]\n"
            "/-- the stores of reset to the modelled fields, in program order (0 = my_cancellation_requested := 0, 1 = my_may_have_children := 0) -/\n"
            "def resetSeqCode : List Nat := [%s]\n"
            "def resetClearsCancelFlag : Bool := resetSeqCode.contains 0\n"
            "def resetClearsMayHaveChildren : Bool := resetSeqCode.contains 1\n") % (
        json.dumps(facts["fallbackLock"]), ", ".join(json.dumps(x) for x in facts["propagatorLocks"]),
        lb(facts["propagatorHoldsPropagationMutex"]), lb(facts["bindCopyNeverClears"]),
        ", ".join(json.dumps(x) for x in facts["resetStores"]), ", ".join(str(c) for c in facts["resetSeqCode"]))
    gen_write("C04", body)
    ck.oblige("gen:source shapes recognised (propagator locks, binder fall-back lock, binder copy sites)", "generated", not problems, "; ".join(problems))
    o1 = ck.oblige("gen:propagatorHoldsPropagationMutex — hypothesis of cancel_reaches_all_bound", "generated", facts["propagatorHoldsPropagationMutex"],
                   "binder's fall-back locks %s; the propagator holds %s during the walk" % (facts["fallbackLock"], facts["propagatorLocks"]))
    o2 = ck.oblige("gen:bindCopyNeverClears — hypothesis of cancel_reaches_all_bound and cancel_sticky", "generated", facts["bindCopyNeverClears"],
                   "bind_to_impl copies the parent's flag with an unconditional load+store pair (%d sites): it can write 0 over a 1" % facts["bindCopySites"])
    ck.oblige("gen:resetKeepsMayHaveChildren — hypothesis of mhc_monotone_while_children and cancel_reaches_all_bound_with_reset", "generated",
              not facts["resetClearsMayHaveChildren"],
              "task_group_context_impl::reset stores to %s: it clears my_may_have_children although children may stay bound across the reset, so the "
              "next cancel_group_execution skips the propagation (Props.reach_fails_when_reset_clears_hint)" % facts["resetStores"])
    ck.oblige("gen:resetClearsCancelFlag — reset stores 0 to my_cancellation_requested (task_group reuse; 'cancelled until it is reset')", "generated",
              facts["resetClearsCancelFlag"], "task_group_context_impl::reset stores to %s" % facts["resetStores"])
    return facts


def reset_word(facts):
    return "".join("cm"[c] for c in facts["resetSeqCode"]) or "-"


# --------------------------------------------------------------------------------------------------
# scenarios: a global, sequentially valid list of ops distributed over threads; deps = ops that must have completed
# --------------------------------------------------------------------------------------------------

def scenario_text(sc):
    lines = ["threads %d" % sc["threads"], "order " + " ".join(map(str, sc["order"]))]
    for o in sc["ops"]:
        lines.append("op %d %d %s %d %s %s" % (o["id"], o["th"], o["kind"], o["x"], "-" if o["p"] is None else o["p"],
                                               ",".join(map(str, o["deps"])) if o["deps"] else "-"))
    for (t, conds) in sc.get("guide", []):
        lines.append("guide %d %s" % (t, ",".join("%s=%d" % kv for kv in conds)))
    return "\n".join(lines) + "\ngo\n"


def mk_ops(raw):
    """raw: list of (thread, kind, x, p, deps) -> op dicts with ids"""
    return [{"id": i, "th": t, "kind": k, "x": x, "p": p, "deps": list(d)} for i, (t, k, x, p, d) in enumerate(raw)]


def random_scenario(rng, allow_reset=False):
    """A random context forest of depth <= 4 built, cancelled at several levels and partly destroyed by 2-4 threads."""
    T = rng.choice([2, 3, 3, 4])
    order = list(range(T))
    rng.shuffle(order)
    nctx = rng.randrange(3, 9)
    raw, bind_op, depth, parent, children, last_use = [], {}, {}, {}, {}, {}
    live = []

    after = {}      # context -> id of its latest reset (later uses of the context wait for it: reset is not concurrent-safe)

    def add(t, kind, x, p, deps):
        deps = list(deps) + [after.get(x), after.get(p) if p is not None else None]
        raw.append((t, kind, x, p, sorted(set(d for d in deps if d is not None))))
        return len(raw) - 1
    # a prefix of binds makes some tree exist before the races start; the rest is interleaved with cancels
    nxt = 1
    budget = rng.randrange(6, 16)
    destroyed = set()
    while budget > 0:
        budget -= 1
        r = rng.random()
        t = rng.randrange(T)
        if (r < 0.5 or not live) and nxt <= nctx:
            x = nxt
            nxt += 1
            cands = [c for c in live if depth[c] < 3 and c not in destroyed]
            p = rng.choice(cands) if cands and rng.random() < 0.8 else None
            deps = [bind_op[p]] if p is not None else []
            i = add(t, "bind", x, p, deps)
            bind_op[x], depth[x], parent[x] = i, (depth[p] + 1 if p is not None else 0), p
            children.setdefault(x, [])
            if p is not None:
                children[p].append(x)
            last_use.setdefault(x, []).append(i)
            if p is not None:
                last_use[p].append(i)
            live.append(x)
            if rng.random() < 0.15:      # a second thread races for the same bind
                t2 = rng.randrange(T)
                j = add(t2, "bind", x, p, deps)
                last_use[x].append(j)
                if p is not None:
                    last_use[p].append(j)
        elif r < 0.85 and live:
            x = rng.choice([c for c in live if c not in destroyed] or live)
            if x in destroyed:
                continue
            early = rng.random() < 0.25      # cancel racing with (or preceding) the first bind of x
            i = add(t, "cancel", x, None, [] if early else [bind_op[x]] if rng.random() < 0.6 else [])
            last_use[x].append(i)
        elif r < 0.93 and live:
            leaves = [c for c in live if c not in destroyed and all(ch in destroyed for ch in children[c])]
            if leaves:
                x = rng.choice(leaves)
                i = add(t, "destroy", x, None, last_use[x])
                destroyed.add(x)
                if parent[x] is not None:
                    last_use[parent[x]].append(i)
        elif allow_reset and live:
            x = rng.choice(live)
            if x not in destroyed and not children[x]:
                i = add(t, "reset", x, None, last_use[x])
                last_use[x].append(i)
                after[x] = i
    return {"threads": T, "order": order, "ops": mk_ops(raw)}


def f2_scenario(extra_children=1, pad=0):
    """The window of DESIGN §4-F2: C1 <- C2 live in X's list (thread 1); B (thread 2) binds fresh children of C2 while
    thread 0 cancels C1; registry order B before X (X creates its thread_data after B: push_front)."""
    raw = [(1, "bind", 1, None, []), (1, "bind", 2, 1, [0])]
    for k in range(pad):
        raw.append((1, "bind", 20 + k, 1, [0]))
    for k in range(extra_children):
        raw.append((2, "bind", 5 + k, 2, [1]))
    raw.append((0, "cancel", 1, None, [1]))
    # guide: X builds C1 <- C2; the canceller runs until it has synced and unlocked B's (empty) list; B binds C5 completely;
    # then everybody runs to the end
    guide = [(1, [("st2", 3)]), (0, [("G", 1), ("ep2", 1), ("lm2", 0)]), (2, [("st5", 3)])]
    return {"threads": 3, "order": [0, 1, 2], "ops": mk_ops(raw), "guide": guide}


def copy_scenarios():
    """Windows of the unconditional load+store copy in bind_to_impl."""
    return [
        # cancel before the first use, then bind under a non-default parent (sequential)
        {"threads": 2, "order": [0, 1], "ops": mk_ops([(0, "bind", 1, None, []), (1, "cancel", 2, None, []), (1, "bind", 2, 1, [0, 1])])},
        # cancel of the parent racing the child's root-branch copy
        {"threads": 2, "order": [0, 1], "ops": mk_ops([(0, "bind", 1, None, []), (0, "cancel", 1, None, [0]), (1, "bind", 2, 1, [0])])},
        # cancel of a context racing its own first bind
        {"threads": 3, "order": [0, 1, 2], "ops": mk_ops([(0, "bind", 1, None, []), (1, "bind", 2, 1, [0]), (2, "cancel", 2, None, [])])},
        # grand-parent cancel racing a fast-path bind
        {"threads": 3, "order": [2, 1, 0], "ops": mk_ops([(1, "bind", 1, None, []), (1, "bind", 2, 1, [0]), (2, "bind", 3, 2, [1]), (0, "cancel", 1, None, [1])])},
    ]


# --------------------------------------------------------------------------------------------------
# scenarios with resets of contexts that have bound children, and the sequential specification they are judged by
# --------------------------------------------------------------------------------------------------

def scenario_tree(sc):
    parent = {}
    for o in sc["ops"]:
        if o["kind"] == "bind" and o["x"] not in parent:
            parent[o["x"]] = o["p"]
    return parent


def ancestors_of(parent, x):
    out, a = [], parent.get(x)
    while a is not None and a not in out:
        out.append(a)
        a = parent.get(a)
    return out


def order_closure(sc):
    """before[i] = ids of the ops that are guaranteed to have completed when op i starts (deps + program order, transitively)"""
    before, last = {}, {}
    for o in sorted(sc["ops"], key=lambda o: o["id"]):
        preds = set(o["deps"])
        if o["th"] in last:
            preds.add(last[o["th"]])
        acc = set(preds)
        for q in preds:
            acc |= before[q]
        before[o["id"]] = acc
        last[o["th"]] = o["id"]
    return before


def orphaning_exit(sc):
    """does some thread exit while a context it may have bound is (possibly) still alive ?  Then the sequential specification
    does not apply: the code is known to lose such contexts (finding orphaned-list-not-reached)."""
    before = order_closure(sc)
    for e in sc["ops"]:
        if e["kind"] != "exit":
            continue
        for b in sc["ops"]:
            if b["kind"] == "bind" and b["th"] == e["th"] and b["p"] is not None:
                dead = any(d["kind"] == "destroy" and d["x"] == b["x"] and d["id"] in before[e["id"]] for d in sc["ops"])
                if not dead:
                    return True
    return False


def reset_sequencing(sc):
    """(disciplined, fully_sequenced): disciplined = every reset(x) is ordered w.r.t. every other op on x or on a context bound
    beneath x (the documented precondition of reset); fully sequenced = additionally ordered w.r.t. every cancel of a proper
    ancestor of x, so that the final flags are a function of the program alone."""
    parent = scenario_tree(sc)
    before = order_closure(sc)
    disciplined = full = True
    for r in sc["ops"]:
        if r["kind"] != "reset":
            continue
        x = r["x"]
        anc = set(ancestors_of(parent, x))
        for o in sc["ops"]:
            if o["id"] == r["id"] or o["kind"] in ("register", "exit"):
                continue
            ordered = o["id"] in before[r["id"]] or r["id"] in before[o["id"]]
            if ordered:
                continue
            in_sub = lambda y: y is not None and (y == x or x in ancestors_of(parent, y))
            if in_sub(o["x"]) or (o["kind"] == "bind" and in_sub(o["p"])):
                disciplined = full = False
            elif o["kind"] == "cancel" and o["x"] in anc:
                full = False
    return disciplined, full


def spec_table(sc):
    """final (state, cancelled) of every context under the sequential specification of the property, executing the ops in id
    order (a linear extension of the scenario's partial order).  For fully sequenced scenarios every linear extension gives the
    same flags — that IS the property: a bind racing a cancel ends cancelled either way."""
    parent = scenario_tree(sc)
    state, can = {}, {}
    for o in sorted(sc["ops"], key=lambda o: o["id"]):
        if o["kind"] in ("register", "exit"):
            continue
        x = o["x"]
        state.setdefault(x, 0)
        can.setdefault(x, 0)
        if state[x] == 4:
            continue
        if o["kind"] == "bind":
            if state[x] == 0:
                if o["p"] is None:
                    state[x] = 2
                else:
                    state[x] = 3
                    if can.get(o["p"], 0):
                        can[x] = 1
        elif o["kind"] == "cancel":
            if not can[x]:
                can[x] = 1
                for y in list(state):
                    if state[y] == 3 and x in ancestors_of(parent, y):
                        # only contexts whose chain up to x is bound (a parent is always bound before its children)
                        can[y] = 1
        elif o["kind"] == "reset":
            can[x] = 0
        elif o["kind"] == "destroy":
            state[x] = 4
    return state, can


def apply_spec(sc, run):
    """Sequential-specification monitor (implementation side, independent of the Lean model): for a fully sequenced scenario
    the final table of the real runtime must be the table of the sequential specification."""
    if "spec" not in sc:
        d, f = reset_sequencing(sc)
        f = f and not orphaning_exit(sc)
        sc["spec"] = {"disciplined": d, "full": f}
        if f:
            st, can = spec_table(sc)
            sc["spec"]["state"], sc["spec"]["can"] = {str(k): v for k, v in st.items()}, {str(k): v for k, v in can.items()}
    if not sc["spec"]["full"] or run["mon"] != "ok":
        return
    for x, row in sorted(run["ctx"].items()):
        est, ecan = sc["spec"]["state"].get(str(x)), sc["spec"]["can"].get(str(x))
        if est is None or est == 4 or row[0] == "4":
            continue
        if int(row[1]) != ecan:
            if ecan:
                run["mon"] = ("VIOLATION spec-reach: context %d must be cancelled at quiescence (the program is fully sequenced with respect to its "
                              "resets; sequential specification: cancelled) and is not" % x)
            else:
                run["mon"] = ("VIOLATION spec-overreach: context %d is cancelled at quiescence although the sequential specification of the fully "
                              "sequenced program leaves it uncancelled (last operation on it was a reset, or nothing above it was cancelled since)" % x)
            return


def reset_rounds_scenario(rng, mode=None):
    """Context trees whose inner nodes are reset between rounds of cancellation and cancelled again.
    modes: leaf-first (the whole cancelled subtree is reset, children before parents), root-only (children keep their flags),
    mid-only (one intermediate context), subset (random subset, children before parents), race (resets of a child subtree
    run concurrently with a cancel of a proper ancestor: disciplined, not fully sequenced)."""
    mode = mode or rng.choice(["leaf-first", "leaf-first", "root-only", "root-only", "mid-only", "subset", "race"])
    T = rng.choice([2, 3, 3, 4])
    order = list(range(T))
    rng.shuffle(order)
    raw, bind_op, parent, depth, children = [], {}, {}, {}, {}

    def add(t, kind, x, p, deps):
        raw.append((t, kind, x, p, sorted(set(deps))))
        return len(raw) - 1

    def new_ctx(x, p, deps):
        t = rng.randrange(T)
        i = add(t, "bind", x, p, list(deps) + ([bind_op[p]] if p is not None else []))
        bind_op[x], parent[x], depth[x] = i, p, (depth[p] + 1 if p is not None else 0)
        children.setdefault(x, [])
        if p is not None:
            children[p].append(x)
        return i

    def subtree(x):
        out = [x]
        for c in children[x]:
            out += subtree(c)
        return out

    def postorder(x):
        out = []
        for c in children[x]:
            out += postorder(c)
        return out + [x]
    # the tree: root 1 (isolated), a chain/bush of depth 1-3 beneath it
    nxt = 1
    new_ctx(nxt, None, [])
    nxt += 1
    want_depth = rng.choice([1, 2, 2, 3, 3])
    for d in range(1, want_depth + 1):
        cands = [c for c in parent if depth[c] == d - 1]
        for _ in range(rng.choice([1, 1, 2])):
            new_ctx(nxt, rng.choice(cands), [])
            nxt += 1
    rounds = rng.choice([2, 2, 3])
    barrier = []
    for rd in range(rounds):
        inner = [c for c in parent if children[c]]
        src = rng.choice(inner if inner and rng.random() < 0.8 else list(parent))
        # a few fresh children bound while the cancel runs
        ops_round = []
        for _ in range(rng.choice([0, 1, 1, 2])):
            if nxt >= 40:
                break
            cands = [c for c in parent if depth[c] < 3]
            ops_round.append(new_ctx(nxt, rng.choice(cands), barrier))
            nxt += 1
        ncan = rng.choice([1, 1, 2])
        for k in range(ncan):
            tgt = src if k == 0 else rng.choice(list(parent))
            ops_round.append(add(rng.randrange(T), "cancel", tgt, None, barrier + [bind_op[tgt]]))
        all_so_far = list(range(len(raw)))
        if rd == rounds - 1:
            break
        # resets between the rounds
        if mode in ("leaf-first",):
            targets = postorder(src)
        elif mode == "root-only":
            targets = [src]
        elif mode == "mid-only":
            mids = [c for c in subtree(src) if c != src and children[c]]
            targets = [rng.choice(mids)] if mids else [src]
        elif mode == "subset":
            targets = [c for c in postorder(src) if rng.random() < 0.6] or [src]
        else:  # race: reset a child subtree while an ancestor is cancelled (again)
            kids = [c for c in subtree(src) if c != src]
            sub = rng.choice(kids) if kids else src
            targets = postorder(sub)
        reset_id = {}
        for x in targets:
            below = [reset_id[y] for y in subtree(x) if y in reset_id]
            reset_id[x] = add(rng.randrange(T), "reset", x, None, all_so_far + below)
        if mode == "race" and targets and targets[-1] != src:
            # a cancel of a proper ancestor of the reset subtree, ordered only after the previous round
            top = targets[-1]
            anc = ancestors_of(parent, top)
            add(rng.randrange(T), "cancel", rng.choice(anc), None, all_so_far)
        barrier = list(range(len(raw)))
    return {"threads": T, "order": order, "ops": mk_ops(raw), "family": "reset-" + mode}


def registry_scenario(rng, orphaning=None):
    """Threads that create their thread_data during the run (`register`: a new context list with epoch 0 whatever the global
    epoch is) and threads that exit (`exit`: unregister + orphan the list) while cancels and binds are in flight.
    orphaning = False: an exiting thread has bound nothing beneath a parent, or has destroyed what it bound (the sequential
    specification applies); True: it leaves live contexts behind in its orphaned list (known finding)."""
    if orphaning is None:
        orphaning = rng.random() < 0.35
    T = rng.choice([3, 3, 4])
    order = list(range(T))
    rng.shuffle(order)
    late = [t for t in range(1, T) if rng.random() < 0.5]
    leaving = [t for t in range(1, T) if rng.random() < 0.6] or [rng.randrange(1, T)]
    raw, bind_op, parent, depth, children, binder = [], {}, {}, {}, {}, {}
    started = set(t for t in range(T) if t not in late)

    def add(t, kind, x, p, deps):
        if t not in started:
            # the thread's first op: create its thread_data now (possibly after some earlier ops, so that the global epoch has moved)
            pre = [i for i in range(len(raw)) if rng.random() < 0.5]
            raw.append((t, "register", 0, None, pre[-2:]))
            started.add(t)
        raw.append((t, kind, x, p, sorted(set(deps))))
        return len(raw) - 1
    alive_threads = lambda: [t for t in range(T) if t not in gone]
    gone, dead = set(), set()
    nxt = 1
    # a root and a first level, bound by threads that stay or leave
    r0 = add(0, "bind", nxt, None, [])
    bind_op[nxt], parent[nxt], depth[nxt], children[nxt], binder[nxt] = r0, None, 0, [], 0
    nxt += 1
    budget = rng.randrange(8, 16)
    last_use = {}
    while budget > 0:
        budget -= 1
        t = rng.choice(alive_threads())
        r = rng.random()
        if r < 0.5 and nxt < 30:
            cands = [c for c in parent if depth[c] < 3 and c not in dead]
            p = rng.choice(cands)
            i = add(t, "bind", nxt, p, [bind_op[p]])
            bind_op[nxt], parent[nxt], depth[nxt], children[nxt], binder[nxt] = i, p, depth[p] + 1, [], t
            children[p].append(nxt)
            last_use.setdefault(nxt, []).append(i)
            last_use.setdefault(p, []).append(i)
            nxt += 1
        elif r < 0.8:
            x = rng.choice([c for c in parent if c not in dead])
            i = add(t, "cancel", x, None, [bind_op[x]] if rng.random() < 0.7 else [])
            last_use.setdefault(x, []).append(i)
        elif r < 0.9 and len(gone) < len(leaving):
            cand = [u for u in leaving if u not in gone and u in started]
            if cand:
                u = rng.choice(cand)
                deps = []
                if not orphaning:
                    # destroy (leaf first) everything u bound and everything bound beneath it, before u leaves
                    mine = [c for c in parent if binder[c] == u and c not in dead and parent[c] is not None]

                    def post(c):
                        out = []
                        for ch in children[c]:
                            if ch not in dead:
                                out += post(ch)
                        return out + [c]
                    doomed = []
                    for c in mine:
                        for d in post(c):
                            if d not in doomed:
                                doomed.append(d)
                    for d in doomed:
                        uses = list(last_use.get(d, []))
                        for ch in children[d]:
                            uses += last_use.get(ch, [])
                        i = add(u, "destroy", d, None, uses + deps)
                        last_use.setdefault(d, []).append(i)
                        if parent[d] is not None:
                            last_use.setdefault(parent[d], []).append(i)
                        dead.add(d)
                        deps.append(i)
                add(u, "exit", 0, None, deps)
                gone.add(u)
    return {"threads": T, "order": order, "ops": mk_ops(raw), "family": "registry-" + ("orphaning" if orphaning else "clean")}


def registry_corpus():
    return [
        # the finding, minimal: thread 1 binds 2 beneath 1, exits; thread 0 cancels 1
        {"threads": 2, "order": [0, 1], "ops": mk_ops([(0, "bind", 1, None, []), (1, "bind", 2, 1, [0]), (1, "exit", 0, None, [1]), (0, "cancel", 1, None, [2])])},
        # a thread registers after a propagation (its list: epoch 0, global epoch 1) and binds beneath the cancelled tree, racing a second cancel
        {"threads": 3, "order": [0, 2, 1], "ops": mk_ops([(0, "bind", 1, None, []), (0, "bind", 2, 1, [0]), (2, "cancel", 2, None, [1]), (1, "register", 0, None, [2]),
                                                          (1, "bind", 3, 2, [3]), (2, "cancel", 1, None, [2]), (1, "bind", 4, 3, [4])])},
        # exit racing a propagation: thread 1 leaves (nothing bound by it) while thread 0 cancels
        {"threads": 3, "order": [1, 0, 2], "ops": mk_ops([(0, "bind", 1, None, []), (2, "bind", 2, 1, [0]), (1, "exit", 0, None, []), (0, "cancel", 1, None, [1]), (2, "bind", 3, 2, [1])])},
        # a late thread registers while a propagation is between two lists
        {"threads": 3, "order": [2, 0, 1], "ops": mk_ops([(0, "bind", 1, None, []), (2, "bind", 2, 1, [0]), (1, "register", 0, None, [1]), (0, "cancel", 1, None, [1]), (1, "bind", 3, 2, [2])])},
    ]


def reuse_scenarios():
    """the motivating shapes, spelled out: a child stays bound across the reset of its parent, the parent is cancelled again"""
    return [
        # bind P, bind child under P (another thread's list), reset P, cancel P
        {"threads": 2, "order": [0, 1], "ops": mk_ops([(0, "bind", 1, None, []), (1, "bind", 2, 1, [0]), (0, "reset", 1, None, [1]), (0, "cancel", 1, None, [2])])},
        # full round trip: cancel P; reset child, reset P; cancel P again (the canceller is a third thread)
        {"threads": 3, "order": [2, 0, 1], "ops": mk_ops([(0, "bind", 1, None, []), (1, "bind", 2, 1, [0]), (2, "cancel", 1, None, [1]),
                                                          (1, "reset", 2, None, [2]), (0, "reset", 1, None, [3]), (2, "cancel", 1, None, [4])])},
        # depth 3, only the root of the cancelled subtree is reset, a fresh grandchild is bound while the second cancel runs
        {"threads": 3, "order": [1, 2, 0], "ops": mk_ops([(0, "bind", 1, None, []), (0, "bind", 2, 1, [0]), (1, "bind", 3, 2, [1]), (2, "bind", 4, 3, [2]),
                                                          (2, "cancel", 2, None, [3]), (0, "reset", 2, None, [4]), (1, "cancel", 2, None, [5]), (2, "bind", 5, 3, [5])])},
        # task_group::wait style: the inner context (3) is reset by its owner while the outer one (2) is still cancelled, then the outer is
        # reset and both are used again; second round cancels the root
        {"threads": 2, "order": [1, 0], "ops": mk_ops([(0, "bind", 1, None, []), (0, "bind", 2, 1, [0]), (1, "bind", 3, 2, [1]), (1, "cancel", 2, None, [2]),
                                                       (1, "reset", 3, None, [3]), (0, "reset", 2, None, [4]), (0, "cancel", 1, None, [5]), (1, "bind", 4, 3, [5])])},
    ]


CORPUS = [
    # two cancels of the same context + a cancel one level below, children bound concurrently
    {"threads": 4, "order": [3, 1, 0, 2], "ops": mk_ops([
        (1, "bind", 1, None, []), (1, "bind", 2, 1, [0]), (2, "bind", 3, 2, [1]), (3, "bind", 4, 3, [2]),
        (0, "cancel", 1, None, [1]), (2, "cancel", 1, None, [1]), (3, "cancel", 3, None, [2]), (1, "bind", 5, 2, [1])])},
    # siblings / unrelated trees must stay untouched; leaf destroyed while its grand-parent is cancelled
    {"threads": 3, "order": [1, 0, 2], "ops": mk_ops([
        (0, "bind", 1, None, []), (0, "bind", 2, 1, [0]), (1, "bind", 3, 1, [0]), (2, "bind", 6, None, []), (2, "bind", 7, 6, [3]),
        (1, "bind", 4, 3, [2]), (0, "cancel", 2, None, [1]), (2, "cancel", 3, None, [2]), (1, "destroy", 4, None, [5])])},
]


# --------------------------------------------------------------------------------------------------
# running the harness, parsing, replaying on the Lean model
# --------------------------------------------------------------------------------------------------

def build():
    objs = common.shim_runtime_objects()
    return cxx_build("C04", "wb", ["harness/c04/wb.cpp", common.SHIM_SRC],
                     flags=["-O1", "-g", "-fno-access-control", "-I" + REPO + "/src"] + common.SHIM_FLAGS, libs=objs + ["-ldl"])


def build_nat():
    objs = common.shim_runtime_objects()
    return cxx_build("C04", "nat", ["harness/c04/nat.cpp", common.SHIM_SRC],
                     flags=["-O1", "-g", "-fno-access-control", "-I" + REPO + "/src"] + common.SHIM_FLAGS, libs=objs + ["-ldl"])


NAT_PLANS = ["-", "L1:1:b", "L0:1:e,L1:4:b", "X:2", "X:4,L2:5:b", "X:6,L1:2:e", "L1:0:b,L1:2:e,X:5", "L0:0:b,X:3",
             # task_group reuse: persistent inner groups bound in round 0, every wait() resets, an outer group cancelled in the last round
             "TG:1:0:2", "TG:2:0:2", "TG:2:1:3", "TG:3:0:2", "TG:3:2:2", "TG:1:0:3",
             # contexts bound by an external thread that stays (EX:0) / exits before its contexts are used again and cancelled (EX:1)
             "EX:0", "EX:1",
             # a context bound on the only worker, which has (PK:1) / has not (PK:0) left the arena and gone to sleep when the ancestor is cancelled
             "PK:0", "PK:1"]


def natural_family(ck, seed, quick):
    """nested parallel_for loops with explicit contexts on the whole runtime (workers steal and bind), monitors only"""
    exe = build_nat()
    n = 40 if quick else 400
    bad, total, orphan_bad = [], 0, []
    for i, plan in enumerate(NAT_PLANS):
        P, W = (3, 3) if i % 2 == 0 else (4, 2)
        rc, out, err = sh([exe, str(P), str(W), plan, "rand", str(seed * 53 + i), str(n)], timeout=1200)
        runs = parse_runs(out)
        total += len(runs)
        for r in runs:
            ck.count(1, ("natural", plan, r["mon"].split(":")[0]))
            if r["mon"].startswith("VIOLATION reach-orphan"):
                orphan_bad.append((P, W, plan, r))
            elif r["mon"] != "ok":
                bad.append((P, W, plan, r))
        if rc not in (0, 1, 3) or not runs:
            bad.append((P, W, plan, {"mon": "harness failed rc=%d %s" % (rc, (out + err)[-200:]), "sched": []}))
    # keep a violation whose schedule reproduces in a fresh process
    chosen = None
    f = os.path.join(common.BUILD, "C04", "confirm_nat.sched")
    for (P, W, plan, r) in sorted(bad, key=lambda b: len(b[3]["sched"]))[:8]:
        if not r["sched"]:
            chosen = chosen or (P, W, plan, r)
            continue
        open(f, "w").write(" ".join(map(str, r["sched"])))
        rc, out, err = sh([exe, str(P), str(W), plan, "replay", f], timeout=300)
        rr = parse_runs(out)
        if rr and rr[0]["mon"] != "ok":
            chosen = (P, W, plan, dict(rr[0], sched=r["sched"]))
            break
    if bad and (chosen is None or not chosen[3]["sched"]):
        # nothing reproduced (the failing runs were later runs of a batch): look for a failing FIRST run of a process
        plans = []
        for (P, W, plan, r) in bad:
            if (P, W, plan) not in plans:
                plans.append((P, W, plan))
        found = None
        for k in range(400 if quick else 3000):
            P, W, plan = plans[k % len(plans)]
            rc, out, err = sh([exe, str(P), str(W), plan, "rand", str(seed * 100003 + 7 * k + 1), "1"], timeout=300)
            rr = parse_runs(out)
            if rr and rr[0]["mon"] != "ok":
                found = (P, W, plan, rr[0])
                break
        if found:
            chosen = found
        elif chosen is None:
            P, W, plan, r = bad[0]
            chosen = (P, W, plan, dict(r, mon=r["mon"] + " [schedule did not reproduce in a fresh process: found in a later run of a batch]"))
    ck.extra.setdefault("schedules", {})["natural_runs"] = total
    ck.oblige("monitor:natural usage (nested parallel_for with explicit contexts; persistent task_groups reused across rounds with wait()=reset; "
              "workers, external canceller): reach / overreach / winner / reset / no hang",
              "correspondence", not bad, "" if not bad else "%s | P=%d W=%d plan=%s" % (chosen[3]["mon"], chosen[0], chosen[1], chosen[2]))
    # the known limitation: contexts in the orphaned list of an exited thread (reproduced in a fresh process)
    ochosen = None
    for (P, W, plan, r) in sorted(orphan_bad, key=lambda b: len(b[3]["sched"]))[:4]:
        open(f, "w").write(" ".join(map(str, r["sched"])))
        rc, out, err = sh([exe, str(P), str(W), plan, "replay", f], timeout=300)
        rr = parse_runs(out)
        if rr and rr[0]["mon"].startswith("VIOLATION reach-orphan"):
            ochosen = (P, W, plan, dict(rr[0], sched=r["sched"]))
            break
    if orphan_bad and ochosen is None:
        ochosen = orphan_bad[0]
    ck.oblige("monitor:natural usage — a context bound by an external thread that has exited is still reached when its ancestor is cancelled "
              "(Props.reach_fails_for_orphaned_list: the code as it is does not reach it)", "correspondence", not orphan_bad,
              "" if not orphan_bad else "%s | P=%d W=%d plan=%s" % (ochosen[3]["mon"], ochosen[0], ochosen[1], ochosen[2]), cex_keys=[KEY_ORPHAN])
    if ochosen:
        P, W, plan, r = ochosen
        ck.counterexample(KEY_ORPHAN, "%s | natural program (parallel_for with explicit contexts, public API) P=%d W=%d plan %s | schedule of %d steps" % (r["mon"], P, W, plan, len(r["sched"])),
                          {"engine": "E-SHIM (whole instrumented runtime, natural usage)", "harness": "nat", "P": P, "W": W, "plan": plan,
                           "schedule": r["sched"], "monitor": r["mon"]})
    if chosen:
        P, W, plan, r = chosen
        kind = r["mon"].split(":")[0].replace("VIOLATION ", "").split(" ")[0].lower()
        ck.counterexample("natural-" + kind, "%s | natural program P=%d W=%d plan %s | schedule of %d steps" % (r["mon"], P, W, plan, len(r["sched"])),
                          {"engine": "E-SHIM (whole instrumented runtime, natural usage)", "harness": "nat", "P": P, "W": W, "plan": plan,
                           "schedule": r["sched"], "monitor": r["mon"]})


def parse_runs(out):
    runs, cur = [], None
    for l in out.split("\n"):
        w = l.split()
        if not w:
            continue
        if w[0] == "run":
            cur = {"reg": [], "ev": [], "evop": [], "notes": [], "ctx": {}, "mon": "", "sched": [], "steps": 0}
            inop = {}
        elif cur is None:
            continue
        elif w[0] == "reg":
            cur["reg"] = [int(x) for x in w[1:]]
        elif w[0] == "e":
            cur["ev"].append((int(w[1]), w[2], w[3], int(w[4]), int(w[5]), int(w[6])))
            cur["evop"].append(inop.get(int(w[1])))          # id of the op the thread is executing
        elif w[0] == "n":
            cur["notes"].append((int(w[1]), w[2], int(w[3]), int(w[4])))
            if w[2] == "opb":
                inop[int(w[1])] = int(w[3])
            elif w[2] == "ope":
                inop.pop(int(w[1]), None)
        elif w[0] == "ctx":
            cur["ctx"][int(w[1])] = w[2:]
        elif w[0] == "thr":
            cur.setdefault("thr", {})[int(w[1])] = (int(w[2]), int(w[3]))
        elif w[0] == "steps":
            cur["steps"] = int(w[1])
        elif w[0] == "mon":
            cur["mon"] = " ".join(w[1:])
        elif w[0] == "sched":
            cur["sched"] = [int(x) for x in w[1:]]
        elif w[0] == "end":
            runs.append(cur)
            cur = None
    return runs


def is_mutex(var):
    return var.startswith("lm") or var in ("regmx", "propmx")


def canon_event(e):
    """harness event -> the model's event text, or None if the access is not a model step
    (failed lock attempts and loads of a mutex flag)."""
    (t, kind, var, a, b, ok) = e
    if is_mutex(var):
        if kind == "xchg" and a == 0 and b == 1:
            return "lock " + var
        if (kind == "xchg" and b == 0) or (kind == "store" and a == 0):
            return "unlock " + var
        return None
    if kind == "load":
        return "load %s %d" % (var, a)
    if kind == "store":
        return "store %s %d" % (var, a)
    if kind == "xchg":
        return "xchg %s %d %d" % (var, a, b)
    if kind == "fadd":
        return "fadd %s %d %d" % (var, a, b)
    if kind == "cas":
        return "cas %s %d %d %s" % (var, a, b, "ok" if ok else "fail")
    return "%s %s %d %d" % (kind, var, a, b)


def op_text(o):
    if o["kind"] in ("register", "exit"):
        return o["kind"]
    return "%s %d%s" % (o["kind"], o["x"], (" " + ("-" if o["p"] is None else str(o["p"]))) if o["kind"] == "bind" else "")


def model_input(sc, run, facts):
    """driver lines that replay one observed run on CtxTree, and what is needed to judge the answer"""
    T = sc["threads"]
    lines = ["reset", "cfg %d %d %s" % (facts["propagatorHoldsPropagationMutex"], facts["bindCopyNeverClears"], reset_word(facts)),
             "reg " + " ".join(map(str, run["reg"]))]
    for t in range(T):
        ops = [o for o in sc["ops"] if o["th"] == t]
        lines.append("prog %d %s" % (t, " ; ".join(op_text(o) for o in ops)))
    evs = [(e[0], canon_event(e)) for e in run["ev"]]
    evs = [(t, c) for (t, c) in evs if c is not None]
    for (t, c) in evs:
        lines.append("s %d" % t)
    ctxs = sorted(run["ctx"])
    for x in ctxs:
        lines.append("ctx %d" % x)
    for t in range(T):
        lines.append("res %d" % t)
    for t in range(T):
        lines.append("thr %d" % t)
    lines.append("quiet " + " ".join(map(str, range(T))))
    return lines, evs, ctxs


def judge(sc, run, out, evs, ctxs):
    """None if the model reproduced the trace access by access, the results and the final context table; else a description."""
    T = sc["threads"]
    hdr = 3 + T
    if any(o != "ok" for o in out[:hdr]):
        return "model rejected the scenario header: %s" % out[:hdr]
    for i, (t, c) in enumerate(evs):
        m = out[hdr + i].split(" | ")
        if m[0] != c:
            return "access %d (thread %d): implementation `%s`, model `%s`" % (i, t, c, m[0])
        if m[1].split()[2] != "0":
            return "access %d (thread %d): the model flags an API-precondition violation" % (i, t)
    k = hdr + len(evs)
    for j, x in enumerate(ctxs):
        impl, mod = run["ctx"][x], out[k + j].split()
        if impl[0] == "4":
            if mod[0] != "4":
                return "context %d: destroyed in the implementation, state %s in the model" % (x, mod[0])
        elif impl != mod:
            return "context %d at quiescence (state cancel may_have_children parent list): implementation %s, model %s" % (x, impl, mod)
    k += len(ctxs)
    for t in range(T):
        impl = [str(r) for (tt, tag, oid, r) in run["notes"] if tt == t and tag == "ope" and r >= 0]
        if impl != out[k + t].split():
            return "thread %d cancel results: implementation %s, model %s" % (t, impl, out[k + t].split())
    k += T
    for t in range(T):
        registered, exited = run.get("thr", {}).get(t, (1, 0))
        impl = "%d %d" % (1 if registered and not exited else 0, 1 if exited else 0)
        if out[k + t] != impl:
            return "thread %d registry membership at the end (in my_threads_list, list orphaned): implementation %s, model %s" % (t, impl, out[k + t])
    if out[k + T] != "1":
        return "the model still has operations in flight at the end of the trace"
    return None


def replay_many(sc, runs, facts):
    """replays all runs of one scenario in a single driver process; list of verdicts (None = agrees)"""
    parts, text = [], []
    for r in runs:
        lines, evs, ctxs = model_input(sc, r, facts)
        parts.append((len(lines), evs, ctxs))
        text += lines
    if not text:
        return []
    out = drv("c04", "\n".join(text) + "\n")
    res, pos = [], 0
    for r, (n, evs, ctxs) in zip(runs, parts):
        res.append(judge(sc, r, out[pos:pos + n], evs, ctxs))
        pos += n
    return res


def replay_on_model(sc, run, facts):
    return replay_many(sc, [run], facts)[0]


def run_scenario(exe, sc, mode_args, timeout=600):
    rc, out, err = sh([exe] + [str(a) for a in mode_args], input=scenario_text(sc), timeout=timeout)
    runs = parse_runs(out)
    return rc, runs, (out + err)[-400:]


# --------------------------------------------------------------------------------------------------
# classification of a monitor violation by what the trace shows (which window was hit)
# --------------------------------------------------------------------------------------------------

KEY_HINT = "reset-clears-hint-children-missed"
KEY_ORPHAN = "orphaned-list-not-reached"


def classify(run, sc=None):
    """key naming the shape of the failing history"""
    mon = run["mon"]
    kinds = {o["id"]: o["kind"] for o in sc["ops"]} if sc else {}
    evop = run.get("evop") or [None] * len(run["ev"])
    m = re.search(r"context (\d+)", mon)
    kind = mon.split(":")[0].replace("VIOLATION ", "") if mon.startswith("VIOLATION") else mon.split(" ")[0]
    if kind == "reach-orphan":
        return KEY_ORPHAN
    if not m:
        return kind.lower()
    x = int(m.group(1))
    ev = run["ev"]
    can = "can%d" % x
    # (a) a binder's copy wrote 0 over a 1 in x (or in the context the message is about)
    val = 0
    for (t, k, var, a, b, ok), opid in zip(ev, evop):
        if var != can:
            continue
        if k == "xchg":
            val = 1
        elif k == "store":
            if a == 0 and val == 1 and kinds.get(opid) != "reset":
                return KEY_COPY          # somebody other than a reset() call stored 0 over a 1
            val = a
    if kind in ("reach", "spec-reach"):
        # (a') a reset() cleared the may_have_children hint of an ancestor and a later winning cancel of that ancestor returned
        #      at the hint test
        for (t, k, var, a, b, ok), opid in zip(ev, evop):
            if k == "store" and var.startswith("mhc") and a == 0 and kinds.get(opid) == "reset":
                anc = var[3:]
                wins_after = False
                seen = False
                for (t2, k2, var2, a2, b2, ok2), op2 in zip(ev, evop):
                    if (t2, k2, var2, a2) == (t, k, var, a) and op2 == opid:
                        seen = True
                    elif seen and k2 == "load" and var2 == "mhc" + anc and a2 == 0 and kinds.get(op2) == "cancel":
                        wins_after = True
                if wins_after:
                    return KEY_HINT
    if kind in ("reach", "spec-reach"):
        # (b) the binder of x took the fall-back lock while a propagation was between its epoch increment and its end,
        #     and the parent was painted afterwards
        binder = next((t for (t, k, var, a, b, ok) in ev if k == "cas" and var == "st%d" % x and ok), None)
        fb_during = False
        for idx, (t, k, var, a, b, ok) in enumerate(ev):
            if t == binder and var == "propmx" and k == "xchg" and a == 0 and b == 1:
                # a propagation that bumped the epoch before this point and is still syncing lists afterwards
                for c in set(e[0] for e in ev[:idx] if e[1] == "fadd" and e[2] == "G"):
                    started = max(i2 for i2, e in enumerate(ev[:idx]) if e[0] == c and e[1] == "fadd" and e[2] == "G")
                    ended = any(e[0] == c and e[2] == "regmx" and ((e[1] == "xchg" and e[4] == 0) or (e[1] == "store" and e[3] == 0)) for e in ev[started:idx])
                    if not ended and any(e[0] == c and e[1] == "store" and e[2].startswith("ep") for e in ev[idx:]):
                        fb_during = True
        if fb_during:
            return KEY_F2
        return "reach-lost-without-fallback"
    return kind.lower() + "-unclassified"


# --------------------------------------------------------------------------------------------------
# the check
# --------------------------------------------------------------------------------------------------

class Acc:
    """collects correspondence failures and monitor violations over many runs"""

    def __init__(self):
        self.bad_corr, self.viol, self.runs, self.deadlocks, self.cands, self.sampled = [], {}, 0, [], {}, set()

    def confirm(self, exe):
        """A run is reproducible from its schedule only when it was the first run of its harness process (later runs of
        a batch inherit allocator / runtime state).  For every violation key keep the shortest candidate whose schedule
        reproduces the same violation in a fresh process."""
        os.makedirs(os.path.join(common.BUILD, "C04"), exist_ok=True)
        f = os.path.join(common.BUILD, "C04", "confirm.sched")
        for key, cl in self.cands.items():
            cl.sort(key=lambda c: len(c[1]["sched"]))
            chosen = None
            for (sc, r) in cl[:8]:
                open(f, "w").write(" ".join(map(str, r["sched"])))
                rc, runs, tail = run_scenario(exe, sc, ["replay", f])
                if runs:
                    apply_spec(sc, runs[0])
                if runs and runs[0]["mon"] != "ok" and classify(runs[0], sc) == key:
                    chosen = (sc, runs[0])
                    break
            if chosen is None:
                # look for a failing FIRST run of a process on the scenarios that failed
                scs = []
                for (sc, r) in cl:
                    if sc not in scs:
                        scs.append(sc)
                for k in range(300):
                    sc = scs[k % len(scs)]
                    rc, runs, tail = run_scenario(exe, sc, ["rand", 900001 + 13 * k, 1])
                    if runs:
                        apply_spec(sc, runs[0])
                    if runs and runs[0]["mon"] != "ok" and classify(runs[0], sc) == key:
                        chosen = (sc, runs[0])
                        break
            if chosen is None:
                sc, r = cl[0]
                r = dict(r, mon=r["mon"] + " [schedule did not reproduce in a fresh process: found in a later run of a batch]")
                chosen = (sc, r)
            self.viol[key] = chosen

    def add(self, ck, exe, sc, mode_args, facts, family):
        rc, runs, tail = run_scenario(exe, sc, mode_args)
        if rc not in (0, 1, 3) or (not runs and rc != 0):
            self.deadlocks.append((sc, {"mon": "harness failed rc=%d %s" % (rc, tail[-200:]), "sched": [], "ev": []}))
            return
        live = [r for r in runs if not r["mon"].startswith("DEADLOCK")]
        verdicts = dict(zip(map(id, live), replay_many(sc, live, facts)))
        for r in live:
            apply_spec(sc, r)
        for r in runs:
            self.runs += 1
            kinds = tuple(sorted(set(e[1] + ":" + re.sub(r"\d+", "", e[2]) for e in r["ev"])))
            ck.count(1, (family, sc["threads"], len(sc["ops"]), kinds, tuple(sorted((k, tuple(v[:2])) for k, v in r["ctx"].items()))))
            if r["mon"].startswith("DEADLOCK"):
                self.deadlocks.append((sc, r))
                continue
            d = verdicts[id(r)]
            ck.traces_validated += 1
            if d:
                self.bad_corr.append((sc, r, d))
            if r["mon"] != "ok":
                self.cands.setdefault(classify(r, sc), []).append((sc, r))
        if runs and family not in self.sampled and len(self.sampled) < 8:
            self.sampled.add(family)
            ck.sample({"family": family, "scenario": scenario_text(sc).split("\n")[:-2], "registry": runs[0]["reg"],
                       "trace_head": [" ".join(map(str, e)) for e in runs[0]["ev"][:14]], "monitor": runs[0]["mon"]}, cap=8)


def cex_obj(sc, r, key):
    return {"engine": "E-SHIM (whole instrumented runtime, white-box op program)", "key": key, "scenario": sc, "registry_walk_order": r["reg"],
            "schedule": r["sched"], "monitor": r["mon"], "final_contexts(state cancel mhc parent list)": r["ctx"],
            "trace(tid kind var a b ok)": [" ".join(map(str, e)) for e in r["ev"][:400]]}


def run(ck):
    quick = ck.tier == "quick"
    ck.rule = ("E-SHIM on the whole instrumented runtime: hand-written contention scenarios + seeded random op programs (context forests of depth <= 4, "
               "2-4 threads with their own context lists, cancels at several levels incl. before/while the context is first bound, racing binds of "
               "one context, destroy of leaves, random registry orders), reset families (contexts with bound children of depth 1-3 reset between rounds "
               "of cancellation and cancelled again: leaf-first, root only, an intermediate only, random subsets, resets racing a cancel of a proper "
               "ancestor; the spelled-out reuse shapes), registry families (threads that create their thread_data during the run and threads that exit "
               "while cancels/binds are in flight), each under seeded random schedules; state-guided schedules for the two binding windows; natural "
               "programs (nested parallel_for, persistent task_groups reused across rounds, contexts bound by a thread that exits); every white-box "
               "trace is replayed access by access on CtxTree; distinct = (family, #threads, #ops, access kinds, final table)")
    ck.assumptions += [
        "proved on the model CtxTree (any number of threads/contexts, any programs of cancel/bind/destroy/reset/register/exit, all schedules, "
        "sequentially consistent interleavings): single winner, no overreach, stickiness (also across resets of other contexts), reset touches only "
        "its own context, the may_have_children hint is never cleared while a context has registered children, and "
        "cancel_reaches_all_bound_with_reset — at quiescence everything bound beneath a context whose winning cancel is current is cancelled unless it "
        "(or a context on the path) was reset after that cancel won or sits in the orphaned list of an exited thread — for the protocol in which the "
        "propagator holds the binder's fall-back mutex, the binder's copies cannot clear the flag and reset does not store to my_may_have_children "
        "(all three facts regenerated from the source); no sequencing discipline on reset is needed for the reach theorem",
        "dynamic registry as coded: thread_data construction (fresh context list, epoch 0) + register_thread, unregister_thread + "
        "context_list::orphan; the walk order of the registry is a parameter of the model (every order is covered), given by the harness from the "
        "observed registration order; contexts in the orphaned list of an exited thread are NOT reached by the code (Props.reach_fails_for_orphaned_list, "
        "known finding orphaned-list-not-reached), the theorem excludes them",
        "the implementation-side monitors with resets are sound for programs that respect the documented precondition of reset (no other operation "
        "on the context or its bound descendants in flight); the generators only produce such programs and the model's misuse flag re-checks it "
        "on every replayed run; the sequential-specification monitor applies to fully sequenced programs only",
        "store-buffer (TSO) reordering of the relaxed accesses is NOT modelled: the shim serialises accesses; memory orders are not compared",
        "a thread registers at most once (a re-registering OS thread is a new model thread); worker threads of the RML are ordinary registry members; "
        "FPU settings, ITT, exceptions (my_exception is reset's other store) not modelled",
        "agreement of model and implementation is sampled (the traces explored), not proved"]
    ck.trusted += ["checks/c04.py source extractor (E-GEN; cross-checked by the trace replay: a wrong fact makes the model diverge from the trace)",
                   "harness/shim (atomic shim + baton scheduler)", "harness/c04/wb.cpp (white-box op driver, op-stamp monitors)", "harness/c04/nat.cpp (natural programs)",
                   "trace canonicalisation and sequential-specification oracle in checks/c04.py"]
    facts = gen(ck)
    ck.lean_stage()
    exe = build()
    acc = Acc()
    seed = ck.seed
    # A. corpus + random scenarios under random schedules
    nsc, nsched = (80, 25) if quick else (500, 60)
    for i, sc in enumerate(CORPUS + copy_scenarios()):
        acc.add(ck, exe, sc, ["rand", seed * 131 + i, 40 if quick else 400], facts, "corpus")
    for i in range(nsc):
        sc = random_scenario(ck.rng, allow_reset=(i % 8 == 7))
        acc.add(ck, exe, sc, ["rand", seed * 1009 + i, nsched], facts, "random")
    # A'. resets of contexts that have bound children, between rounds of cancellation (sequenced resets: leaf-first, root only, an
    #     intermediate context only, random subsets; resets racing a cancel of a proper ancestor), and the spelled-out reuse shapes
    for i, sc in enumerate(reuse_scenarios()):
        acc.add(ck, exe, sc, ["rand", seed * 257 + i, 30 if quick else 300], facts, "reuse")
    nrs, nrsched = (60, 12) if quick else (400, 40)
    undisciplined = []
    for i in range(nrs):
        sc = reset_rounds_scenario(ck.rng)
        d, f = reset_sequencing(sc)
        if not d:
            undisciplined.append(scenario_text(sc))
            continue
        acc.add(ck, exe, sc, ["rand", seed * 4099 + i, nrsched], facts, sc["family"])
        ck.count(0, ("reset-family", sc["family"], f))
    # A''. dynamic registry: threads that register during the run and threads that exit while cancels / binds are in flight
    for i, sc in enumerate(registry_corpus()):
        acc.add(ck, exe, sc, ["rand", seed * 523 + i, 30 if quick else 300], facts, "registry-corpus")
    for i in range(40 if quick else 300):
        sc = registry_scenario(ck.rng)
        acc.add(ck, exe, sc, ["rand", seed * 6151 + i, 10 if quick else 40], facts, sc["family"])
    ck.oblige("gen:scenario generator — every generated reset is sequenced with respect to the operations on its subtree", "correspondence",
              not undisciplined, "" if not undisciplined else undisciplined[0].replace("\n", " / "))
    # B. the two binding windows: state-guided schedule + seeded random schedules on padded variants
    acc.add(ck, exe, f2_scenario(), ["guide", "x"], facts, "f2-guided")
    for (ec, pad) in [(1, 0), (2, 4), (3, 8)]:
        sc = f2_scenario(ec, pad)
        sc.pop("guide", None)
        acc.add(ck, exe, sc, ["rand", seed * 17 + 7, 400 if quick else 3000], facts, "f2-random")
    acc.confirm(exe)
    ck.extra["schedules"] = {"runs": acc.runs}
    # obligations
    ck.oblige("corr:atomic-access trace of the context/epoch/mutex variables replays on CtxTree (accesses, values, results, final table)",
              "correspondence", not acc.bad_corr,
              "" if not acc.bad_corr else "%s | scenario: %s | registry %s" % (acc.bad_corr[0][2], scenario_text(acc.bad_corr[0][0]).replace("\n", " / "), acc.bad_corr[0][1]["reg"]))
    o_dead = ck.oblige("monitor:no deadlock (lock order registry -> propagation -> list; binder list, then propagation)", "correspondence", not acc.deadlocks,
                       "" if not acc.deadlocks else acc.deadlocks[0][1]["mon"])
    orphan = {k: v for k, v in acc.viol.items() if k == KEY_ORPHAN}
    reach = {k: v for k, v in acc.viol.items() if k not in orphan and (v[1]["mon"].startswith("VIOLATION reach") or v[1]["mon"].startswith("VIOLATION spec-reach"))}
    other = {k: v for k, v in acc.viol.items() if k not in reach and k not in orphan}
    ck.oblige("monitor:bound beneath cancelled => cancelled at quiescence (contexts in the lists of registered threads; resets by op stamps; "
              "sequential specification for fully sequenced programs)", "correspondence", not reach,
              "; ".join("%s: %s" % (k, v[1]["mon"]) for k, v in reach.items()))
    ck.oblige("monitor:bound beneath cancelled => cancelled at quiescence, for contexts registered in the list of a thread that has exited "
              "(Props.reach_fails_for_orphaned_list: the code as it is does not reach them)", "correspondence", not orphan,
              "; ".join("%s: %s" % (k, v[1]["mon"]) for k, v in orphan.items()), cex_keys=[KEY_ORPHAN])
    ck.oblige("monitor:exactly one true per cancellation, sticky until reset, nothing outside the subtree marked", "correspondence", not other,
              "; ".join("%s: %s" % (k, v[1]["mon"]) for k, v in other.items()))
    for key, (sc, r) in sorted(acc.viol.items()):
        ck.counterexample(key, "%s | scenario: %s | registry walk order %s | schedule of %d steps" % (
            r["mon"], scenario_text(sc).replace("\n", " / "), r["reg"], len(r["sched"])), cex_obj(sc, r, key))
    for sc, r in acc.deadlocks[:1]:
        ck.counterexample("deadlock", r["mon"], cex_obj(sc, dict(r, reg=r.get("reg", []), ctx=r.get("ctx", {})), "deadlock"))
    if acc.bad_corr and not acc.viol:
        # the model no longer describes the code: look harder for a property failure before giving up
        for i in range(60 if quick else 400):
            acc.add(ck, exe, random_scenario(ck.rng), ["rand", seed * 7001 + i, 40], facts, "search")
        acc.confirm(exe)
        for key, (sc, r) in sorted(acc.viol.items()):
            ck.counterexample(key, r["mon"], cex_obj(sc, r, key))
    natural_family(ck, seed, quick)
    # broken generated facts are explained by the counterexamples that exhibit them
    for o in ck.obligations:
        if not o["ok"] and ((KEY_F2 in acc.viol and ("propagatorHoldsPropagationMutex" in o["name"] or "bound beneath" in o["name"]))
                            or (KEY_COPY in acc.viol and ("bindCopyNeverClears" in o["name"] or "exactly one true" in o["name"]))):
            if set(acc.viol) <= {KEY_F2, KEY_COPY}:
                o["explained"] = True


def replay(ck, obj):
    r = obj["replay"]
    if r.get("harness") == "nat":
        exe = build_nat()
        os.makedirs(os.path.join(common.BUILD, "C04"), exist_ok=True)
        f = os.path.join(common.BUILD, "C04", "replay.sched")
        open(f, "w").write(" ".join(map(str, r["schedule"])))
        rc, out, err = sh([exe, str(r["P"]), str(r["W"]), r["plan"], "replay", f], timeout=600)
        runs = parse_runs(out)
        for x in runs:
            print("monitor:", x["mon"])
        return 0 if runs and all(x["mon"] == "ok" for x in runs) else 1
    exe = build()
    os.makedirs(os.path.join(common.BUILD, "C04"), exist_ok=True)
    f = os.path.join(common.BUILD, "C04", "replay.sched")
    open(f, "w").write(" ".join(map(str, r["schedule"])))
    rc, runs, tail = run_scenario(exe, r["scenario"], ["replay", f])
    for x in runs:
        apply_spec(r["scenario"], x)
        print("registry walk order:", x["reg"])
        for e in x["ev"]:
            print("  ", *e)
        print("final contexts (state cancel mhc parent list):", x["ctx"])
        print("monitor:", x["mon"])
    if not runs:
        print("harness failed:", tail)
        return 1
    return 0 if all(x["mon"] == "ok" for x in runs) else 1
