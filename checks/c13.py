"""C13 — concurrent_priority_queue is a linearizable priority queue (DESIGN.md §3 C13).

Ties:
  E-PURE  white-box calls of the real handle_operations / heapify / reheap (harness/c13/pure.cpp) against the Lean
          model `CpqBatch` (drv_c13 c13), plus implementation-side monitors (conservation, per-batch
          linearizability by an independent brute-force checker, exception isolation, heap invariant).
  E-SHIM  2-4 threads calling push/try_pop on a real queue under the controlled scheduler
          (harness/c13/shim.cpp): the atomic-level trace is replayed against the Lean `Agg` model (drv_c13 c13agg),
          batch structure + linearizability monitors on the implementation side.
"""
import itertools
import json
import os
import re
from collections import Counter

import common
from common import BuildError, REPO, cxx_build, drv, first_diff, gen_write, log, sh

HDR = os.path.join(REPO, "include/oneapi/tbb/concurrent_priority_queue.h")

STUBS = "harness/common/r1_stubs.cpp"
PURE_FLAGS = ["-O1", "-g", "-fno-access-control", "-fsanitize=address,undefined", "-fno-sanitize-recover=all"]


# ---------------------------------------------------------------------------------------------
# E-GEN: is the element assignment of a pop inside a try block?  (regenerated from the source on every run)
# ---------------------------------------------------------------------------------------------
def translate_pop_guard():
    """(guarded?, [per occurrence: inside a try block?]) for every assignment `*(<op>->elem) = ...` to a pop's result element in
    concurrent_priority_queue.h (in the pinned tree: three, all in handle_operations, none inside a try block)"""
    src = open(HDR).read()
    m = re.search(r"class\s+concurrent_priority_queue\s*\{", src)
    if not m:
        raise ValueError("class concurrent_priority_queue not found")
    body = src[m.end():]
    body = re.sub(r"//[^\n]*", "", body)
    body = re.sub(r"/\*.*?\*/", "", body, flags=re.S)
    body = re.sub(r"^\s*#[^\n]*$", "", body, flags=re.M)
    stack, occ = [], []
    for t in re.finditer(r"\*\s*\(\s*\w+\s*->\s*elem\s*\)\s*=(?!=)|[{}]", body):
        if t.group(0) == "{":
            stack.append(bool(re.search(r"\btry\s*$", body[:t.start()])))
        elif t.group(0) == "}":
            if not stack:
                break
            stack.pop()
        else:
            occ.append(any(stack))
    if not occ:
        raise ValueError("no `*(op->elem) = ...` assignment found")
    if all(occ) != any(occ):
        raise ValueError("only some of the pop assignments are inside a try block: %s" % occ)
    return all(occ), occ


def gen(ck):
    try:
        g, occ = translate_pop_guard()
        ck.oblige("gen:popAssignGuarded-translated", "generated", True, "pop element assignments inside a try block: %s" % occ)
    except (ValueError, OSError) as e:
        ck.oblige("gen:popAssignGuarded-translated", "generated", False, "translator cannot read handle_operations: %s" % e)
        g = False
    ck.extra["generated_constants"] = {"popAssignGuarded": g}
    gen_write("C13", "/-- is every `*(tmp->elem) = std::move(...)` of handle_operations inside a try block whose handler stores FAILED? -/\n"
                     "def popAssignGuarded : Bool := %s\n" % ("true" if g else "false"))
    return g


# ---------------------------------------------------------------------------------------------
# helpers: heaps, line syntax
# ---------------------------------------------------------------------------------------------
def is_heap(d, m=None):
    m = len(d) if m is None else m
    return all(d[i] <= d[(i - 1) // 2] for i in range(1, m))


def heap_of(xs, rng=None):
    """a valid max-heap array with the elements xs (shape varied through the insertion order)"""
    d = []
    xs = list(xs)
    if rng is not None:
        rng.shuffle(xs)
    for x in xs:
        d.append(x)
        i = len(d) - 1
        while i and d[(i - 1) // 2] < d[i]:
            d[i], d[(i - 1) // 2] = d[(i - 1) // 2], d[i]
            i = (i - 1) // 2
    return d


def case_line(heap, batches):
    return "batch " + " ".join(map(str, heap)) + " | " + " ; ".join(" ".join(b) for b in batches)


def parse_case(line):
    w = line.split()
    bar = w.index("|")
    heap = [int(x) for x in w[1:bar]]
    batches, cur = [], []
    for t in w[bar + 1:]:
        if t == ";":
            batches.append(cur)
            cur = []
        else:
            cur.append(t)
    batches.append(cur)
    return heap, batches


def parse_out(out):
    """output line -> [(results, mark, data, flags)] per batch, or None if unparsable"""
    res = []
    for seg in out.split(" ; "):
        parts = [p.strip() for p in seg.split("|")]
        if len(parts) != 3:
            return None
        toks = parts[2].split()
        flags = [t for t in toks if not t.lstrip("-").isdigit()]
        try:
            data = [int(t) for t in toks if t.lstrip("-").isdigit()]
            res.append((parts[0].split(), int(parts[1]), data, flags))
        except ValueError:
            return None
    return res


# ---------------------------------------------------------------------------------------------
# implementation-side property monitor: independent brute-force linearizability of one batch
# ---------------------------------------------------------------------------------------------
def batch_linearizable(init, ops):
    """ops: list of ('push', x, ok) / ('pop', v or None).  All ops are pairwise concurrent.  Is there an order
    under which a sequential max-priority queue started with multiset `init` gives these results?"""
    n = len(ops)
    dead = set()

    def rec(mask, cont):
        if mask == (1 << n) - 1:
            return True
        if mask in dead:
            return False
        tried = set()
        for i in range(n):
            if mask >> i & 1 or ops[i] in tried:
                continue
            tried.add(ops[i])
            o = ops[i]
            if o[0] == "push":
                if not o[2]:
                    if rec(mask | 1 << i, cont):
                        return True
                else:
                    c2 = cont.copy()
                    c2[o[1]] += 1
                    if rec(mask | 1 << i, c2):
                        return True
            else:
                if o[1] is None:
                    if not +cont and rec(mask | 1 << i, cont):
                        return True
                else:
                    live = [k for k, v in cont.items() if v > 0]
                    if live and o[1] == max(live):
                        c2 = cont.copy()
                        c2[o[1]] -= 1
                        if rec(mask | 1 << i, c2):
                            return True
        dead.add(mask)
        return False

    return rec(0, Counter(init))


def monitor_case(line, out, heap_valid=True):
    """Property monitors on what the implementation did on one `batch` line.  Returns None or a description."""
    heap, batches = parse_case(line)
    segs = parse_out(out)
    if segs is None or len(segs) != len(batches):
        return "unparsable/short output: %r" % out
    cont = list(heap)
    for b, (ops, (res, mark, data, flags)) in enumerate(zip(batches, segs)):
        if flags:
            return "batch %d: %s" % (b, " ".join(flags))
        if len(res) != len(ops):
            return "batch %d: %d results for %d ops" % (b, len(res), len(ops))
        evs, pushed, popped = [], [], []
        for o, r in zip(ops, res):
            if o == "x":
                if r == "E":
                    evs.append(("push", 0, False))      # no effect: the exception went to this pop's caller
                elif r == "F":
                    evs.append(("pop", None))
                else:
                    return "batch %d: pop whose element assignment throws has status %s" % (b, r)
            elif o == "o":
                if r == "F":
                    evs.append(("pop", None))
                elif r.startswith("S:"):
                    v = int(r[2:])
                    evs.append(("pop", v))
                    popped.append(v)
                else:
                    return "batch %d: pop has status %s" % (b, r)
            else:
                x = int(o[1:])
                if o[0] == "t":
                    if r != "F":
                        return "batch %d: push whose copy throws has status %s" % (b, r)
                    evs.append(("push", x, False))
                else:
                    if r != "S":
                        return "batch %d: push %d has status %s (no exception was thrown)" % (b, x, r)
                    evs.append(("push", x, True))
                    pushed.append(x)
        if Counter(data) + Counter(popped) != Counter(cont) + Counter(pushed):
            return "batch %d: elements lost/duplicated: before %s + pushed %s != after %s + popped %s" % (b, sorted(cont), sorted(pushed), sorted(data), sorted(popped))
        if heap_valid and not batch_linearizable(cont, evs):
            return "batch %d: no order of the batch explains the results %s on contents %s (pop not maximal / wrong failure)" % (b, " ".join(res), sorted(cont))
        cont = data
    return None


# ---------------------------------------------------------------------------------------------
# running the real code, crash-tolerant
# ---------------------------------------------------------------------------------------------
def pure_exe():
    return cxx_build("C13", "pure", ["harness/c13/pure.cpp", STUBS], flags=PURE_FLAGS)


def run_impl(exe, lines, timeout=1200):
    """outputs per line; a line on which the harness dies gets 'CRASH <reason>'"""
    outs = []
    pos = 0
    while pos < len(lines):
        rc, out, err = sh([exe], input="\n".join(lines[pos:]) + "\n", timeout=timeout)
        got = out.split("\n")[:-1] if out.endswith("\n") else [l for l in out.split("\n") if l]
        if rc == 0 and len(got) == len(lines) - pos:
            outs += got
            break
        got = got[:len(lines) - pos - 1] if len(got) >= len(lines) - pos else got
        outs += got
        why = [l for l in err.split("\n") if "ERROR" in l or "runtime error" in l or "SUMMARY" in l]
        outs.append("CRASH rc=%d %s" % (rc, (why[0] if why else err[-200:]).strip()[:300]))
        pos = len(outs)
    return outs


# ---------------------------------------------------------------------------------------------
# inputs
# ---------------------------------------------------------------------------------------------
def drain(n):
    return ["o"] * (n + 1)


def exhaustive_cases(vals, max_heap, max_ops, with_throw_upto):
    heaps = [list(h) for k in range(max_heap + 1) for h in itertools.product(vals, repeat=k) if is_heap(h)]
    alpha = ["p%d" % v for v in vals] + ["o"]
    alpha_t = alpha + ["t%d" % vals[-1]]
    lines = []
    for h in heaps:
        for k in range(max_ops + 1):
            for b in itertools.product(alpha_t if k <= with_throw_upto else alpha, repeat=k):
                if k > with_throw_upto or any(o[0] == "t" for o in b) or True:
                    npush = sum(1 for o in b if o[0] in "pm")
                    lines.append(case_line(h, [list(b), drain(len(h) + npush)]))
    return lines


def random_batch(rng, n, style, vmax):
    ops = []
    run = rng.randrange(vmax + 1)
    for _ in range(n):
        r = rng.random()
        if style == "pop-heavy":
            ispop = r < 0.65
        elif style == "push-heavy":
            ispop = r < 0.25
        else:
            ispop = r < 0.45
        if ispop:
            ops.append("o")
        else:
            if style == "inc":
                run += rng.randrange(0, 2)
                x = run
            elif style == "dec":
                run = max(0, run - rng.randrange(0, 2))
                x = run
            else:
                x = rng.randrange(vmax + 1)
            k = rng.random()
            ops.append(("t%d" if k < 0.12 else "m%d" if k < 0.4 else "p%d") % x)
    return ops


def random_case(rng):
    vmax = rng.choice([1, 2, 3, 5, 9, 50, 1000])
    hs = rng.choice([0, 0, 1, 2, 3, 4, 5, 6, 7, 8, 10, 13, 17, 31])
    hstyle = rng.random()
    if hstyle < 0.15:
        xs = [rng.randrange(vmax + 1)] * hs            # all equal
    elif hstyle < 0.3:
        xs = list(range(hs))                            # strictly monotone
    else:
        xs = [rng.randrange(vmax + 1) for _ in range(hs)]
    heap = heap_of(xs, rng)
    nb = rng.choice([1, 1, 2, 3])
    batches, size = [], len(heap)
    for _ in range(nb):
        style = rng.choice(["mixed", "mixed", "pop-heavy", "push-heavy", "inc", "dec"])
        b = random_batch(rng, rng.choice([0, 1, 2, 3, 4, 5, 6, 8, 11]), style, vmax)
        batches.append(b)
        size += sum(1 for o in b if o[0] in "pm")
    batches.append(drain(size))
    return case_line(heap, batches)


def throw_family(rng):
    """a base batch without throwing pushes + the same batch with a throwing push inserted at every position"""
    vmax = rng.choice([2, 5, 20])
    heap = heap_of([rng.randrange(vmax + 1) for _ in range(rng.randrange(0, 9))], rng)
    b = [o for o in random_batch(rng, rng.randrange(0, 8), rng.choice(["mixed", "pop-heavy", "push-heavy"]), vmax) if o[0] != "t"]
    fam = [case_line(heap, [b])]
    for k in range(len(b) + 1):
        fam.append(case_line(heap, [b[:k] + ["t%d" % rng.randrange(vmax + 1)] + b[k:]]))
    return fam


def sift_lines(rng, n):
    lines = []
    for _ in range(n):
        vmax = rng.choice([1, 3, 9, 100])
        sz = rng.randrange(0, 20)
        if rng.random() < 0.7:
            m = rng.randrange(0, sz + 1)
            d = heap_of([rng.randrange(vmax + 1) for _ in range(m)], rng) + [rng.randrange(vmax + 1) for _ in range(sz - m)]
        else:
            d = [rng.randrange(vmax + 1) for _ in range(sz)]
            m = rng.randrange(0, sz + 1)
        lines.append("heapify %d %s" % (m, " ".join(map(str, d))))
        if sz:
            lines.append("reheap %d %s" % (m, " ".join(map(str, d))))
    return lines


def monitor_sift(line, out):
    w = line.split()
    m, d = int(w[1]), [int(x) for x in w[2:]]
    if not is_heap(d, m):
        return None
    try:
        parts = out.split("|")
        m2, d2 = int(parts[0]), [int(x) for x in parts[1].split()]
    except (ValueError, IndexError):
        return "unparsable: %r" % out
    if w[0] == "heapify":
        if m2 != len(d) or not is_heap(d2) or Counter(d2) != Counter(d):
            return "heapify of heap-prefix %d of %s gave mark %d data %s" % (m, d, m2, d2)
    else:
        if m2 != min(m, len(d) - 1) or not is_heap(d2, m2) or Counter(d2) + Counter([d[0]]) != Counter(d) or d2[m2:] != d[m:len(d) - 1][:len(d2) - m2] and m >= 1:
            return "reheap of mark %d %s gave mark %d data %s" % (m, d, m2, d2)
    return None


# ---------------------------------------------------------------------------------------------
# shrinking a failing `batch` line (the predicate runs the real code + monitors)
# ---------------------------------------------------------------------------------------------
def shrink_case(exe, line, failing):
    heap, batches = parse_case(line)
    best = (heap, batches)

    def cands(heap, batches):
        for bi, b in enumerate(batches):
            for k in range(len(b)):
                nb = [list(x) for x in batches]
                del nb[bi][k]
                yield heap, nb
            if not b and len(batches) > 1:
                yield heap, batches[:bi] + batches[bi + 1:]
        for k in range(len(heap)):
            yield heap_of(heap[:k] + heap[k + 1:]), batches
        vals = sorted({x for x in heap} | {int(o[1:]) for b in batches for o in b if o not in ("o", "x")})
        rank = {v: i for i, v in enumerate(vals)}
        if vals and vals != list(range(len(vals))):
            yield heap_of([rank[x] for x in heap]) if not is_heap([rank[x] for x in heap]) else [rank[x] for x in heap], \
                [[o if o in ("o", "x") else o[0] + str(rank[int(o[1:])]) for o in b] for b in batches]

    for _ in range(200):
        cs = list(cands(*best))
        if not cs:
            break
        lines = [case_line(h, b) for h, b in cs]
        outs = run_impl(exe, lines, timeout=300)
        hit = None
        for c, l, o in zip(cs, lines, outs):
            if failing(l, o):
                hit = c
                break
        if hit is None:
            break
        best = hit
    return case_line(*best)


# ---------------------------------------------------------------------------------------------
# E-PURE stage
# ---------------------------------------------------------------------------------------------
def describe(line, out, model):
    return "input %r: implementation %r, model %r" % (line, out, model)


def run_pure(ck):
    exe = pure_exe()
    quick = ck.tier == "quick"
    rng = ck.rng
    groups = {}
    groups["exhaustive-small"] = exhaustive_cases([0, 1, 2], 3, 4, 3) if quick else \
        exhaustive_cases([0, 1, 2], 3, 4, 3) + exhaustive_cases([0, 1, 2, 3], 4, 3, 2)
    groups["random"] = [random_case(rng) for _ in range(6000 if quick else 300000)]
    fams = [throw_family(rng) for _ in range(250 if quick else 20000)]
    groups["throw-at-every-position"] = [l for f in fams for l in f]
    groups["arbitrary-data"] = []
    for _ in range(300 if quick else 10000):       # not heaps: correspondence only
        d = [rng.randrange(6) for _ in range(rng.randrange(0, 9))]
        groups["arbitrary-data"].append(case_line(d, [random_batch(rng, rng.randrange(0, 7), "mixed", 5)]))
    sift = sift_lines(rng, 1500 if quick else 60000)
    lines = [l for g in groups.values() for l in g] + sift
    impl = run_impl(exe, lines)
    model = [m.rstrip() for m in drv("c13", "\n".join(lines) + "\n", timeout=1800)]
    impl = [o.rstrip() for o in impl]
    ck.extra["pure_input_distribution"] = {k: len(v) for k, v in groups.items()} | {"heapify/reheap": len(sift)}
    ck.count(len(lines))
    nb = len(lines) - len(sift)
    # correspondence
    d = first_diff(impl, model)
    ck.oblige("corr:handle_operations/heapify/reheap == CpqBatch model (statuses, popped values, final data, mark)", "correspondence",
              d is None, "" if d is None else describe(lines[d], impl[d] if d < len(impl) else None, model[d] if d < len(model) else None))
    # monitors
    bad = []
    arb0 = sum(len(groups[k]) for k in ("exhaustive-small", "random", "throw-at-every-position"))
    for i, (l, o) in enumerate(zip(lines[:nb], impl[:nb])):
        if o.startswith("CRASH"):
            bad.append((l, o))
            continue
        why = monitor_case(l, o, heap_valid=(i < arb0))
        if why:
            bad.append((l, why))
        segs = parse_out(o)
        if segs:
            ck.distinct.add((len(parse_case(l)[0]) > 0, tuple(sorted(set(r[:1] + ("p" if t != "o" else "o") for s, b in zip(segs, parse_case(l)[1]) for r, t in zip(s[0], b)))), segs[0][1] == 0))
    ck.oblige("monitor:per-batch linearizability + conservation + statuses (independent checker on the real handle_operations)", "correspondence",
              not bad, bad[:2])
    # exception isolation on the implementation: family member k == base with the throwing push removed
    iso_bad = []
    off = len(groups["exhaustive-small"]) + len(groups["random"])
    for f in fams:
        outs = impl[off:off + len(f)]
        base = parse_out(outs[0])
        for k, (l, o) in enumerate(zip(f[1:], outs[1:])):
            s = parse_out(o)
            if base is None or s is None:
                iso_bad.append((l, o))
                continue
            res = s[0][0]
            if res[k:k + 1] != ["F"] or res[:k] + res[k + 1:] != base[0][0] or s[0][1:3] != base[0][1:3]:
                iso_bad.append((l, "with throwing push at %d: %s ; without: %s" % (k, o, outs[0])))
        off += len(f)
    ck.oblige("monitor:a throwing copy fails only its own op (every position; other results and final state unchanged)", "correspondence",
              not iso_bad, iso_bad[:2])
    sbad = []
    for l, o in zip(sift, impl[nb:]):
        why = "crashed: " + o if o.startswith("CRASH") else monitor_sift(l, o)
        if why:
            sbad.append((l, why))
    ck.oblige("monitor:heapify/reheap give heaps and preserve the multiset", "correspondence", not sbad, sbad[:2])
    for i in (0, len(groups["exhaustive-small"]) + 7, nb + 3):
        if i < len(lines):
            ck.sample({"input": lines[i], "impl": impl[i], "model": model[i] if i < len(model) else None})

    # --- pops whose element assignment throws (`x`): the model follows the code AS WRITTEN (generated flag) -----
    xl = []
    for _ in range(300 if quick else 6000):
        vmax = rng.choice([2, 5, 20])
        heap = heap_of([rng.randrange(vmax + 1) for _ in range(rng.randrange(0, 7))], rng)
        b = random_batch(rng, rng.randrange(1, 7), rng.choice(["mixed", "pop-heavy"]), vmax)
        for _ in range(rng.choice([1, 1, 2])):
            b.insert(rng.randrange(len(b) + 1), "x")
        xl.append(case_line(heap, [b, drain(len(heap) + len(b))]))
    xi = [o.rstrip() for o in run_impl(exe, xl)]
    xm = [m.rstrip() for m in drv("c13", "\n".join(xl) + "\n")]
    ck.count(len(xl))
    ck.extra["pure_input_distribution"]["pop-assignment-throws"] = len(xl)
    dx = first_diff(xi, xm)
    ck.oblige("corr:handle_operations with a throwing pop assignment == model of the code as written (escaped exception, unset statuses)", "correspondence",
              dx is None, "" if dx is None else describe(xl[dx], xi[dx] if dx < len(xi) else None, xm[dx] if dx < len(xm) else None))
    xbad = [(l, o if o.startswith("CRASH") else monitor_case(l, o)) for l, o in zip(xl, xi)]
    xbad = [(l, w) for l, w in xbad if w]
    ck.extra["pure_pop_assignment_throw_violations"] = len(xbad)
    if xbad:
        l, w = min(xbad, key=lambda x: len(x[0]))
        small = shrink_case(exe, l, lambda a, o: o.rstrip().startswith("CRASH") or monitor_case(a, o.rstrip()) is not None)
        out = run_impl(exe, [small])[0].rstrip()
        ck.oblige("monitor:a throwing pop assignment fails only its own op (white-box handle_operations)", "correspondence", False,
                  "%d of %d cases; smallest: `%s` -> `%s`" % (len(xbad), len(xl), small, out))
        if any(p == "C13" and k == ASSIGN_KEY for (p, k, t) in common.known_findings()):
            ck.obligations[-1]["explained"] = True
        ck.counterexample(ASSIGN_KEY, "handle_operations on `%s` -> `%s`: the exception of the pop's element assignment escapes handle_operations; "
                          "operations without status: %s" % (small, out, [i for i, r in enumerate(parse_out(out)[0][0]) if r == "W"] if parse_out(out) else "?"),
                          {"engine": "E-PURE", "harness": "harness/c13/pure.cpp", "stdin": small, "observed": out, "model": drv("c13", small + "\n")[0]})
    else:
        ck.oblige("monitor:a throwing pop assignment fails only its own op (white-box handle_operations)", "correspondence", True)

    # --- failing-input search ---------------------------------------------------------------
    def failing(l, o):
        o = o.rstrip()
        return o.startswith("CRASH") or monitor_case(l, o) is not None

    cands = [l for l, _ in bad] + [l for l, _ in iso_bad if monitor_case(l, impl[lines.index(l)])]
    if d is not None and not cands:
        # the model and the code disagree but no monitor fired on the generated cases: widen the search
        log("correspondence broken; searching for an input on which the property itself fails")
        extra = exhaustive_cases([0, 1, 2], 3, 4, 3) + exhaustive_cases([0, 1, 2, 3], 4, 3, 0) + [random_case(rng) for _ in range(20000)]
        eo = run_impl(exe, extra)
        ck.count(len(extra))
        cands = [l for l, o in zip(extra, eo) if failing(l, o)][:3]
        if not cands and d < nb and lines[d].startswith("batch"):
            # follow the differing state with more batches
            heap, batches = parse_case(lines[d])
            more = [case_line(heap, batches[:1] + [random_batch(rng, rng.randrange(1, 8), "mixed", 5), drain(30)]) for _ in range(3000)]
            mo = run_impl(exe, more)
            cands = [l for l, o in zip(more, mo) if failing(l, o)][:3]
    if cands:
        small = shrink_case(exe, min(cands, key=len), failing)
        out = run_impl(exe, [small])[0].rstrip()
        why = out if out.startswith("CRASH") else monitor_case(small, out)
        ck.counterexample("pure:" + small.replace(" ", "_"), "handle_operations on `%s` -> `%s`: %s" % (small, out, why),
                          {"engine": "E-PURE", "harness": "harness/c13/pure.cpp", "stdin": small, "observed": out, "violation": why,
                           "model": drv("c13", small + "\n")[0]})
    elif sbad:
        l, why = min(sbad, key=lambda x: len(x[0]))
        ck.counterexample("sift:" + l.replace(" ", "_"), why, {"engine": "E-PURE", "harness": "harness/c13/pure.cpp", "stdin": l, "violation": why, "sift": True})


# ---------------------------------------------------------------------------------------------
# E-SHIM: the aggregator under the controlled scheduler
# ---------------------------------------------------------------------------------------------
SHIM_CXX = ["-O1", "-g", "-fno-access-control"]


def shim_exe():
    return cxx_build("C13", "shim", ["harness/c13/shim.cpp", common.SHIM_SRC, STUBS], flags=SHIM_CXX + common.SHIM_FLAGS)


def scen_text(init, ths, sched):
    return "init " + " ".join(map(str, init)) + "\n" + "".join("thread " + " ".join(o) + "\n" for o in ths) + "sched " + sched + "\n"


def trim_sched(sched):
    """drop the trailing repetition of one thread (ReplaySchedule continues non-preemptively after its end)"""
    s = list(sched)
    while len(s) > 40 and s[-1] == s[-2] == s[-3]:
        s.pop()
    return s


def parse_runs(out):
    """stdout of harness/c13/shim.cpp -> list of runs {log:[('ev',fields)|('note',tid,tag,seq)], ops, sched, deadlock, final}"""
    runs, cur = [], None
    for l in out.split("\n"):
        w = l.split()
        if not w:
            continue
        if w[0] == "run":
            cur = {"log": [], "ops": [], "sched": [], "deadlock": None, "final": None, "complete": False}
            runs.append(cur)
        elif cur is None:
            continue
        elif w[0] == "ev":
            cur["log"].append(("ev", w[1:]))
        elif w[0] == "note":
            cur["log"].append(("note", int(w[1]), w[2], int(w[3])))
        elif w[0] == "op" and len(w) < 7:
            cur["complete"] = False          # truncated line: the harness died while printing
            cur = None
        elif w[0] == "op":
            cur["ops"].append({"tid": int(w[1]), "seq": int(w[2]), "op": w[3], "res": w[4], "begin": int(w[5]), "end": int(w[6]),
                               "cls": int(w[7]) if len(w) > 7 else 0})
        elif w[0] == "sched":
            cur["sched"] = trim_sched([int(x) for x in w[1:]])
        elif w[0] == "deadlock":
            cur["deadlock"] = (w[1] == "1", w[2:])
        elif w[0] == "final":
            cur["final"] = [int(x) for x in w[1:]]
        elif w[0] == "locked":
            cur["locked"] = True
        elif w[0] == "end":
            cur["complete"] = True
    return runs


def accesses(run):
    """the atomic accesses of the code under test, canonical: no start/end/pause/yield, no element-copy probes;
    a store is compared by the value written only (the overwritten value is shim-version dependent)"""
    acc = []
    for e in run["log"]:
        if e[0] != "ev":
            continue
        w = list(e[1])
        if w[1] in ("start", "end", "pause", "yield") or w[2] == "elem":
            continue
        if w[1] == "store":
            w[5] = "0"
        acc.append(" ".join(w))
    return acc


def history_linearizable(init, ops):
    """Wing-Gong search: ops = [{begin,end,op,res}] (end = -1: never returned -> not allowed here)."""
    n = len(ops)
    dead = set()
    ends = [o["end"] for o in ops]

    def rec(done, cont):
        if done == (1 << n) - 1:
            return True
        if done in dead:
            return False
        first_end = min(ends[i] for i in range(n) if not done >> i & 1)
        for i in range(n):
            if done >> i & 1 or ops[i]["begin"] > first_end:
                continue
            o, r = ops[i]["op"], ops[i]["res"]
            if o == "o":
                if r == "F":
                    if +cont:
                        continue
                    c2 = cont
                else:
                    v = int(r[2:])
                    live = [k for k, c in cont.items() if c > 0]
                    if not live or v != max(live):
                        continue
                    c2 = cont.copy()
                    c2[v] -= 1
            else:
                if r == "S":
                    c2 = cont.copy()
                    c2[int(o[1:])] += 1
                else:
                    c2 = cont
            if rec(done | 1 << i, c2):
                return True
        dead.add(done)
        return False

    return rec(0, Counter(init))


def shim_monitor(init, run):
    """implementation-side monitors on one controlled run; returns None or a description of the violation"""
    if run["deadlock"] and run["deadlock"][0]:
        return "deadlock: every live thread parked (threads %s) - lost hand-off" % " ".join(run["deadlock"][1])
    if not run["complete"]:
        return "run did not complete"
    if run.get("locked"):
        return "deadlock: handler_busy is still set after all threads finished - every later operation on the queue spins forever; results: " + \
            " ".join("T%d:%s->%s" % (o["tid"], o["op"], o["res"]) for o in run["ops"])
    ops = run["ops"]
    # results: statuses and exception routing
    pushed, popped = [], []
    for o in ops:
        if o["end"] < 0 or o["res"] == "W":
            return "operation %s of thread %d never returned" % (o["op"], o["tid"])
        if o["res"] == "X":
            return "a foreign exception reached the caller of %s (thread %d)" % (o["op"], o["tid"])
        if o["op"] == "x":
            if o["res"] != "E":
                return "try_pop whose element assignment throws returned %s instead of propagating the exception to its own caller" % o["res"]
            continue
        if o["op"][0] == "t" and o["res"] != "F":
            return "push whose copy throws returned %s to its caller" % o["res"]
        if o["op"][0] in "pm":
            if o["res"] != "S":
                return "push %s failed (%s) although nothing threw in it: an exception leaked from another operation" % (o["op"], o["res"])
            pushed.append(int(o["op"][1:]))
        if o["op"] == "o" and o["res"].startswith("S:"):
            v = int(o["res"][2:])
            if v < 0:
                return "try_pop returned true with an element that was not written yet (%d): status visible before the element was moved" % v
            popped.append(v)
    if Counter(run["final"]) + Counter(popped) != Counter(init) + Counter(pushed):
        return "elements lost/duplicated: initial %s + pushed %s != remaining %s + popped %s" % (sorted(init), sorted(pushed), sorted(run["final"]), sorted(popped))
    if len(ops) <= 14 and not history_linearizable(init, [o for o in ops if o["op"] != "x"]):
        return "history is not linearizable w.r.t. the priority-queue spec: " + " ".join("T%d:%s->%s[%d,%d]" % (o["tid"], o["op"], o["res"], o["begin"], o["end"]) for o in ops)
    # batch structure from the atomic-level log
    nx, curop, submitted, grabbed, statused, ended = {}, {}, set(), set(), set(), set()
    active = None
    for e in run["log"]:
        if e[0] == "note":
            _, tid, tag, seq = e
            if tag == "begin":
                curop[tid] = seq
            else:
                if (tid, seq) not in statused:
                    return "thread %d returned from operation %d before its status was stored" % (tid, seq)
                ended.add((tid, seq))
            continue
        w = e[1]
        tid, kind, var = int(w[0]), w[1], w[2]
        if kind == "cas" and var == "pending" and w[6] == "1":
            submitted.add((tid, curop.get(tid)))
        elif kind == "store" and var.startswith("nx"):
            nx[var[2:]] = w[4]
        elif kind == "xchg" and var == "pending":
            if active is not None:
                return "thread %d grabs a batch while thread %d is still handling one (handlers not mutually exclusive)" % (tid, active[0])
            members, p, guard = [], w[4], 0
            while p != "0" and guard < 100:
                if not p.startswith("op"):
                    return "pending list contains a non-operation pointer %s" % p
                u = int(p[2:].split(".")[0])
                members.append(u)
                p = nx.get(str(u), "0")
                guard += 1
            for u in members:
                k = (u, curop.get(u))
                if k not in submitted or k in grabbed or k in ended:
                    return "batch of thread %d contains operation %s that is not pending (not submitted / already in a batch / already returned)" % (tid, k)
                grabbed.add(k)
            if len(set(members)) != len(members):
                return "an operation occurs twice in a batch"
            active = (tid, set(members))
        elif kind == "store" and var.startswith("st") and w[4] != "0":
            u = int(var[2:])
            if active is None or active[0] != tid:
                return "thread %d stores the status of thread %d's operation outside a batch it handles" % (tid, u)
            if u not in active[1]:
                return "status of thread %d's operation stored twice or for an operation outside the batch" % u
            active[1].discard(u)
            statused.add((u, curop.get(u)))
        elif kind == "store" and var == "busy" and w[4] == "0":
            if active is None or active[0] != tid:
                return "handler_busy released by thread %d which is not the active handler" % tid
            if active[1]:
                return "handler_busy released while operations %s of the batch have no status yet (batch not finished)" % sorted(active[1])
            active = None
    for o in ops:
        if (o["tid"], o["seq"]) not in grabbed:
            return "operation %d of thread %d was never in a batch" % (o["seq"], o["tid"])
    return None


STRUCTURAL = ("thread %d grabs a batch while", "batch of thread", "an operation occurs twice", "stores the status of thread", "status of thread",
              "handler_busy released", "pending list contains", "was never in a batch", "returned from operation")


def severity(why):
    """2 = the property itself is violated on this run (wrong result / lost element / hang / leaked exception / memory error),
    1 = only the batch discipline is violated (handlers overlap, status outside a batch, ...)"""
    w = why.replace("%d", "")
    for p in STRUCTURAL:
        q = p.replace("%d", "")
        if q.split()[0] in why and all(tok in why for tok in q.split() if not tok.startswith("%")):
            return 1
    return 2


def shim_model_replay(init, ths, run):
    """feed the schedule of atomic accesses to the Lean `Agg` model; returns None or the first difference"""
    acc = accesses(run)
    cls = {(o["tid"], o["seq"]): o["cls"] for o in run["ops"]}
    ml = ["init " + " ".join(map(str, init))] + ["thread " + " ".join("%s@%d" % (o, cls.get((t, k), 0)) for k, o in enumerate(ops)) for t, ops in enumerate(ths)] \
        + ["s " + a.split()[0] for a in acc] + ["results", "final"]
    mo = drv("c13agg", "\n".join(ml) + "\n")
    pre = 1 + len(ths)
    d = first_diff(acc, mo[pre:pre + len(acc)])
    if d is not None:
        return "access %d: implementation `%s`, model `%s`" % (d, acc[d] if d < len(acc) else None, mo[pre + d] if pre + d < len(mo) - 2 else None)
    res = " | ".join(" ".join(o["res"] for o in run["ops"] if o["tid"] == t and o["res"] != "W") for t in range(len(ths)))
    if [x.strip() for x in res.split("|")] != [x.strip() for x in mo[-2].split("|")]:
        return "results: implementation `%s`, model `%s`" % (res, mo[-2])
    if run["final"] is not None:
        fin = sorted(int(x) for x in mo[-1].split("|")[1].split())
        if fin != sorted(run["final"]):
            return "final contents: implementation %s, model %s" % (sorted(run["final"]), fin)
    return None


def random_scenario(rng, small=False):
    T = rng.choice([2, 2] if small else [2, 2, 3, 3, 4])
    vmax = rng.choice([1, 3, 6])
    init = [rng.randrange(vmax + 1) for _ in range(rng.randrange(0, 3 if small else 5))]
    ths = []
    for _ in range(T):
        ops = []
        for _ in range(rng.randrange(1, 3 if small else 4)):
            r = rng.random()
            ops.append("o" if r < 0.45 else ("t%d" if r < 0.55 else "m%d" if r < 0.7 else "p%d") % rng.randrange(vmax + 1))
        ths.append(ops)
    return init, ths


def run_scenario(exe, init, ths, sched, timeout=120):
    rc, out, err = sh([exe], input=scen_text(init, ths, sched), timeout=timeout)
    if rc == -9:
        err = "TIMEOUT after %ds (the harness hangs outside the controlled scheduler) " % timeout + err
    return rc, parse_runs(out), err


def run_shim(ck):
    exe = shim_exe()
    quick = ck.tier == "quick"
    rng = ck.rng
    bad_mon, bad_corr = [], []
    nruns = 0
    dist = Counter()

    def examine(init, ths, run, check_model=True):
        nonlocal nruns
        nruns += 1
        why = shim_monitor(init, run)
        if why:
            bad_mon.append((init, ths, "replay " + " ".join(map(str, run["sched"])), why))
            return
        if check_model:
            d = shim_model_replay(init, ths, run)
            if d:
                bad_corr.append((init, ths, "replay " + " ".join(map(str, run["sched"])), d))
            else:
                ck.traces_validated += 1
        nb = sum(1 for e in run["log"] if e[0] == "ev" and e[1][1] == "xchg")
        ck.count(1, (len(ths), sum(map(len, ths)), nb))
        dist[(len(ths), "batches=%d" % nb)] += 1

    # random schedules on random scenarios (several seeds and two preemption densities per scenario)
    for _ in range(150 if quick else 3000):
        if len(bad_mon) > 25:
            break                    # badly broken tree: enough material for the failing-input search
        init, ths = random_scenario(rng)
        for stay in (96, 200):
            seed0 = rng.randrange(1, 1 << 30)
            rc, runs, err = run_scenario(exe, init, ths, "randoms %d %d %d" % (seed0, 4 if quick else 8, stay))
            for run in runs:
                examine(init, ths, run)
            if rc not in (0, 3):
                bad_mon.append((init, ths, "random %d %d" % (seed0 + len(runs), stay), "harness crashed (memory error) rc=%d %s" % (rc, err.strip()[-200:])))
    # bounded-preemption DFS on small scenarios
    for _ in range(12 if quick else 120):
        if len(bad_mon) > 25:
            break
        init, ths = random_scenario(rng, small=True)
        rc, runs, err = run_scenario(exe, init, ths, "dfs 2 %d" % (300 if quick else 3000), timeout=900)
        for i, run in enumerate(runs):
            examine(init, ths, run, check_model=(i % 10 == 0))
        if rc not in (0, 3):
            bad_mon.append((init, ths, "dfs 2 %d" % (len(runs) + 1), "harness crashed (memory error) rc=%d %s" % (rc, err.strip()[-200:])))
    ck.extra["shim_runs"] = nruns
    ck.extra["shim_distribution"] = {"%d threads %s" % k: v for k, v in sorted(dist.items())}
    ck.oblige("corr:aggregator+handler trace replays against the Lean `Agg` model (every atomic access, value, result, final contents)",
              "correspondence", not bad_corr, [(scen_text(i, t, s), d) for i, t, s, d in bad_corr[:1]])
    ck.oblige("monitor:handlers mutually exclusive, each op in exactly one batch with one status, linearizable history, no lost element, exceptions only to their caller (E-SHIM)",
              "correspondence", not bad_mon, [(scen_text(i, t, s), d) for i, t, s, d in bad_mon[:1]])
    if bad_mon:
        init, ths, sched, why = min(bad_mon, key=lambda b: (-severity(b[3]), sum(map(len, b[1])), len(b[2])))
        ck.sample({"scenario": ths, "init": init, "violation": why})
    else:
        init, ths = random_scenario(rng)
        rc, runs, err = run_scenario(exe, init, ths, "random 7")
        if runs:
            ck.sample({"scenario": ths, "init": init, "ops": [[o["tid"], o["op"], o["res"]] for o in runs[0]["ops"]], "first accesses": accesses(runs[0])[:12]})

    # --- failing-input search ---------------------------------------------------------------
    found = bad_mon[:]
    if (bad_corr or found) and not any(severity(f[3]) == 2 for f in found):
        log("aggregator correspondence/batch discipline broken; searching schedules for a run on which the property itself fails")
        for k in range(300 if quick else 3000):
            init, ths = random_scenario(rng, small=(k % 3 == 0))
            seed0 = rng.randrange(1, 1 << 30)
            stay = rng.choice([60, 120, 220])
            spec = "dfs 2 400" if k % 8 == 0 else "randoms %d 6 %d" % (seed0, stay)
            rc, runs, err = run_scenario(exe, init, ths, spec, timeout=600)
            ck.count(len(runs))
            for run in runs:
                why = shim_monitor(init, run)
                if why:
                    found.append((init, ths, "replay " + " ".join(map(str, run["sched"])), why))
            if rc not in (0, 3) and not spec.startswith("dfs"):
                found.append((init, ths, "random %d %d" % (seed0 + len(runs), stay), "harness crashed (memory error) rc=%d %s" % (rc, err.strip()[-200:])))
            if sum(1 for f in found if severity(f[3]) == 2 and "crashed" not in f[3]) >= 2:
                break
    if found:
        def rank(b):
            return (-severity(b[3]), "crashed" in b[3], sum(map(len, b[1])), len(b[2]))
        init, ths, sched, why = min(found, key=rank)
        if "crashed" not in why:
            init, ths, sched, why = shrink_scenario(exe, init, ths, sched, why, rng)
        text = scen_text(init, ths, sched)
        key = "shim:" + "/".join(",".join(o) for o in ths) + ":" + why.split(":")[0].split("(")[0].strip().replace(" ", "-")[:60]
        ck.counterexample(key, "threads %s on initial contents %s under schedule `%s`: %s" % (ths, init, sched, why),
                          {"engine": "E-SHIM", "harness": "harness/c13/shim.cpp", "stdin": text, "violation": why, "init": init,
                           "property_level": severity(why) == 2})


def shrink_scenario(exe, init, ths, sched, why, rng):
    """greedy: drop operations / initial elements while some schedule (DFS bound 2 + random seeds) still violates"""
    sev = severity(why)

    def search(init, ths):
        for schedspec in ("dfs 2 1500", "randoms %d 40 96" % rng.randrange(1, 1 << 30), "randoms %d 40 200" % rng.randrange(1, 1 << 30)):
            rc, runs, err = run_scenario(exe, init, ths, schedspec, timeout=600)
            for run in runs:
                w = shim_monitor(init, run)
                if w and severity(w) >= sev:
                    return "replay " + " ".join(map(str, run["sched"])), w
        return None
    improved = True
    while improved:
        improved = False
        cands = []
        for t in range(len(ths)):
            for k in range(len(ths[t])):
                nt = [list(x) for x in ths]
                del nt[t][k]
                nt = [x for x in nt if x]
                if len(nt) >= 1:
                    cands.append((init, nt))
        for k in range(len(init)):
            cands.append((init[:k] + init[k + 1:], ths))
        for ci, ct in cands:
            r = search(ci, ct)
            if r:
                init, ths, (sched, why) = ci, ct, r
                improved = True
                break
    return init, ths, sched, why


# ---------------------------------------------------------------------------------------------
# probe: an exception thrown by the element's (move) assignment inside try_pop  -- NOT covered by the model
# ---------------------------------------------------------------------------------------------
ASSIGN_KEY = "pop-assignment-throw-locks-queue"


def run_assign_throw_probe(ck):
    exe = shim_exe()
    cases = [([5, 2], [["x"], ["p3"]], "dfs 2 300"), ([5], [["x", "p1"]], "replay 0"), ([4], [["p6"], ["x"], ["o"]], "randoms 11 20 96"),
             ([5], [["x"]], "replay 0"), ([3], [["p1"], ["x"]], "randoms 5 20 200"), ([], [["m2", "x"], ["o"]], "randoms 9 20 96"),
             ([7, 1], [["x", "o"], ["x"]], "randoms 21 20 96")]
    viol, corr_bad, nrep = None, [], 0
    for init, ths, spec in cases:
        rc, runs, err = run_scenario(exe, init, ths, spec, timeout=300)
        for run in runs:
            why = shim_monitor(init, run)
            if why and viol is None:
                viol = (init, ths, "replay " + " ".join(map(str, run["sched"])), why)
            d = shim_model_replay(init, ths, run)      # the model follows the code as written, escaped exception included
            nrep += 1
            if d:
                corr_bad.append((scen_text(init, ths, "replay " + " ".join(map(str, run["sched"]))), d))
        if rc not in (0, 3) and viol is None:
            viol = (init, ths, spec, "harness terminated rc=%d %s" % (rc, err.strip()[-200:]))
    ck.count(nrep)
    ck.oblige("corr:aggregator trace with a throwing pop assignment replays against the model of the code as written", "correspondence",
              not corr_bad, corr_bad[:1])
    ck.extra["assign_throw_probe"] = "no violation" if viol is None else {"init": viol[0], "threads": viol[1], "sched": viol[2], "observed": viol[3]}
    name = "monitor:an exception from the element's assignment inside try_pop reaches only that caller, queue stays usable"
    if viol is None:
        ck.oblige(name, "correspondence", True)
        return
    what = ("try_pop whose element move/copy ASSIGNMENT throws (`x`): threads %s on contents %s under `%s`: %s  [the assignment in handle_operations is "
            "outside any try block: the exception unwinds through the handler thread, handler_busy stays 1 and the rest of the batch never gets a status; "
            "Lean: cpq_pop_throw_not_isolated / aggregator_pop_throw_witness]" % (viol[1], viol[0], viol[2][:200], viol[3]))
    ck.oblige(name, "correspondence", False, what)
    if any(p == "C13" and k == ASSIGN_KEY for (p, k, t) in common.known_findings()):
        ck.obligations[-1]["explained"] = True      # accounted for by the known finding below
    ck.counterexample(ASSIGN_KEY, what, {"engine": "E-SHIM", "harness": "harness/c13/shim.cpp", "stdin": scen_text(viol[0], viol[1], viol[2]),
                                         "violation": viol[3], "init": viol[0]})


# ---------------------------------------------------------------------------------------------
def run(ck):
    ck.rule = ("E-PURE: every valid heap over {0,1,2} of size<=3 x every batch of <=4 ops (thorough adds values {0..3}, heaps<=4, <=3 ops) "
               "incl. a throwing push, each followed by a drain batch; random heaps (sizes 0..31, duplicates, all-equal, strictly monotone) x 1-3 random "
               "batches (mixed/pop-heavy/push-heavy/increasing/decreasing runs, const&/rvalue/throwing pushes) + drain; a throwing push inserted at "
               "every position of random batches; random batches with pops whose element assignment throws; heapify/reheap on random (mark, data). "
               "E-SHIM: 2-4 threads x 1-3 calls (const&/rvalue/throwing push, try_pop) on 0-4 initial elements under random schedules (two preemption densities) and "
               "bounded-preemption (2) DFS on 2-thread scenarios; every run is checked by the monitors, the atomic-level trace is replayed against the Lean Agg model. distinct = (empty heap?, set of (status, op kind), final mark 0?)")
    ck.assumptions += [
        "CpqBatch models handle_operations/heapify/reheap on (data, mark) with Nat priorities and std::less; my_size is only checked to equal data.size() after each batch",
        "a throwing element copy is modelled for push(const T&) (the only place where handle_operations catches); vector growth moves elements (noexcept move)",
        "a pop whose element ASSIGNMENT throws (`x`, Op.pop true) is modelled AS CODED: Generated/C13.lean:popAssignGuarded is regenerated from the source "
        "(false in the pinned tree: the assignment is outside any try block, the exception leaves handle_operations in the handler thread, handler_busy stays set, "
        "the rest of the batch gets no status); all theorems about results assume no such pop (NoThrowingPop / popThrows = false); "
        "cpq_pop_throw_not_isolated and aggregator_pop_throw_witness are the closed negation witnesses; known finding `pop-assignment-throw-locks-queue`",
        "NOT modelled: exceptions from element moves inside heapify/reheap (types whose move constructor/assignment can throw), allocator failure",
        "not proved in Lean (checked by the E-SHIM trace replay only): the handler steps of Agg compute handleIdx of the grabbed batch; the next fields agree with the lists plist/rem/dfr",
        "the linearization of a whole concurrent history is the concatenation of per-batch orders (cpq_batch_linearizable) in batch order, justified by "
        "aggregator_serial_exactly_once; that composition step is stated in prose (Props/C13.lean header), not as a Lean theorem over histories",
    ]
    ck.trusted += ["harness/c13/pure.cpp (hand-built operation lists, private members via -fno-access-control)",
                   "checks/c13.py monitors (brute-force batch linearizability, conservation)",
                   "correspondence is sampled/exhaustive-small (differential), not proved"]
    import time
    stage = {}
    t0 = time.time()
    gen(ck)
    ck.lean_stage()
    stage["gen+lean (incl. waiting for the shared build lock)"] = round(time.time() - t0, 1)
    t0 = time.time()
    run_pure(ck)
    stage["E-PURE"] = round(time.time() - t0, 1)
    t0 = time.time()
    run_shim(ck)
    stage["E-SHIM"] = round(time.time() - t0, 1)
    t0 = time.time()
    run_assign_throw_probe(ck)
    stage["pop-assignment-throw probe"] = round(time.time() - t0, 1)
    ck.extra["stage_seconds"] = stage


def replay(ck, obj):
    r = obj["replay"]
    if r.get("engine") == "E-PURE":
        exe = pure_exe()
        line = r["stdin"]
        out = run_impl(exe, [line])[0].rstrip()
        why = ("crashed: " + out) if out.startswith("CRASH") else (monitor_sift(line, out) if r.get("sift") else monitor_case(line, out))
        print("replay of %s\n  input : %s\n  output: %s\n  model : %s" % (obj.get("key"), line, out, drv("c13", line + "\n")[0]))
        print("  -> %s" % ("STILL FAILS: " + why if why else "property holds now"))
        return 1 if why else 0
    if r.get("engine") == "E-SHIM":
        exe = shim_exe()
        rc, out, err = sh([exe], input=r["stdin"], timeout=300)
        runs = parse_runs(out)
        if rc not in (0, 3):
            why = "harness crashed (memory error) rc=%d %s" % (rc, err.strip()[-200:])
        else:
            why = shim_monitor(r.get("init", []), runs[0]) if runs else "harness produced no run (rc=%d %s)" % (rc, err[-300:])
        print("replay of %s\n%s" % (obj.get("key"), r["stdin"]))
        if runs:
            for o in runs[0]["ops"]:
                print("  T%d %s -> %s" % (o["tid"], o["op"], o["res"]))
            print("  remaining contents: %s" % runs[0]["final"])
        print("  -> %s" % ("STILL FAILS: " + why if why else "property holds now"))
        return 1 if why else 0
    print("unknown replay engine %r" % r.get("engine"))
    return 2
