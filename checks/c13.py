"""C13 — concurrent_priority_queue is a linearizable priority queue (DESIGN.md §3 C13).

Elements are `<key>:<id>` (or `<n>` for key = id = n): the queue's comparator sees the key only, so distinct ids with
equal keys are ties of the comparator; results and vector contents are compared by id.  Every case is run with
several comparators (identity, coarse classes v//d, residues v%m, all-equal, and — through a user-supplied Compare
template argument — the reversed order).

Ties:
  E-GEN   the four guards of handle_operations and its statement skeleton are re-translated from the source
          (checks/c13gen.py -> Generated/C13.lean); the model is defined from the guards, Props/C13.lean checks the skeleton.
  E-PURE  white-box calls of the real handle_operations / heapify / reheap (harness/c13/pure.cpp) against the Lean
          model `CpqBatch` (drv_c13 c13), plus implementation-side monitors (conservation, per-batch
          linearizability by an independent brute-force checker, exception isolation, heap invariant).
  E-SHIM  2-4 threads calling push/try_pop on a real queue under the controlled scheduler
          (harness/c13/shim.cpp): the atomic-level trace is replayed against the Lean `Agg` model (drv_c13 c13agg),
          batch structure + linearizability monitors on the implementation side.
"""
import itertools
import json
import os
import re
from collections import Counter

import c13gen
import common
from common import BuildError, REPO, cxx_build, drv, first_diff, gen_write, log, sh

HDR = os.path.join(REPO, "include/oneapi/tbb/concurrent_priority_queue.h")

STUBS = "harness/common/r1_stubs.cpp"
PURE_FLAGS = ["-O1", "-g", "-fno-access-control", "-fsanitize=address,undefined", "-fno-sanitize-recover=all"]


# ---------------------------------------------------------------------------------------------
# E-GEN: is the element assignment of a pop inside a try block?  (regenerated from the source on every run)
# ---------------------------------------------------------------------------------------------
def translate_pop_guard():
    """(guarded?, [per occurrence: inside a try block?]) for every assignment `*(<op>->elem) = ...` to a pop's result element in
    concurrent_priority_queue.h (in the pinned tree: three, all in handle_operations, none inside a try block)"""
    src = open(HDR).read()
    m = re.search(r"class\s+concurrent_priority_queue\s*\{", src)
    if not m:
        raise ValueError("class concurrent_priority_queue not found")
    body = src[m.end():]
    body = re.sub(r"//[^\n]*", "", body)
    body = re.sub(r"/\*.*?\*/", "", body, flags=re.S)
    body = re.sub(r"^\s*#[^\n]*$", "", body, flags=re.M)
    stack, occ = [], []
    for t in re.finditer(r"\*\s*\(\s*\w+\s*->\s*elem\s*\)\s*=(?!=)|[{}]", body):
        if t.group(0) == "{":
            stack.append(bool(re.search(r"\btry\s*$", body[:t.start()])))
        elif t.group(0) == "}":
            if not stack:
                break
            stack.pop()
        else:
            occ.append(any(stack))
    if not occ:
        raise ValueError("no `*(op->elem) = ...` assignment found")
    if all(occ) != any(occ):
        raise ValueError("only some of the pop assignments are inside a try block: %s" % occ)
    return all(occ), occ


def gen(ck):
    try:
        g, occ = translate_pop_guard()
        ck.oblige("gen:popAssignGuarded-translated", "generated", True, "pop element assignments inside a try block: %s" % occ)
    except (ValueError, OSError) as e:
        ck.oblige("gen:popAssignGuarded-translated", "generated", False, "translator cannot read handle_operations: %s" % e)
        g = False
    try:
        tr = c13gen.translate(open(HDR).read())
        ck.oblige("gen:handle_operations guards + statement skeleton translated", "generated", True,
                  "shortcutP1 `%s`; shortcutP2 `%s`; emptyP2 `%s`; finishGuard `%s`" % (tr["shortcutP1_src"], tr["shortcutP2_src"], tr["emptyP2_src"], tr["finish_src"]))
    except (c13gen.GenError, OSError) as e:
        ck.oblige("gen:handle_operations guards + statement skeleton translated", "generated", False,
                  "translator cannot read handle_operations: %s" % e)
        tr = dict(c13gen.FALLBACK)
    ck.extra["generated_constants"] = {"popAssignGuarded": g} | {k: tr[k] for k in ("shortcutP1", "shortcutP2", "emptyP2", "finishGuard")}
    ck.extra["generated_skeleton"] = {k: tr[k] for k in ("topLevel", "p1Head", "p1PopShortcut", "p1PopDefer", "p1Push", "p2Head", "p2Empty", "p2Shortcut", "p2Top")}
    gen_write("C13", c13gen.lean_body(tr, g))
    return g


# ---------------------------------------------------------------------------------------------
# helpers: heaps, line syntax
# ---------------------------------------------------------------------------------------------
IDENT = lambda v: v          # the comparator's key of an id (default: std::less on the ids)


def is_heap(d, m=None, key=IDENT):
    m = len(d) if m is None else m
    return all(key(d[i]) <= key(d[(i - 1) // 2]) for i in range(1, m))


def heap_of(xs, rng=None, key=IDENT):
    """a valid max-heap array (w.r.t. key) with the elements xs (shape varied through the insertion order)"""
    d = []
    xs = list(xs)
    if rng is not None:
        rng.shuffle(xs)
    for x in xs:
        d.append(x)
        i = len(d) - 1
        while i and key(d[(i - 1) // 2]) < key(d[i]):
            d[i], d[(i - 1) // 2] = d[(i - 1) // 2], d[i]
            i = (i - 1) // 2
    return d


def case_line(heap, batches):
    return "batch " + " ".join(map(str, heap)) + " | " + " ; ".join(" ".join(b) for b in batches)


# ---- comparators.  A case is generated over plain ids; `keyed(line, mode)` rewrites every element of the line to
# `<key>:<id>` with the EFFECTIVE key the (max-)queue orders by; `impl_line` gives the line for the real code, which
# for the reversed modes runs concurrent_priority_queue<Elem, KeyGreater> on mirrored keys.
MODES = ("id", "id", "div2", "div3", "mod2", "mod3", "const", "rev", "revdiv2")
KMAX = 10 ** 6


def mode_key(mode):
    m = mode[3:] if mode.startswith("rev") else mode
    if m in ("", "id"):
        f = lambda v: v
    elif m.startswith("div"):
        d = int(m[3:]); f = lambda v: v // d
    elif m.startswith("mod"):
        d = int(m[3:]); f = lambda v: v % d
    elif m == "const":
        f = lambda v: 0
    else:
        raise ValueError(mode)
    if mode.startswith("rev"):
        return lambda v: KMAX - f(v)          # effective key of the min-queue on f
    return f


def tok_elem(k, i):
    return str(i) if k == i else "%d:%d" % (k, i)


def parse_elem(t):
    if ":" in t:
        k, i = t.split(":")
        return int(k), int(i)
    return int(t), int(t)


def map_elems(line, fn):
    """apply fn(key, id) -> token to every element of a heapify/reheap/batch line"""
    w = line.split()
    out = [w[0]]
    if w[0] in ("heapify", "reheap"):
        out.append(w[1])
        out += [fn(*parse_elem(t)) for t in w[2:]]
        return " ".join(out)
    for t in w[1:]:
        if t in ("|", ";", "o", "x"):
            out.append(t)
        elif t[0] in "pmt":
            out.append(t[0] + fn(*parse_elem(t[1:])))
        else:
            out.append(fn(*parse_elem(t)))
    return " ".join(out)


def keyed(line, mode):
    """model form of a line over plain ids under comparator `mode` (effective keys)"""
    ek = mode_key(mode)
    return map_elems(line, lambda k, i: tok_elem(ek(i), i))


def impl_line(mline, mode):
    """the line for the real code: same, or (reversed modes) r<kind> with the keys mirrored back"""
    if not mode.startswith("rev"):
        return mline
    return "r" + map_elems(mline, lambda k, i: tok_elem(KMAX - k, i))


def parse_case(line):
    """model-form batch line -> (heap ids, batches of op tokens over ids, key function on ids)"""
    w = line.split()
    bar = w.index("|")
    km = {}
    heap = []
    for x in w[1:bar]:
        k, i = parse_elem(x)
        km[i] = k
        heap.append(i)
    batches, cur = [], []
    for t in w[bar + 1:]:
        if t == ";":
            batches.append(cur)
            cur = []
        elif t in ("o", "x"):
            cur.append(t)
        else:
            k, i = parse_elem(t[1:])
            km[i] = k
            cur.append(t[0] + str(i))
    batches.append(cur)
    return heap, batches, (lambda v: km.get(v, v))


def parse_out(out):
    """output line -> [(results, mark, data, flags)] per batch, or None if unparsable"""
    res = []
    for seg in out.split(" ; "):
        parts = [p.strip() for p in seg.split("|")]
        if len(parts) != 3:
            return None
        toks = parts[2].split()
        flags = [t for t in toks if not t.lstrip("-").isdigit()]
        try:
            data = [int(t) for t in toks if t.lstrip("-").isdigit()]
            res.append((parts[0].split(), int(parts[1]), data, flags))
        except ValueError:
            return None
    return res


# ---------------------------------------------------------------------------------------------
# implementation-side property monitor: independent brute-force linearizability of one batch
# ---------------------------------------------------------------------------------------------
def batch_linearizable(init, ops, key=IDENT, max_states=300000):
    """ops: list of ('push', x, ok) / ('pop', v or None).  All ops are pairwise concurrent.  Is there an order
    under which a sequential max-priority queue (priority = key, ties in any order) started with multiset `init`
    gives these results?  Equal operations are interchangeable, so the search state is the vector of how many of
    each distinct operation are still to be placed (the contents follow from it).  Returns True / False, or None
    when the state bound is hit (inconclusive: never reported)."""
    kinds = sorted(set(ops), key=repr)
    total = Counter(ops)
    start = tuple(total[k] for k in kinds)
    base = Counter(init)
    dead = set()
    budget = [max_states]

    def contents(rem):
        c = base.copy()
        for k, n0, n in zip(kinds, start, rem):
            done = n0 - n
            if not done:
                continue
            if k[0] == "push":
                if k[2]:
                    c[k[1]] += done
            elif k[1] is not None:
                c[k[1]] -= done
        return c

    def rec(rem):
        if not any(rem):
            return True
        if rem in dead:
            return False
        budget[0] -= 1
        if budget[0] < 0:
            raise OverflowError
        cont = contents(rem)
        live = [x for x, n in cont.items() if n > 0]
        top = max((key(x) for x in live), default=None)
        for idx, k in enumerate(kinds):
            if not rem[idx]:
                continue
            if k[0] == "pop":
                if k[1] is None:
                    if live:
                        continue
                elif cont[k[1]] <= 0 or key(k[1]) != top:
                    continue
            nxt = rem[:idx] + (rem[idx] - 1,) + rem[idx + 1:]
            if rec(nxt):
                return True
        dead.add(rem)
        return False

    import sys
    old = sys.getrecursionlimit()
    sys.setrecursionlimit(max(old, 10000))
    try:
        return rec(start)
    except OverflowError:
        return None
    finally:
        sys.setrecursionlimit(old)


def monitor_case(line, out, heap_valid=True):
    """Property monitors on what the implementation did on one `batch` line.  Returns None or a description."""
    heap, batches, key = parse_case(line)
    segs = parse_out(out)
    if segs is None or len(segs) != len(batches):
        return "unparsable/short output: %r" % out
    cont = list(heap)
    for b, (ops, (res, mark, data, flags)) in enumerate(zip(batches, segs)):
        if flags:
            return "batch %d: %s" % (b, " ".join(flags))
        if len(res) != len(ops):
            return "batch %d: %d results for %d ops" % (b, len(res), len(ops))
        evs, pushed, popped = [], [], []
        for o, r in zip(ops, res):
            if o == "x":
                if r == "E":
                    evs.append(("push", 0, False))      # no effect: the exception went to this pop's caller
                elif r == "F":
                    evs.append(("pop", None))
                else:
                    return "batch %d: pop whose element assignment throws has status %s" % (b, r)
            elif o == "o":
                if r == "F":
                    evs.append(("pop", None))
                elif r.startswith("S:"):
                    v = int(r[2:])
                    evs.append(("pop", v))
                    popped.append(v)
                else:
                    return "batch %d: pop has status %s" % (b, r)
            else:
                x = int(o[1:])
                if o[0] == "t":
                    if r != "F":
                        return "batch %d: push whose copy throws has status %s" % (b, r)
                    evs.append(("push", x, False))
                else:
                    if r != "S":
                        return "batch %d: push %d has status %s (no exception was thrown)" % (b, x, r)
                    evs.append(("push", x, True))
                    pushed.append(x)
        if Counter(data) + Counter(popped) != Counter(cont) + Counter(pushed):
            return "batch %d: elements lost/duplicated: before %s + pushed %s != after %s + popped %s" % (b, sorted(cont), sorted(pushed), sorted(data), sorted(popped))
        if heap_valid and batch_linearizable(cont, evs, key) is False:
            return "batch %d: no order of the batch explains the results %s on contents %s (pop not maximal / wrong failure)" % (
                b, " ".join(res), sorted(tok_elem(key(c), c) for c in cont))
        if heap_valid and (mark != len(data) or not is_heap(data, None, key)):
            return "batch %d: the vector is not a heap with mark = size after the batch: mark %d data %s" % (b, mark, [tok_elem(key(c), c) for c in data])
        cont = data
    return None


# ---------------------------------------------------------------------------------------------
# running the real code, crash-tolerant
# ---------------------------------------------------------------------------------------------
def pure_exe():
    return cxx_build("C13", "pure", ["harness/c13/pure.cpp", STUBS], flags=PURE_FLAGS)


def run_impl(exe, lines, timeout=1200):
    """outputs per line; a line on which the harness dies gets 'CRASH <reason>'"""
    outs = []
    pos = 0
    while pos < len(lines):
        rc, out, err = sh([exe], input="\n".join(lines[pos:]) + "\n", timeout=timeout)
        got = out.split("\n")[:-1] if out.endswith("\n") else [l for l in out.split("\n") if l]
        if rc == 0 and len(got) == len(lines) - pos:
            outs += got
            break
        got = got[:len(lines) - pos - 1] if len(got) >= len(lines) - pos else got
        outs += got
        why = [l for l in err.split("\n") if "ERROR" in l or "runtime error" in l or "SUMMARY" in l]
        outs.append("CRASH rc=%d %s" % (rc, (why[0] if why else err[-200:]).strip()[:300]))
        pos = len(outs)
    return outs


# ---------------------------------------------------------------------------------------------
# inputs
# ---------------------------------------------------------------------------------------------
def drain(n):
    return ["o"] * (n + 1)


def exhaustive_cases(vals, max_heap, max_ops, with_throw_upto, key=IDENT):
    heaps = [list(h) for k in range(max_heap + 1) for h in itertools.product(vals, repeat=k) if is_heap(h, None, key)]
    alpha = ["p%d" % v for v in vals] + ["o"]
    alpha_t = alpha + ["t%d" % vals[-1]]
    lines = []
    for h in heaps:
        for k in range(max_ops + 1):
            for b in itertools.product(alpha_t if k <= with_throw_upto else alpha, repeat=k):
                if k > with_throw_upto or any(o[0] == "t" for o in b) or True:
                    npush = sum(1 for o in b if o[0] in "pm")
                    lines.append(case_line(h, [list(b), drain(len(h) + npush)]))
    return lines


def random_batch(rng, n, style, vmax):
    ops = []
    run = rng.randrange(vmax + 1)
    for _ in range(n):
        r = rng.random()
        if style == "pop-heavy":
            ispop = r < 0.65
        elif style == "push-heavy":
            ispop = r < 0.25
        else:
            ispop = r < 0.45
        if ispop:
            ops.append("o")
        else:
            if style == "inc":
                run += rng.randrange(0, 2)
                x = run
            elif style == "dec":
                run = max(0, run - rng.randrange(0, 2))
                x = run
            else:
                x = rng.randrange(vmax + 1)
            k = rng.random()
            ops.append(("t%d" if k < 0.12 else "m%d" if k < 0.4 else "p%d") % x)
    return ops


def random_case(rng, key=IDENT):
    vmax = rng.choice([1, 2, 3, 5, 9, 50, 1000])
    hs = rng.choice([0, 0, 1, 2, 3, 4, 5, 6, 7, 8, 10, 13, 17, 31])
    hstyle = rng.random()
    if hstyle < 0.15:
        xs = [rng.randrange(vmax + 1)] * hs            # all equal
    elif hstyle < 0.3:
        xs = list(range(hs))                            # strictly monotone
    else:
        xs = [rng.randrange(vmax + 1) for _ in range(hs)]
    heap = heap_of(xs, rng, key)
    nb = rng.choice([1, 1, 2, 3])
    batches, size = [], len(heap)
    for _ in range(nb):
        style = rng.choice(["mixed", "mixed", "pop-heavy", "push-heavy", "inc", "dec"])
        b = random_batch(rng, rng.choice([0, 1, 2, 3, 4, 5, 6, 8, 11]), style, vmax)
        batches.append(b)
        size += sum(1 for o in b if o[0] in "pm")
    batches.append(drain(size))
    return case_line(heap, batches)


def throw_family(rng, key=IDENT):
    """a base batch without throwing pushes + the same batch with a throwing push inserted at every position"""
    vmax = rng.choice([2, 5, 20])
    heap = heap_of([rng.randrange(vmax + 1) for _ in range(rng.randrange(0, 9))], rng, key)
    b = [o for o in random_batch(rng, rng.randrange(0, 8), rng.choice(["mixed", "pop-heavy", "push-heavy"]), vmax) if o[0] != "t"]
    fam = [case_line(heap, [b])]
    for k in range(len(b) + 1):
        fam.append(case_line(heap, [b[:k] + ["t%d" % rng.randrange(vmax + 1)] + b[k:]]))
    return fam


def alloc_case(rng, key=IDENT):
    """(k, plain batch line for the real code, plain batch line for the model): a batch of pushes handled while the k-th allocation of the
    vector throws std::bad_alloc inside handle_operations.  The harness shrinks the vector to capacity == size first, so
    libstdc++'s growth policy (new capacity = size + max(size, 1), allocated BEFORE the new element is constructed) tells
    which push_back reallocates; that push must get FAILED exactly like a push whose copy throws (`t` in the model's line),
    everything else must be as if it had not been there.  Returns None when the batch never allocates."""
    vmax = rng.choice([2, 5, 20])
    heap = heap_of([rng.randrange(vmax + 1) for _ in range(rng.choice([0, 0, 1, 2, 3, 4, 5, 7, 8, 9]))], rng, key)
    b0 = []
    for _ in range(rng.randrange(1, 9)):
        r = rng.random()
        b0.append(("t%d" if r < 0.15 else "m%d" if r < 0.5 else "p%d") % rng.randrange(vmax + 1))

    def sim(k):
        size = cap = len(heap)
        nalloc, failed = 0, None
        for j, o in enumerate(b0):
            if size == cap:
                a = nalloc
                nalloc += 1
                if a == k:
                    failed = j          # bad_alloc: strong guarantee, nothing changes
                    continue
                if o[0] == "t":
                    continue            # new block allocated, copy throws, block freed: capacity unchanged
                cap = size + max(size, 1)
                size += 1
            elif o[0] != "t":
                size += 1
        return nalloc, failed

    n, _ = sim(-1)
    if n == 0:
        return None
    k = rng.randrange(n)
    _, j = sim(k)
    if j is None:
        return None
    b0m = list(b0)
    b0m[j] = "t" + b0[j][1:]
    rest = [random_batch(rng, rng.randrange(0, 6), "mixed", vmax), drain(len(heap) + len(b0) + 6)]
    return k, case_line(heap, [b0] + rest), case_line(heap, [b0m] + rest)


def sift_lines(rng, n, key=IDENT):
    lines = []
    for _ in range(n):
        vmax = rng.choice([1, 3, 9, 100])
        sz = rng.randrange(0, 20)
        if rng.random() < 0.7:
            m = rng.randrange(0, sz + 1)
            d = heap_of([rng.randrange(vmax + 1) for _ in range(m)], rng, key) + [rng.randrange(vmax + 1) for _ in range(sz - m)]
        else:
            d = [rng.randrange(vmax + 1) for _ in range(sz)]
            m = rng.randrange(0, sz + 1)
        lines.append("heapify %d %s" % (m, " ".join(map(str, d))))
        if sz:
            lines.append("reheap %d %s" % (m, " ".join(map(str, d))))
    return lines


def monitor_sift(line, out):
    """line in model form (effective keys)"""
    w = line.split()
    m = int(w[1])
    km, d = {}, []
    for t in w[2:]:
        k, i = parse_elem(t)
        km[i] = k
        d.append(i)
    key = lambda v: km.get(v, v)
    if not is_heap(d, m, key):
        return None
    try:
        parts = out.split("|")
        m2, d2 = int(parts[0]), [int(x) for x in parts[1].split()]
    except (ValueError, IndexError):
        return "unparsable: %r" % out
    if w[0] == "heapify":
        if m2 != len(d) or not is_heap(d2, None, key) or Counter(d2) != Counter(d):
            return "heapify of heap-prefix %d of %s gave mark %d data %s" % (m, d, m2, d2)
    else:
        if m2 != min(m, len(d) - 1) or not is_heap(d2, m2, key) or Counter(d2) + Counter([d[0]]) != Counter(d) or d2[m2:] != d[m:len(d) - 1][:len(d2) - m2] and m >= 1:
            return "reheap of mark %d %s gave mark %d data %s" % (m, d, m2, d2)
    return None


# ---------------------------------------------------------------------------------------------
# shrinking a failing `batch` line (the predicate runs the real code + monitors)
# ---------------------------------------------------------------------------------------------
def both(plain, mode):
    """(line for the real code, line for the model) of a case generated over plain ids under comparator `mode`"""
    m = keyed(plain, mode)
    return impl_line(m, mode), m


def shrink_case(exe, plain, mode, failing):
    """plain: batch line over ids; failing(model line, impl output) -> bool"""
    key = mode_key(mode)
    w = plain.split()
    bar = w.index("|")
    heap = [int(x) for x in w[1:bar]]
    batches, cur = [], []
    for t in w[bar + 1:]:
        if t == ";":
            batches.append(cur)
            cur = []
        else:
            cur.append(t)
    batches.append(cur)
    best = (heap, batches)

    def cands(heap, batches):
        for bi, b in enumerate(batches):
            for k in range(len(b)):
                nb = [list(x) for x in batches]
                del nb[bi][k]
                yield heap, nb
            if not b and len(batches) > 1:
                yield heap, batches[:bi] + batches[bi + 1:]
        for k in range(len(heap)):
            yield heap_of(heap[:k] + heap[k + 1:], None, key), batches
        vals = sorted({x for x in heap} | {int(o[1:]) for b in batches for o in b if o not in ("o", "x")})
        rank = {v: i for i, v in enumerate(vals)}
        if mode == "id" and vals and vals != list(range(len(vals))):
            yield heap_of([rank[x] for x in heap]) if not is_heap([rank[x] for x in heap]) else [rank[x] for x in heap], \
                [[o if o in ("o", "x") else o[0] + str(rank[int(o[1:])]) for o in b] for b in batches]

    for _ in range(200):
        cs = list(cands(*best))
        if not cs:
            break
        pairs = [both(case_line(h, b), mode) for h, b in cs]
        outs = run_impl(exe, [a for a, _ in pairs], timeout=300)
        hit = None
        for c, (il, ml), o in zip(cs, pairs, outs):
            if failing(ml, o):
                hit = c
                break
        if hit is None:
            break
        best = hit
    return case_line(*best)


# ---------------------------------------------------------------------------------------------
# E-PURE stage
# ---------------------------------------------------------------------------------------------
def describe(line, out, model):
    return "input %r: implementation %r, model %r" % (line, out, model)


def run_bulk(ck):
    """queues built through the public bulk operations (iterator-range constructor, assign, copy / move construction and assignment) must satisfy
    the handler's invariant (heap = [0, mark), mark = size): same array and mark as the model's heapify, and the first batches handled on
    them (several pops in ONE batch in particular) give the model's results"""
    exe = pure_exe()
    rng = ck.rng
    quick = ck.tier == "quick"
    cases = []
    for _ in range(400 if quick else 6000):
        n = rng.choice([0, 1, 2, 3, 4, 5, 7, 8, 15, 16, 31, 40, 63])
        ids = rng.sample(range(1, 200), n)
        how = rng.randrange(1, 8)
        npop = rng.randrange(2, 6)
        ops = ["o"] * npop + (["p%d" % rng.randrange(200, 300)] if rng.random() < 0.5 else [])
        rng.shuffle(ops)
        cases.append((how, ids, ops))
    ml = ["heapify 0 %s" % " ".join(map(str, ids)) for _, ids, _ in cases]
    mo = [m.rstrip() for m in drv("c13", "\n".join(ml) + "\n", timeout=900)]
    il = ["build%d %s" % (how, " ".join(map(str, ids))) for how, ids, _ in cases]
    io = [o.rstrip() for o in run_impl(exe, il)]
    bad = []
    for i, (a, b) in enumerate(zip(io, mo)):
        ck.count(1, ("bulk", cases[i][0], min(len(cases[i][1]), 16)))
        if a != b:
            bad.append((il[i], "real queue after the bulk operation: `%s`, model heapify: `%s`" % (a, b)))
    # first batches on the bulk-built queue
    ml2, il2 = [], []
    for (how, ids, ops), m in zip(cases, mo):
        heap = m.split("|", 1)[1].split() if "|" in m else []
        ml2.append("batch %s | %s" % (" ".join(heap), " ".join(ops)))
        il2.append("bbatch%d %s | %s" % (how, " ".join(map(str, ids)), " ".join(ops)))
    mo2 = [m.rstrip() for m in drv("c13", "\n".join(ml2) + "\n", timeout=900)]
    io2 = [o.rstrip() for o in run_impl(exe, il2)]
    bad2 = []
    for i, (a, b) in enumerate(zip(io2, mo2)):
        if a != b:
            bad2.append((il2[i], "real: `%s`, model: `%s`" % (a, b)))
        else:
            ck.traces_validated += 1
    ck.extra["bulk_cases"] = len(cases)
    ck.oblige("corr:a queue built by the iterator-range constructor / assign / copy or move construction / copy or move assignment has the array and mark "
              "of the model's heapify (heap = [0, size), mark = size)", "correspondence", not bad, bad[:2])
    ck.oblige("corr:the first batch handled on a bulk-built queue (several pops in one batch) gives the model's results and final state", "correspondence",
              not bad2, bad2[:2])
    for (line, why) in (bad2 or bad)[:1]:
        # is a pop non-maximal? (independent of the model)
        ck.counterexample("bulk-built-queue:%s" % line.split()[0], "%s: %s" % (line, why),
                          {"engine": "E-PURE", "harness": "harness/c13/pure.cpp", "stdin": line, "expect_model": why})


def run_pure(ck):
    exe = pure_exe()
    quick = ck.tier == "quick"
    rng = ck.rng
    # every case: (plain line over ids, comparator mode); the real code gets impl_line, the model the keyed line
    groups = {}

    def gen_group(name, n, fn):
        cs = []
        for _ in range(n):
            mode = rng.choice(MODES)
            cs.append((fn(mode_key(mode)), mode))
        groups[name] = cs

    ex = [(l, "id") for l in exhaustive_cases([0, 1, 2], 3, 4, 3)]
    ex += [(l, "div2") for l in exhaustive_cases([0, 1, 2], 3, 3, 3, mode_key("div2"))]       # ids 0,1 tie below 2
    ex += [(l, "const") for l in exhaustive_cases([0, 1, 2], 3, 3, 2, mode_key("const"))]     # everything ties
    ex += [(l, "rev") for l in exhaustive_cases([0, 1, 2], 2, 3, 2, mode_key("rev"))]         # user-supplied Compare
    if not quick:
        ex += [(l, "id") for l in exhaustive_cases([0, 1, 2, 3], 4, 3, 2)]
        ex += [(l, "div2") for l in exhaustive_cases([0, 1, 2, 3], 4, 3, 2, mode_key("div2"))]
        ex += [(l, "mod2") for l in exhaustive_cases([0, 1, 2, 3], 3, 3, 2, mode_key("mod2"))]
    groups["exhaustive-small"] = ex
    gen_group("random", 6000 if quick else 300000, lambda key: random_case(rng, key))
    fams = []
    for _ in range(250 if quick else 20000):
        mode = rng.choice(MODES)
        fams.append([(l, mode) for l in throw_family(rng, mode_key(mode))])
    groups["throw-at-every-position"] = [c for f in fams for c in f]
    arb = []
    for _ in range(300 if quick else 10000):       # not heaps: correspondence only
        d = [rng.randrange(6) for _ in range(rng.randrange(0, 9))]
        arb.append((case_line(d, [random_batch(rng, rng.randrange(0, 7), "mixed", 5)]), rng.choice(MODES)))
    groups["arbitrary-data"] = arb
    sift = []
    for _ in range(15 if quick else 60):
        mode = rng.choice(MODES)
        sift += [(l, mode) for l in sift_lines(rng, 100 if quick else 1000, mode_key(mode))]
    cases = [c for g in groups.values() for c in g] + sift
    pairs = [both(pl, mode) for pl, mode in cases]
    ilines = [a for a, _ in pairs]
    lines = [b for _, b in pairs]                   # model form (effective keys): what the monitors read
    impl = run_impl(exe, ilines)
    model = [m.rstrip() for m in drv("c13", "\n".join(lines) + "\n", timeout=1800)]
    impl = [o.rstrip() for o in impl]
    ck.extra["pure_input_distribution"] = {k: len(v) for k, v in groups.items()} | {"heapify/reheap": len(sift)}
    ck.extra["pure_comparators"] = dict(Counter(mode for _, mode in cases))
    ck.count(len(lines))
    nb = len(lines) - len(sift)
    # correspondence
    d = first_diff(impl, model)
    ck.oblige("corr:handle_operations/heapify/reheap == CpqBatch model (statuses, popped ids, final vector contents by id, mark; comparators with ties)", "correspondence",
              d is None, "" if d is None else describe(ilines[d], impl[d] if d < len(impl) else None, model[d] if d < len(model) else None))
    # monitors
    bad = []
    arb0 = sum(len(groups[k]) for k in ("exhaustive-small", "random", "throw-at-every-position"))
    for i, (l, o) in enumerate(zip(lines[:nb], impl[:nb])):
        if o.startswith("CRASH"):
            bad.append((i, o))
            continue
        why = monitor_case(l, o, heap_valid=(i < arb0))
        if why:
            bad.append((i, why))
        segs = parse_out(o)
        if segs:
            pc = parse_case(l)
            ck.distinct.add((len(pc[0]) > 0, tuple(sorted(set(r[:1] + ("p" if t != "o" else "o") for sg, b in zip(segs, pc[1]) for r, t in zip(sg[0], b)))),
                             segs[0][1] == 0, cases[i][1]))
    ck.oblige("monitor:per-batch linearizability + conservation + statuses + heap invariant (independent checker on the real handle_operations)", "correspondence",
              not bad, [(ilines[i], w) for i, w in bad[:2]])
    # exception isolation on the implementation: family member k == base with the throwing push removed
    iso_bad = []
    off = len(groups["exhaustive-small"]) + len(groups["random"])
    for f in fams:
        outs = impl[off:off + len(f)]
        base = parse_out(outs[0])
        for k in range(len(f) - 1):
            o = outs[k + 1]
            sg = parse_out(o)
            if base is None or sg is None:
                iso_bad.append((off + k + 1, o))
                continue
            res = sg[0][0]
            if res[k:k + 1] != ["F"] or res[:k] + res[k + 1:] != base[0][0] or sg[0][1:3] != base[0][1:3]:
                iso_bad.append((off + k + 1, "with throwing push at %d: %s ; without: %s" % (k, o, outs[0])))
        off += len(f)
    ck.oblige("monitor:a throwing copy fails only its own op (every position; other results and final state unchanged)", "correspondence",
              not iso_bad, [(ilines[i], w) for i, w in iso_bad[:2]])
    sbad = []
    for k, (l, o) in enumerate(zip(lines[nb:], impl[nb:])):
        why = "crashed: " + o if o.startswith("CRASH") else monitor_sift(l, o)
        if why:
            sbad.append((nb + k, why))
    ck.oblige("monitor:heapify/reheap give heaps and preserve the multiset", "correspondence", not sbad, [(ilines[i], w) for i, w in sbad[:2]])
    for i in (0, len(groups["exhaustive-small"]) + 7, nb + 3):
        if i < len(lines):
            ck.sample({"input": ilines[i], "comparator": cases[i][1], "impl": impl[i], "model": model[i] if i < len(model) else None})

    # --- an ALLOCATION that throws inside the handler (bad_alloc from the vector's reallocation in push_back) ---------
    al = []
    for _ in range(400 if quick else 8000):
        mode = rng.choice([m for m in MODES if not m.startswith("rev")])
        c = alloc_case(rng, mode_key(mode))
        if c is not None:
            k, pli, plm = c
            al.append(("abatch %d " % k + keyed(pli, mode)[len("batch "):], keyed(plm, mode)))
    ai = [o.rstrip() for o in run_impl(exe, [a for a, _ in al])]
    am = [m.rstrip() for m in drv("c13", "\n".join(b for _, b in al) + "\n")] if al else []
    ck.count(len(al))
    ck.extra["pure_input_distribution"]["allocation-throws-in-handler"] = len(al)
    da = first_diff(ai, am)
    ck.oblige("corr:an allocation failure inside handle_operations (bad_alloc from the reallocating push_back) == the model's failed push "
              "(that push FAILED, all other statuses, vector contents and mark unaffected)", "correspondence",
              da is None, "" if da is None else describe(al[da][0], ai[da] if da < len(ai) else None, am[da] if da < len(am) else None))
    abad = []
    for (il, ml), o in zip(al, ai):
        w = o if o.startswith("CRASH") else monitor_case(ml, o)
        if w:
            abad.append((il, w))
    ck.oblige("monitor:an allocation failure inside the handler fails only the push that needed the memory (conservation, per-batch linearizability, heap invariant)",
              "correspondence", not abad, abad[:2])
    if abad:
        il, w = min(abad, key=lambda x: len(x[0]))
        ck.counterexample("pure:" + il.replace(" ", "_"), "handle_operations with a failing allocation on `%s`: %s" % (il, w),
                          {"engine": "E-PURE", "harness": "harness/c13/pure.cpp", "stdin": il, "model_stdin": dict(al)[il], "violation": w})

    # --- pops whose element assignment throws (`x`): the model follows the code AS WRITTEN (generated flag) -----
    xc = []
    for _ in range(300 if quick else 6000):
        mode = rng.choice(MODES)
        key = mode_key(mode)
        vmax = rng.choice([2, 5, 20])
        heap = heap_of([rng.randrange(vmax + 1) for _ in range(rng.randrange(0, 7))], rng, key)
        b = random_batch(rng, rng.randrange(1, 7), rng.choice(["mixed", "pop-heavy"]), vmax)
        for _ in range(rng.choice([1, 1, 2])):
            b.insert(rng.randrange(len(b) + 1), "x")
        xc.append((case_line(heap, [b, drain(len(heap) + len(b))]), mode))
    xp = [both(pl, mode) for pl, mode in xc]
    xi = [o.rstrip() for o in run_impl(exe, [a for a, _ in xp])]
    xl = [b for _, b in xp]
    xm = [m.rstrip() for m in drv("c13", "\n".join(xl) + "\n")]
    ck.count(len(xl))
    ck.extra["pure_input_distribution"]["pop-assignment-throws"] = len(xl)
    dx = first_diff(xi, xm)
    ck.oblige("corr:handle_operations with a throwing pop assignment == model of the code as written (escaped exception, unset statuses)", "correspondence",
              dx is None, "" if dx is None else describe(xp[dx][0], xi[dx] if dx < len(xi) else None, xm[dx] if dx < len(xm) else None))
    xbad = [(k, o if o.startswith("CRASH") else monitor_case(l, o)) for k, (l, o) in enumerate(zip(xl, xi))]
    xbad = [(k, w) for k, w in xbad if w]
    ck.extra["pure_pop_assignment_throw_violations"] = len(xbad)

    def failing(l, o):
        o = o.rstrip()
        return o.startswith("CRASH") or monitor_case(l, o) is not None

    if xbad:
        k, w = min(xbad, key=lambda x: len(xl[x[0]]))
        small = shrink_case(exe, xc[k][0], xc[k][1], failing)
        si, sm = both(small, xc[k][1])
        out = run_impl(exe, [si])[0].rstrip()
        ck.oblige("monitor:a throwing pop assignment fails only its own op (white-box handle_operations)", "correspondence", False,
                  "%d of %d cases; smallest: `%s` -> `%s`" % (len(xbad), len(xl), si, out))
        if any(p == "C13" and kk == ASSIGN_KEY for (p, kk, t) in common.known_findings()):
            ck.obligations[-1]["explained"] = True
        ck.counterexample(ASSIGN_KEY, "handle_operations on `%s` -> `%s`: the exception of the pop's element assignment escapes handle_operations; "
                          "operations without status: %s" % (si, out, [i for i, r in enumerate(parse_out(out)[0][0]) if r == "W"] if parse_out(out) else "?"),
                          {"engine": "E-PURE", "harness": "harness/c13/pure.cpp", "stdin": si, "model_stdin": sm, "observed": out, "model": drv("c13", sm + "\n")[0]})
    else:
        ck.oblige("monitor:a throwing pop assignment fails only its own op (white-box handle_operations)", "correspondence", True)

    # --- failing-input search ---------------------------------------------------------------
    cands = [i for i, _ in bad] + [i for i, _ in iso_bad if monitor_case(lines[i], impl[i])]
    found = [(cases[i][0], cases[i][1]) for i in cands]
    if d is not None and not found:
        # the model and the code disagree but no monitor fired on the generated cases: widen the search
        log("correspondence broken; searching for an input on which the property itself fails")
        extra = [(l, "id") for l in exhaustive_cases([0, 1, 2], 3, 4, 3) + exhaustive_cases([0, 1, 2, 3], 4, 3, 0)]
        extra += [(l, "div2") for l in exhaustive_cases([0, 1, 2, 3], 3, 3, 0, mode_key("div2"))]
        for _ in range(20000):
            mode = rng.choice(MODES)
            extra.append((random_case(rng, mode_key(mode)), mode))
        ep = [both(pl, mode) for pl, mode in extra]
        eo = run_impl(exe, [a for a, _ in ep])
        ck.count(len(extra))
        found = [c for c, (il, ml), o in zip(extra, ep, eo) if failing(ml, o)][:3]
        if not found and d < nb and lines[d].startswith("batch"):
            # follow the differing state with more batches
            pl, mode = cases[d]
            w = pl.split()
            bar = w.index("|")
            heap = [int(x) for x in w[1:bar]]
            first = " ".join(w[bar + 1:]).split(" ; ")[0].split()
            more = [(case_line(heap, [first, random_batch(rng, rng.randrange(1, 8), "mixed", 5), drain(30)]), mode) for _ in range(3000)]
            mp = [both(a, b) for a, b in more]
            mo = run_impl(exe, [a for a, _ in mp])
            found = [c for c, (il, ml), o in zip(more, mp, mo) if failing(ml, o)][:3]
    if found:
        pl, mode = min(found, key=lambda c: len(c[0]))
        small = shrink_case(exe, pl, mode, failing)
        si, sm = both(small, mode)
        out = run_impl(exe, [si])[0].rstrip()
        why = out if out.startswith("CRASH") else monitor_case(sm, out)
        ck.counterexample("pure:" + si.replace(" ", "_"), "handle_operations on `%s` (comparator %s) -> `%s`: %s" % (si, mode, out, why),
                          {"engine": "E-PURE", "harness": "harness/c13/pure.cpp", "stdin": si, "model_stdin": sm, "observed": out, "violation": why,
                           "model": drv("c13", sm + "\n")[0]})
    elif sbad:
        i, why = min(sbad, key=lambda x: len(lines[x[0]]))
        ck.counterexample("sift:" + ilines[i].replace(" ", "_"), why, {"engine": "E-PURE", "harness": "harness/c13/pure.cpp", "stdin": ilines[i],
                                                                        "model_stdin": lines[i], "violation": why, "sift": True})


# ---------------------------------------------------------------------------------------------
# E-SHIM: the aggregator under the controlled scheduler
# ---------------------------------------------------------------------------------------------
SHIM_CXX = ["-O1", "-g", "-fno-access-control"]


def shim_exe():
    return cxx_build("C13", "shim", ["harness/c13/shim.cpp", common.SHIM_SRC, STUBS], flags=SHIM_CXX + common.SHIM_FLAGS)


def scen_text(init, ths, sched):
    return "init " + " ".join(map(str, init)) + "\n" + "".join("thread " + " ".join(o) + "\n" for o in ths) + "sched " + sched + "\n"


def trim_sched(sched):
    """drop the trailing repetition of one thread (ReplaySchedule continues non-preemptively after its end)"""
    s = list(sched)
    while len(s) > 40 and s[-1] == s[-2] == s[-3]:
        s.pop()
    return s


def parse_runs(out):
    """stdout of harness/c13/shim.cpp -> list of runs {log:[('ev',fields)|('note',tid,tag,seq)], ops, sched, deadlock, final}"""
    runs, cur = [], None
    for l in out.split("\n"):
        w = l.split()
        if not w:
            continue
        if w[0] == "run":
            cur = {"log": [], "ops": [], "sched": [], "deadlock": None, "final": None, "complete": False}
            runs.append(cur)
        elif cur is None:
            continue
        elif w[0] == "ev":
            cur["log"].append(("ev", w[1:]))
        elif w[0] == "note":
            cur["log"].append(("note", int(w[1]), w[2], int(w[3])))
        elif w[0] == "op" and len(w) < 7:
            cur["complete"] = False          # truncated line: the harness died while printing
            cur = None
        elif w[0] == "op":
            cur["ops"].append({"tid": int(w[1]), "seq": int(w[2]), "op": w[3], "res": w[4], "begin": int(w[5]), "end": int(w[6]),
                               "cls": int(w[7]) if len(w) > 7 else 0})
        elif w[0] == "sched":
            cur["sched"] = trim_sched([int(x) for x in w[1:]])
        elif w[0] == "deadlock":
            cur["deadlock"] = (w[1] == "1", w[2:])
        elif w[0] == "final":
            cur["final"] = [int(x) for x in w[1:]]
        elif w[0] == "locked":
            cur["locked"] = True
        elif w[0] == "end":
            cur["complete"] = True
    return runs


def accesses(run):
    """the atomic accesses of the code under test, canonical: no start/end/pause/yield, no element-copy probes;
    a store is compared by the value written only (the overwritten value is shim-version dependent)"""
    acc = []
    for e in run["log"]:
        if e[0] != "ev":
            continue
        w = list(e[1])
        if w[1] in ("start", "end", "pause", "yield") or w[2] == "elem":
            continue
        if w[1] == "store":
            w[5] = "0"
        acc.append(" ".join(w))
    return acc


def op_id(tok):
    """id of the element of a push token p<k>:<i> / m<..> / t<..>"""
    return parse_elem(tok[1:])[1]


def scenario_key(init, ops_tokens):
    """key function on ids from the element tokens of a scenario (init tokens + op tokens)"""
    km = {}
    for t in init:
        k, i = parse_elem(str(t))
        km[i] = k
    for t in ops_tokens:
        if t[0] in "pmt":
            k, i = parse_elem(t[1:])
            km[i] = k
    return lambda v: km.get(v, v)


def init_ids(init):
    return [parse_elem(str(t))[1] for t in init]


def history_linearizable(init, ops, key=IDENT):
    """Wing-Gong search: ops = [{begin,end,op,res}] (end = -1: never returned -> not allowed here); init: ids."""
    n = len(ops)
    dead = set()
    ends = [o["end"] for o in ops]

    def rec(done, cont):
        if done == (1 << n) - 1:
            return True
        if done in dead:
            return False
        first_end = min(ends[i] for i in range(n) if not done >> i & 1)
        for i in range(n):
            if done >> i & 1 or ops[i]["begin"] > first_end:
                continue
            o, r = ops[i]["op"], ops[i]["res"]
            if o == "o":
                if r == "F":
                    if +cont:
                        continue
                    c2 = cont
                else:
                    v = int(r[2:])
                    live = [k for k, c in cont.items() if c > 0]
                    if cont[v] <= 0 or key(v) != max(key(x) for x in live):
                        continue
                    c2 = cont.copy()
                    c2[v] -= 1
            else:
                if r == "S":
                    c2 = cont.copy()
                    c2[op_id(o)] += 1
                else:
                    c2 = cont
            if rec(done | 1 << i, c2):
                return True
        dead.add(done)
        return False

    return rec(0, Counter(init))


def check_linearization(init, ops, lin, key=IDENT):
    """Independent validation of a proposed linearization `lin` = [(tid, op token, result)] of the REAL history `ops`
    (= [{tid, seq, op, res, begin, end}], stamps = exact positions in the controlled run's event log):
    it must be a permutation of the operations with exactly the results the real code returned, respect real time
    (an operation that returned before another was called comes first), and be a legal execution of a sequential
    max-priority queue (priority = key, ties in any order) started with `init` (ids).  Returns None or a description."""
    todo = {}
    for o in ops:
        todo.setdefault(o["tid"], []).append(o)
    for t in todo:
        todo[t].sort(key=lambda o: o["seq"])
    pos = {t: 0 for t in todo}
    seq = []
    for (t, op, r) in lin:
        if t not in todo or pos[t] >= len(todo[t]):
            return "the linearization contains an operation of thread %d that the real history does not have: %s" % (t, op)
        o = todo[t][pos[t]]
        pos[t] += 1
        if o["op"] != op:
            return "operation %d of thread %d is `%s` in the real run and `%s` in the linearization" % (o["seq"], t, o["op"], op)
        if o["res"] != r:
            return "operation %s of thread %d returned %s in the real run; the linearization (model, batch order) predicts %s" % (op, t, o["res"], r)
        seq.append(o)
    for t in todo:
        if pos[t] != len(todo[t]):
            return "operation %d of thread %d is missing from the linearization" % (pos[t], t)
    # real time: nothing that was called after `a` returned may precede `a`
    for i, a in enumerate(seq):
        for b in seq[:i]:
            if a["end"] >= 0 and b["begin"] > a["end"]:
                return "real-time order violated: T%d:%s returned (stamp %d) before T%d:%s was called (stamp %d) but is linearized after it" % (
                    a["tid"], a["op"], a["end"], b["tid"], b["op"], b["begin"])
    cont = Counter(init)
    for o in seq:
        op, r = o["op"], o["res"]
        if op == "o":
            if r == "F":
                if +cont:
                    return "T%d:try_pop fails although the contents %s are not empty at its place in the linearization" % (o["tid"], sorted(cont.elements()))
            else:
                v = int(r[2:])
                live = list(cont.elements())
                if cont[v] <= 0:
                    return "T%d:try_pop returns %d which is not in the contents %s at its place in the linearization" % (o["tid"], v, sorted(live))
                if key(v) != max(key(x) for x in live):
                    return "T%d:try_pop returns %d (priority %d) although the contents %s hold a higher priority" % (o["tid"], v, key(v), sorted(live))
                cont[v] -= 1
        elif op[0] in "pm":
            if r != "S":
                return "push %s failed in the linearization" % op
            cont[op_id(op)] += 1
        elif op[0] == "t":
            if r != "F":
                return "push whose copy throws is linearized with result %s" % r
        else:
            return "unexpected operation %s" % op
    return None


def shim_monitor(init, run):
    """implementation-side monitors on one controlled run; returns None or a description of the violation"""
    if run["deadlock"] and run["deadlock"][0]:
        return "deadlock: every live thread parked (threads %s) - lost hand-off" % " ".join(run["deadlock"][1])
    if not run["complete"]:
        return "run did not complete"
    if run.get("locked"):
        return "deadlock: handler_busy is still set after all threads finished - every later operation on the queue spins forever; results: " + \
            " ".join("T%d:%s->%s" % (o["tid"], o["op"], o["res"]) for o in run["ops"])
    ops = run["ops"]
    key = scenario_key(init, [o["op"] for o in ops])
    init = init_ids(init)
    # results: statuses and exception routing
    pushed, popped = [], []
    for o in ops:
        if o["end"] < 0 or o["res"] == "W":
            return "operation %s of thread %d never returned" % (o["op"], o["tid"])
        if o["res"] == "X":
            return "a foreign exception reached the caller of %s (thread %d)" % (o["op"], o["tid"])
        if o["op"] == "x":
            if o["res"] != "E":
                return "try_pop whose element assignment throws returned %s instead of propagating the exception to its own caller" % o["res"]
            continue
        if o["op"][0] == "t" and o["res"] != "F":
            return "push whose copy throws returned %s to its caller" % o["res"]
        if o["op"][0] in "pm":
            if o["res"] != "S":
                return "push %s failed (%s) although nothing threw in it: an exception leaked from another operation" % (o["op"], o["res"])
            pushed.append(op_id(o["op"]))
        if o["op"] == "o" and o["res"].startswith("S:"):
            v = int(o["res"][2:])
            if v < 0:
                return "try_pop returned true with an element that was not written yet (%d): status visible before the element was moved" % v
            popped.append(v)
    if Counter(run["final"]) + Counter(popped) != Counter(init) + Counter(pushed):
        return "elements lost/duplicated: initial %s + pushed %s != remaining %s + popped %s" % (sorted(init), sorted(pushed), sorted(run["final"]), sorted(popped))
    if len(ops) <= 14 and not history_linearizable(init, [o for o in ops if o["op"] != "x"], key):
        return "history is not linearizable w.r.t. the priority-queue spec: " + " ".join("T%d:%s->%s[%d,%d]" % (o["tid"], o["op"], o["res"], o["begin"], o["end"]) for o in ops)
    # batch structure from the atomic-level log
    nx, curop, submitted, grabbed, statused, ended = {}, {}, set(), set(), set(), set()
    active = None
    for e in run["log"]:
        if e[0] == "note":
            _, tid, tag, seq = e
            if tag == "begin":
                curop[tid] = seq
            else:
                if (tid, seq) not in statused:
                    return "thread %d returned from operation %d before its status was stored" % (tid, seq)
                ended.add((tid, seq))
            continue
        w = e[1]
        tid, kind, var = int(w[0]), w[1], w[2]
        if kind == "cas" and var == "pending" and w[6] == "1":
            submitted.add((tid, curop.get(tid)))
        elif kind == "store" and var.startswith("nx"):
            nx[var[2:]] = w[4]
        elif kind == "xchg" and var == "pending":
            if active is not None:
                return "thread %d grabs a batch while thread %d is still handling one (handlers not mutually exclusive)" % (tid, active[0])
            members, p, guard = [], w[4], 0
            while p != "0" and guard < 100:
                if not p.startswith("op"):
                    return "pending list contains a non-operation pointer %s" % p
                u = int(p[2:].split(".")[0])
                members.append(u)
                p = nx.get(str(u), "0")
                guard += 1
            for u in members:
                k = (u, curop.get(u))
                if k not in submitted or k in grabbed or k in ended:
                    return "batch of thread %d contains operation %s that is not pending (not submitted / already in a batch / already returned)" % (tid, k)
                grabbed.add(k)
            if len(set(members)) != len(members):
                return "an operation occurs twice in a batch"
            active = (tid, set(members))
        elif kind == "store" and var.startswith("st") and w[4] != "0":
            u = int(var[2:])
            if active is None or active[0] != tid:
                return "thread %d stores the status of thread %d's operation outside a batch it handles" % (tid, u)
            if u not in active[1]:
                return "status of thread %d's operation stored twice or for an operation outside the batch" % u
            active[1].discard(u)
            statused.add((u, curop.get(u)))
        elif kind == "store" and var == "busy" and w[4] == "0":
            if active is None or active[0] != tid:
                return "handler_busy released by thread %d which is not the active handler" % tid
            if active[1]:
                return "handler_busy released while operations %s of the batch have no status yet (batch not finished)" % sorted(active[1])
            active = None
    for o in ops:
        if (o["tid"], o["seq"]) not in grabbed:
            return "operation %d of thread %d was never in a batch" % (o["seq"], o["tid"])
    return None


STRUCTURAL = ("thread %d grabs a batch while", "batch of thread", "an operation occurs twice", "stores the status of thread", "status of thread",
              "handler_busy released", "pending list contains", "was never in a batch", "returned from operation")


def severity(why):
    """2 = the property itself is violated on this run (wrong result / lost element / hang / leaked exception / memory error),
    1 = only the batch discipline is violated (handlers overlap, status outside a batch, ...)"""
    w = why.replace("%d", "")
    for p in STRUCTURAL:
        q = p.replace("%d", "")
        if q.split()[0] in why and all(tok in why for tok in q.split() if not tok.startswith("%")):
            return 1
    return 2


def shim_model_replay(init, ths, run, want_lin=False):
    """feed the schedule of atomic accesses to the Lean `Agg` model; returns None or the first difference
    (with want_lin: a pair (difference, what the model-produced linearization says about the REAL history))"""
    r = _shim_model_replay(init, ths, run)
    if not want_lin:
        return r[0]
    if r[0] is not None:
        return r[0], None
    return None, shim_lin_check(init, ths, run, r[1])


def _shim_model_replay(init, ths, run):
    acc = accesses(run)
    cls = {(o["tid"], o["seq"]): o["cls"] for o in run["ops"]}
    ml = ["init " + " ".join(map(str, init))] + ["thread " + " ".join("%s@%d" % (o, cls.get((t, k), 0)) for k, o in enumerate(ops)) for t, ops in enumerate(ths)] \
        + ["s " + a.split()[0] for a in acc] + ["results", "final", "trace", "lincheck"]
    mo = drv("c13agg", "\n".join(ml) + "\n")
    pre = 1 + len(ths)
    d = first_diff(acc, mo[pre:pre + len(acc)])
    if d is not None:
        return "access %d: implementation `%s`, model `%s`" % (d, acc[d] if d < len(acc) else None, mo[pre + d] if pre + d < len(mo) - 4 else None), mo
    res = " | ".join(" ".join(o["res"] for o in run["ops"] if o["tid"] == t and o["res"] != "W") for t in range(len(ths)))
    if [x.strip() for x in res.split("|")] != [x.strip() for x in mo[-4].split("|")]:
        return "results: implementation `%s`, model `%s`" % (res, mo[-4]), mo
    if run["final"] is not None:
        fin = sorted(int(x) for x in mo[-3].split("|")[1].split())
        if fin != sorted(run["final"]):
            return "final contents: implementation %s, model %s" % (sorted(run["final"]), fin), mo
    return None, mo


def parse_trace(text):
    """`trace` output of drv_c13 c13agg -> [('inv', t, op) | ('lin', t, op, res) | ('resp', t, res)]"""
    evs = []
    for part in text.split(" ; "):
        w = part.split()
        if not w:
            continue
        if w[0] == "inv":
            evs.append(("inv", int(w[1]), w[2]))
        elif w[0] == "lin":
            evs.append(("lin", int(w[1]), w[2], w[3]))
        elif w[0] == "resp":
            evs.append(("resp", int(w[1]), w[2]))
    return evs


def canon_op(tok):
    """op token as the model prints it (p<elem> for const& and rvalue pushes alike, t<elem>, o, x)"""
    if tok in ("o", "x"):
        return tok
    k, i = parse_elem(tok[1:])
    return ("t" if tok[0] == "t" else "p") + tok_elem(k, i)


def shim_lin_check(init, ths, run, mo):
    """(c): the REAL history is checked against the linearization the model produces for the replayed run
    (batch order; inside a batch `batchLin`), and the model's own verdict on its trace must be positive."""
    verdict = mo[-1].strip()
    if verdict != "wf=1 legal=1":
        return "model-side: the trace of the replayed run is not a well-formed legal linearization (%s) - contradicts cpq_history_linearizable" % verdict
    tr = parse_trace(mo[-2])
    lin = [(e[1], e[2], e[3]) for e in tr if e[0] == "lin"]
    ops = [dict(o, op=canon_op(o["op"])) for o in run["ops"]]
    if any(o["res"] in ("W", "X", "E") or o["end"] < 0 for o in ops):
        return None          # incomplete / exceptional runs are judged by the monitors
    key = scenario_key(init, [o["op"] for o in run["ops"]])
    return check_linearization(init_ids(init), ops, lin, key)


SHIM_MODES = ("id", "id", "div2", "mod2", "const")


def random_scenario(rng, small=False):
    """initial element tokens and per-thread op tokens; elements are <key>:<id> under a random comparator (ties!)"""
    T = rng.choice([2, 2] if small else [2, 2, 3, 3, 4])
    vmax = rng.choice([1, 3, 6])
    key = mode_key(rng.choice(SHIM_MODES))
    el = lambda v: tok_elem(key(v), v)
    init = [el(rng.randrange(vmax + 1)) for _ in range(rng.randrange(0, 3 if small else 5))]
    ths = []
    for _ in range(T):
        ops = []
        for _ in range(rng.randrange(1, 3 if small else 4)):
            r = rng.random()
            ops.append("o" if r < 0.45 else ("t" if r < 0.55 else "m" if r < 0.7 else "p") + el(rng.randrange(vmax + 1)))
        ths.append(ops)
    return init, ths


def run_scenario(exe, init, ths, sched, timeout=120):
    rc, out, err = sh([exe], input=scen_text(init, ths, sched), timeout=timeout)
    if rc == -9:
        err = "TIMEOUT after %ds (the harness hangs outside the controlled scheduler) " % timeout + err
    return rc, parse_runs(out), err


def run_shim(ck):
    exe = shim_exe()
    quick = ck.tier == "quick"
    rng = ck.rng
    bad_mon, bad_corr, bad_lin = [], [], []
    nruns = 0
    nlin = 0
    dist = Counter()

    def examine(init, ths, run, check_model=True):
        nonlocal nruns, nlin
        nruns += 1
        why = shim_monitor(init, run)
        if why:
            bad_mon.append((init, ths, "replay " + " ".join(map(str, run["sched"])), why))
            return
        if check_model:
            d, lw = shim_model_replay(init, ths, run, want_lin=True)
            if d:
                bad_corr.append((init, ths, "replay " + " ".join(map(str, run["sched"])), d))
            else:
                ck.traces_validated += 1
                nlin += 1
                if lw:
                    bad_lin.append((init, ths, "replay " + " ".join(map(str, run["sched"])), lw))
        nb = sum(1 for e in run["log"] if e[0] == "ev" and e[1][1] == "xchg")
        ck.count(1, (len(ths), sum(map(len, ths)), nb))
        dist[(len(ths), "batches=%d" % nb)] += 1

    # random schedules on random scenarios (several seeds and two preemption densities per scenario)
    for _ in range(150 if quick else 3000):
        if len(bad_mon) > 25:
            break                    # badly broken tree: enough material for the failing-input search
        init, ths = random_scenario(rng)
        for stay in (96, 200):
            seed0 = rng.randrange(1, 1 << 30)
            rc, runs, err = run_scenario(exe, init, ths, "randoms %d %d %d" % (seed0, 4 if quick else 8, stay))
            for run in runs:
                examine(init, ths, run)
            if rc not in (0, 3):
                bad_mon.append((init, ths, "random %d %d" % (seed0 + len(runs), stay), "harness crashed (memory error) rc=%d %s" % (rc, err.strip()[-200:])))
    # bounded-preemption DFS on small scenarios
    for _ in range(12 if quick else 120):
        if len(bad_mon) > 25:
            break
        init, ths = random_scenario(rng, small=True)
        rc, runs, err = run_scenario(exe, init, ths, "dfs 2 %d" % (300 if quick else 3000), timeout=900)
        for i, run in enumerate(runs):
            examine(init, ths, run, check_model=(i % 10 == 0))
        if rc not in (0, 3):
            bad_mon.append((init, ths, "dfs 2 %d" % (len(runs) + 1), "harness crashed (memory error) rc=%d %s" % (rc, err.strip()[-200:])))
    ck.extra["shim_runs"] = nruns
    ck.extra["shim_histories_checked_by_model_linearization"] = nlin
    ck.extra["shim_distribution"] = {"%d threads %s" % k: v for k, v in sorted(dist.items())}
    ck.oblige("corr:the REAL history (exact stamps) is explained by the model-produced linearization of the replayed run "
              "(batch order, batchLin inside a batch): same results, real-time order respected, legal for the sequential spec",
              "correspondence", not bad_lin, [(scen_text(i, t, sc), d) for i, t, sc, d in bad_lin[:1]])
    ck.oblige("corr:aggregator+handler trace replays against the Lean `Agg` model (every atomic access, value, result, final contents)",
              "correspondence", not bad_corr, [(scen_text(i, t, s), d) for i, t, s, d in bad_corr[:1]])
    ck.oblige("monitor:handlers mutually exclusive, each op in exactly one batch with one status, linearizable history, no lost element, exceptions only to their caller (E-SHIM)",
              "correspondence", not bad_mon, [(scen_text(i, t, s), d) for i, t, s, d in bad_mon[:1]])
    if bad_mon:
        init, ths, sched, why = min(bad_mon, key=lambda b: (-severity(b[3]), sum(map(len, b[1])), len(b[2])))
        ck.sample({"scenario": ths, "init": init, "violation": why})
    else:
        init, ths = random_scenario(rng)
        rc, runs, err = run_scenario(exe, init, ths, "random 7")
        if runs:
            ck.sample({"scenario": ths, "init": init, "ops": [[o["tid"], o["op"], o["res"]] for o in runs[0]["ops"]], "first accesses": accesses(runs[0])[:12]})

    # --- failing-input search ---------------------------------------------------------------
    found = bad_mon[:]
    if (bad_corr or bad_lin or found) and not any(severity(f[3]) == 2 for f in found):
        log("aggregator correspondence/batch discipline broken; searching schedules for a run on which the property itself fails")
        for k in range(300 if quick else 3000):
            init, ths = random_scenario(rng, small=(k % 3 == 0))
            seed0 = rng.randrange(1, 1 << 30)
            stay = rng.choice([60, 120, 220])
            spec = "dfs 2 400" if k % 8 == 0 else "randoms %d 6 %d" % (seed0, stay)
            rc, runs, err = run_scenario(exe, init, ths, spec, timeout=600)
            ck.count(len(runs))
            for run in runs:
                why = shim_monitor(init, run)
                if why:
                    found.append((init, ths, "replay " + " ".join(map(str, run["sched"])), why))
            if rc not in (0, 3) and not spec.startswith("dfs"):
                found.append((init, ths, "random %d %d" % (seed0 + len(runs), stay), "harness crashed (memory error) rc=%d %s" % (rc, err.strip()[-200:])))
            if sum(1 for f in found if severity(f[3]) == 2 and "crashed" not in f[3]) >= 2:
                break
    if found:
        def rank(b):
            return (-severity(b[3]), "crashed" in b[3], sum(map(len, b[1])), len(b[2]))
        init, ths, sched, why = min(found, key=rank)
        if "crashed" not in why:
            init, ths, sched, why = shrink_scenario(exe, init, ths, sched, why, rng)
        text = scen_text(init, ths, sched)
        key = "shim:" + "/".join(",".join(o) for o in ths) + ":" + why.split(":")[0].split("(")[0].strip().replace(" ", "-")[:60]
        ck.counterexample(key, "threads %s on initial contents %s under schedule `%s`: %s" % (ths, init, sched, why),
                          {"engine": "E-SHIM", "harness": "harness/c13/shim.cpp", "stdin": text, "violation": why, "init": init,
                           "property_level": severity(why) == 2})


def shrink_scenario(exe, init, ths, sched, why, rng):
    """greedy: drop operations / initial elements while some schedule (DFS bound 2 + random seeds) still violates"""
    sev = severity(why)

    def search(init, ths):
        for schedspec in ("dfs 2 1500", "randoms %d 40 96" % rng.randrange(1, 1 << 30), "randoms %d 40 200" % rng.randrange(1, 1 << 30)):
            rc, runs, err = run_scenario(exe, init, ths, schedspec, timeout=600)
            for run in runs:
                w = shim_monitor(init, run)
                if w and severity(w) >= sev:
                    return "replay " + " ".join(map(str, run["sched"])), w
        return None
    improved = True
    while improved:
        improved = False
        cands = []
        for t in range(len(ths)):
            for k in range(len(ths[t])):
                nt = [list(x) for x in ths]
                del nt[t][k]
                nt = [x for x in nt if x]
                if len(nt) >= 1:
                    cands.append((init, nt))
        for k in range(len(init)):
            cands.append((init[:k] + init[k + 1:], ths))
        for ci, ct in cands:
            r = search(ci, ct)
            if r:
                init, ths, (sched, why) = ci, ct, r
                improved = True
                break
    return init, ths, sched, why


# ---------------------------------------------------------------------------------------------
# probe: an exception thrown by the element's (move) assignment inside try_pop  -- NOT covered by the model
# ---------------------------------------------------------------------------------------------
ASSIGN_KEY = "pop-assignment-throw-locks-queue"


def run_assign_throw_probe(ck):
    exe = shim_exe()
    cases = [([5, 2], [["x"], ["p3"]], "dfs 2 300"), ([5], [["x", "p1"]], "replay 0"), ([4], [["p6"], ["x"], ["o"]], "randoms 11 20 96"),
             ([5], [["x"]], "replay 0"), ([3], [["p1"], ["x"]], "randoms 5 20 200"), ([], [["m2", "x"], ["o"]], "randoms 9 20 96"),
             ([7, 1], [["x", "o"], ["x"]], "randoms 21 20 96")]
    viol, corr_bad, nrep = None, [], 0
    for init, ths, spec in cases:
        rc, runs, err = run_scenario(exe, init, ths, spec, timeout=300)
        for run in runs:
            why = shim_monitor(init, run)
            if why and viol is None:
                viol = (init, ths, "replay " + " ".join(map(str, run["sched"])), why)
            d = shim_model_replay(init, ths, run)      # the model follows the code as written, escaped exception included
            nrep += 1
            if d:
                corr_bad.append((scen_text(init, ths, "replay " + " ".join(map(str, run["sched"]))), d))
        if rc not in (0, 3) and viol is None:
            viol = (init, ths, spec, "harness terminated rc=%d %s" % (rc, err.strip()[-200:]))
    ck.count(nrep)
    ck.oblige("corr:aggregator trace with a throwing pop assignment replays against the model of the code as written", "correspondence",
              not corr_bad, corr_bad[:1])
    ck.extra["assign_throw_probe"] = "no violation" if viol is None else {"init": viol[0], "threads": viol[1], "sched": viol[2], "observed": viol[3]}
    name = "monitor:an exception from the element's assignment inside try_pop reaches only that caller, queue stays usable"
    if viol is None:
        ck.oblige(name, "correspondence", True)
        return
    what = ("try_pop whose element move/copy ASSIGNMENT throws (`x`): threads %s on contents %s under `%s`: %s  [the assignment in handle_operations is "
            "outside any try block: the exception unwinds through the handler thread, handler_busy stays 1 and the rest of the batch never gets a status; "
            "Lean: cpq_pop_throw_not_isolated / aggregator_pop_throw_witness]" % (viol[1], viol[0], viol[2][:200], viol[3]))
    ck.oblige(name, "correspondence", False, what)
    if any(p == "C13" and k == ASSIGN_KEY for (p, k, t) in common.known_findings()):
        ck.obligations[-1]["explained"] = True      # accounted for by the known finding below
    ck.counterexample(ASSIGN_KEY, what, {"engine": "E-SHIM", "harness": "harness/c13/shim.cpp", "stdin": scen_text(viol[0], viol[1], viol[2]),
                                         "violation": viol[3], "init": viol[0]})


# ---------------------------------------------------------------------------------------------
def run(ck):
    ck.rule = ("Elements are <key>:<id>; the comparator sees the key only. Every case is generated over ids and run under one of the comparators "
               "id / v//2 / v//3 / v%2 / v%3 / all-equal / reversed (concurrent_priority_queue<Elem, KeyGreater>) / reversed v//2; the heap array contents are compared BY ID "
               "(so the exact tie behaviour is compared) together with mark, after every batch. "
               "E-PURE: every valid heap over {0,1,2} of size<=3 x every batch of <=4 ops incl. a throwing push under `id`, <=3 ops under v//2 (ids 0,1 tie), all-equal, reversed "
               "(thorough adds ids {0..3}, heaps<=4), each followed by a drain batch; random heaps (sizes 0..31, duplicates, all-equal, strictly monotone) x 1-3 random "
               "batches (mixed/pop-heavy/push-heavy/increasing/decreasing runs, const&/rvalue/throwing pushes) + drain; a throwing push inserted at "
               "every position of random batches; random batches with pops whose element assignment throws; heapify/reheap on random (mark, data). "
               "E-SHIM: 2-4 threads x 1-3 calls (const&/rvalue/throwing push, try_pop) on 0-4 initial elements with keys id / v//2 / v%2 / all-equal under random schedules "
               "(two preemption densities) and bounded-preemption (2) DFS on 2-thread scenarios; every run is checked by the monitors (incl. Wing-Gong), the atomic-level trace is "
               "replayed against the Lean Agg model step by step, and the model-produced linearization of the replayed run (batch order) is validated against the REAL history "
               "(results, real-time order from the exact stamps, legality) by an independent Python spec. "
               "distinct = (empty heap?, set of (status, op kind), final mark 0?, comparator)")
    ck.assumptions += [
        "CpqBatch models handle_operations/heapify/reheap on (data, mark) over elements (key, id) with my_compare(a,b) = a.key < b.key: an arbitrary strict weak order with "
        "arbitrary ties (swo_has_rank: every strict weak order on finitely many elements is of this form); my_size is only checked to equal data.size() after each batch",
        "the four guards of handle_operations (pop shortcut of both passes, data.empty(), final mark < size) and its statement skeleton are re-translated from the source on every run; "
        "heapify/reheap loop guards are hand-written in the model and tied by the white-box differential only",
        "a throwing element copy / allocation is modelled for push (the only place where handle_operations catches: status FAILED, rethrown by push in its own caller); the harness "
        "throws from the copy constructor of push(const T&); vector growth moves elements (noexcept move); allocator failure takes the same catch(...) path and is not injected",
        "a pop whose element ASSIGNMENT throws (`x`, Op.pop true) is modelled AS CODED: Generated/C13.lean:popAssignGuarded is regenerated from the source "
        "(false in the pinned tree: the assignment is outside any try block, the exception leaves handle_operations in the handler thread, handler_busy stays set, "
        "the rest of the batch gets no status); all theorems about results assume no such pop (NoThrowingPop / popThrows = false); "
        "cpq_pop_throw_not_isolated and aggregator_pop_throw_witness are the closed negation witnesses; known finding `pop-assignment-throw-locks-queue`",
        "NOT modelled: exceptions from element moves inside heapify/reheap (types whose move constructor/assignment can throw)",
        "cpq_history_linearizable is a theorem about the access-level model Agg (one step per atomic access, any number of threads, any schedule, SC interleaving); its tie to the code is the "
        "E-SHIM step-by-step replay (every access, value, memory order as logged) plus the validation of the REAL history by the model-produced linearization; "
        "memory-order sufficiency (release status store / acquire spin) is not a theorem here: a weakened order shows up as a trace mismatch",
        "not proved in Lean (checked by the E-SHIM trace replay only): the next fields agree with the lists plist/rem/dfr",
        "the linearization order is batch order and, inside a batch, batchLin (NOT the serve order, which is not a legal sequential order in general: heap [3], batch push 10, push 5, try_pop "
        "returns 5); all operations of a batch are pairwise concurrent, which the well-formedness clause of cpq_history_linearizable proves (all linearization points of a batch sit at the exchange)",
    ]
    ck.trusted += ["harness/c13/pure.cpp (hand-built operation lists, private members via -fno-access-control)",
                   "checks/c13gen.py (statement parser + guard translator for handle_operations)",
                   "checks/c13.py monitors (brute-force batch linearizability, conservation, Wing-Gong, check_linearization)",
                   "correspondence is sampled/exhaustive-small (differential), not proved"]
    import time
    stage = {}
    t0 = time.time()
    gen(ck)
    ck.lean_stage()
    stage["gen+lean (incl. waiting for the shared build lock)"] = round(time.time() - t0, 1)
    t0 = time.time()
    run_pure(ck)
    run_bulk(ck)
    stage["E-PURE"] = round(time.time() - t0, 1)
    t0 = time.time()
    run_shim(ck)
    stage["E-SHIM"] = round(time.time() - t0, 1)
    t0 = time.time()
    run_assign_throw_probe(ck)
    stage["pop-assignment-throw probe"] = round(time.time() - t0, 1)
    ck.extra["stage_seconds"] = stage


def replay(ck, obj):
    r = obj["replay"]
    if r.get("engine") == "E-PURE" and r.get("stdin", "").startswith(("bbatch", "build")):
        exe = pure_exe()
        line = r["stdin"]
        w = line.split()
        how, rest = w[0], w[1:]
        ids = rest[:rest.index("|")] if "|" in rest else rest
        heap = drv("c13", "heapify 0 %s\n" % " ".join(ids))[0].rstrip()
        if how.startswith("build"):
            want = heap
        else:
            want = drv("c13", "batch %s | %s\n" % (heap.split("|", 1)[1].strip(), " ".join(rest[rest.index("|") + 1:])))[0].rstrip()
        out = run_impl(exe, [line])[0].rstrip()
        print("replay of %s\n  input : %s\n  output: %s\n  model : %s" % (obj.get("key"), line, out, want))
        print("  -> %s" % ("STILL FAILS" if out != want else "property holds now"))
        return 1 if out != want else 0
    if r.get("engine") == "E-PURE":
        exe = pure_exe()
        line = r["stdin"]
        mline = r.get("model_stdin", line)
        out = run_impl(exe, [line])[0].rstrip()
        why = ("crashed: " + out) if out.startswith("CRASH") else (monitor_sift(mline, out) if r.get("sift") else monitor_case(mline, out))
        print("replay of %s\n  input : %s\n  output: %s\n  model : %s" % (obj.get("key"), line, out, drv("c13", mline + "\n")[0]))
        print("  -> %s" % ("STILL FAILS: " + why if why else "property holds now"))
        return 1 if why else 0
    if r.get("engine") == "E-SHIM":
        exe = shim_exe()
        rc, out, err = sh([exe], input=r["stdin"], timeout=300)
        runs = parse_runs(out)
        if rc not in (0, 3):
            why = "harness crashed (memory error) rc=%d %s" % (rc, err.strip()[-200:])
        else:
            why = shim_monitor(r.get("init", []), runs[0]) if runs else "harness produced no run (rc=%d %s)" % (rc, err[-300:])
        print("replay of %s\n%s" % (obj.get("key"), r["stdin"]))
        if runs:
            for o in runs[0]["ops"]:
                print("  T%d %s -> %s" % (o["tid"], o["op"], o["res"]))
            print("  remaining contents: %s" % runs[0]["final"])
        print("  -> %s" % ("STILL FAILS: " + why if why else "property holds now"))
        return 1 if why else 0
    print("unknown replay engine %r" % r.get("engine"))
    return 2
