"""C19, storage of enumerable_thread_specific / combinable elements and initialiser faults.

E-GEN : the statement order of create_local (construct before value_committed) and of table_lookup (create_local before the
        slot claim) is read from the header text -> Generated.C19.stCommitAfterConstruct / stClaimAfterCreate.
E-SHIM: harness/c19/store.cpp runs the real container (functor / exemplar / default-constructor initialisers, a failing
        allocator for my_locals) with 1-6 threads under seeded schedules; initialisers throw at chosen (thread, call) positions.
        The calls are linearised by their grow_by(1) hand-out (creating calls) / their begin (found calls) and replayed on the
        Lean model `Store` (drv c19store): outcomes of every call, size(), is_built per index, my_count, destructors at clear()
        must agree.  flattened2d over an ETS of containers is compared with the segmented-iterator model.
        Monitors on the implementation: own element / stable address / truthful exists / no destructor on a never-constructed
        object / nothing leaked at clear() / iteration = the threads' elements.  The last one FAILS on the unchanged tree after
        a throwing initialiser: known finding `ets-throwing-initialiser-dead-element-visible` (and after a failed allocation:
        `ets-alloc-failure-later-elements-invisible`)."""
import os
import re

import common
from common import REPO, cxx_build, drv, sh

H = "harness/c19/"
KEY_DEAD = "ets-throwing-initialiser-dead-element-visible"
KEY_HIDE = "ets-alloc-failure-later-elements-invisible"


def gen(ck):
    import c19collab
    src = c19collab.strip_comments(open(os.path.join(REPO, "include/oneapi/tbb/enumerable_thread_specific.h")).read())
    cl = c19collab.body_of(src, r"void\s*\*\s*create_local\s*\(\s*\)\s*override\s*\{")
    tl = c19collab.body_of(src, r"void\s*\*\s*ets_base\s*<\s*ETS_key_type\s*>\s*::\s*table_lookup\s*\([^)]*\)\s*\{")
    def before(body, a, b):
        if not body:
            return False
        ia, ib = re.search(a, body), re.search(b, body)
        return ia is not None and ib is not None and ia.start() < ib.start()
    commit = before(cl, r"construct\s*\(", r"value_committed\s*\(")
    claim = before(tl, r"create_local\s*\(\s*\)", r"\.\s*claim\s*\(") and before(tl, r"create_local\s*\(\s*\)", r"\.\s*ptr\s*=")
    ck.extra["store_skeleton"] = {"commitAfterConstruct": commit, "claimAfterCreate": claim}
    ck.oblige("gen:create_local marks the element built only after the initialiser returned; table_lookup claims the slot only after create_local returned",
              "generated", commit and claim, "" if commit and claim else "regenerated: commitAfterConstruct=%s claimAfterCreate=%s" % (commit, claim))
    return "def stCommitAfterConstruct : Bool := %s\ndef stClaimAfterCreate : Bool := %s\n" % ("true" if commit else "false", "true" if claim else "false")


def build():
    return cxx_build("C19", "store", [H + "store.cpp", common.SHIM_SRC, "harness/common/r1_stubs.cpp"],
                     flags=["-O1", "-g", "-fno-access-control"] + common.SHIM_FLAGS)


def text(sc):
    t = "threads %s\nkind %d\n" % (" ".join(map(str, sc["threads"])), sc["kind"])
    if sc["ifault"]:
        t += "ifault %s\n" % " ".join("%d:%d" % p for p in sc["ifault"])
    if sc["afault"]:
        t += "afault %s\n" % " ".join("%d:%d" % p for p in sc["afault"])
    return t


def parse(out):
    runs, cur = [], None
    for l in out.split("\n"):
        w = l.split()
        if not w:
            continue
        if w[0] == "run":
            cur = {"c": [], "res": {}, "fin": "", "flat": "", "mon": "", "sched": []}
        elif cur is None:
            continue
        elif w[0] == "c":
            cur["c"].append(w[1:])
        elif w[0] == "res":
            cur["res"][int(w[1])] = w[2:]
        elif w[0] == "fin":
            cur["fin"] = l[4:]
        elif w[0] == "flat":
            cur["flat"] = l[4:]
        elif w[0] == "mon":
            cur["mon"] = " ".join(w[1:])
        elif w[0] == "sched":
            cur["sched"] = w[1:]
        elif w[0] == "end":
            runs.append(cur)
            cur = None
    return runs


def replay_on_model(sc, r, out_lines=None):
    """out_lines None: returns the driver input lines for this run (or a str describing a malformed trace);
    else: None if the run agrees with the Lean model `Store` (out_lines = the driver's answers to those lines), else a description"""
    T = len(sc["threads"])
    calls = {t: [] for t in range(T)}          # per thread: [begin pos, grow pos or None, grow index or None]
    for w in r["c"]:
        t, pos, kind = int(w[0]), int(w[1]), w[2]
        if kind == "b":
            calls[t].append([pos, None, None])
        elif kind == "g" and calls[t]:
            if calls[t][-1][1] is not None:
                return "thread %d: two grow_by hand-outs inside one local() call" % t
            calls[t][-1][1], calls[t][-1][2] = pos, int(w[3])
    order = []
    for t in range(T):
        if len(calls[t]) != len(r["res"].get(t, [])):
            return "thread %d: %d calls begun, %d outcomes" % (t, len(calls[t]), len(r["res"].get(t, [])))
        for j, (b, g, idx) in enumerate(calls[t]):
            order.append((g if g is not None else b, t, j, idx))
    order.sort()
    lines = ["threads " + " ".join(map(str, sc["threads"]))]
    kindmap = {}
    for (_, t, j, idx) in order:
        o = r["res"][t][j]
        if idx is not None and o in ("xi", "xa"):
            lines.append("fault %d %d" % (idx, 1 if o == "xi" else 2))
            kindmap[idx] = o
        if idx is None and o in ("xi", "xa"):
            return "thread %d call %d ended with an exception without a grow_by hand-out" % (t, j)
    for (_, t, j, idx) in order:
        lines.append("s %d" % t)
    lines.append("state")
    fl = r["flat"].split("|")
    lines.append("flat %s" % ((fl[1].strip() if len(fl) == 2 else "") or ";"))
    if out_lines is None:
        return lines
    out = out_lines
    flat_out = out[-1]
    out = out[len(out) - len(order) - 2:-1]
    last = {}
    for (k, (_, t, j, idx)) in enumerate(order):
        last[t] = out[k].split()
    for t in range(T):
        if not sc["threads"][t]:
            continue
        m = last.get(t, ["?"])
        if m[0] != "0":
            return "thread %d: the model has %s calls left" % (t, m[0])
        mres = [kindmap.get(int(x[1:]), x) if x.startswith("x") else x for x in m[1:]]
        # an element beyond size() (after a failed allocation) is not reached by the harness's index scan: `e?:<exists>`
        ires = r["res"][t]
        if len(mres) == len(ires):
            mres = [("e?:" + a.split(":")[1]) if b.startswith("e?") and a.startswith("e") else a for a, b in zip(mres, ires)]
        if mres != r["res"][t]:
            return "thread %d outcomes: implementation %s, model %s" % (t, r["res"][t], mres)
    st = [x.strip() for x in out[len(order)].split("|")]
    fin = [x.strip() for x in r["fin"].split("|")]
    if len(fin) < 5:
        return "harness printed no final state"
    if st[0] != fin[0]:
        return "size(): implementation %s, model %s" % (fin[0], st[0])
    mel = st[1].split()
    iel = fin[1].split()
    if len(mel) != len(iel):
        return "my_locals has %d indices in the implementation, %d in the model" % (len(iel), len(mel))
    for i, (a, b) in enumerate(zip(mel, iel)):
        o, al, bu = a.split(":")
        if b == "?:-":
            continue                                   # beyond size(): not inspected
        io, ib = b.split(":")
        if ib != bu or (bu == "1" and io != o):
            return "element %d: implementation owner:is_built %s, model %s" % (i, b, a)
    if st[2] != fin[2]:
        return "my_count: implementation %s, model %s" % (fin[2], st[2])
    if fin[4] != "-" and st[3] != fin[4]:
        return "value destructors at clear(): implementation %s, model %s" % (fin[4], st[3])
    if fin[3].split() != [fin[0]] * 3:
        return "traversals visit %s elements (iteration, combine_each, range), size() is %s" % (fin[3], fin[0])
    # flattened2d
    if len(fl) == 2 and flat_out.split() != fl[0].split():
        return "flattened2d: implementation visits %s, model %s" % (fl[0].split(), flat_out.split())
    return None


CORPUS = [
    {"threads": [2, 2, 2], "kind": 0, "ifault": [], "afault": []},
    {"threads": [2, 2, 2], "kind": 0, "ifault": [(1, 0)], "afault": []},
    {"threads": [1, 3, 1, 1], "kind": 1, "ifault": [(1, 0), (1, 1), (3, 0)], "afault": []},
    {"threads": [2, 1, 2, 1, 1], "kind": 2, "ifault": [(0, 0), (4, 0)], "afault": []},
    {"threads": [2, 2, 1, 1], "kind": 0, "ifault": [], "afault": [(0, 0)]},
    {"threads": [1, 1, 2, 1, 1, 1], "kind": 0, "ifault": [(2, 0)], "afault": [(0, 0)]},
]


def scenarios(ck, n):
    rng = ck.rng
    scs = list(CORPUS)
    for _ in range(n):
        T = rng.choice([1, 2, 3, 3, 4, 5, 6])
        th = [rng.choice([1, 2, 2, 3]) for _ in range(T)]
        nf = rng.choice([0, 0, 1, 1, 2, 3])
        ifault = sorted(set((rng.randrange(T), rng.choice([0, 0, 0, 1])) for _ in range(nf)))
        afault = [(0, 0)] if T > 1 and rng.random() < 0.2 else []
        scs.append({"threads": th, "kind": rng.choice([0, 0, 1, 2]), "ifault": ifault, "afault": afault})
    return scs


def classify(mon):
    if mon.startswith("VIOLATION iteration visits") and "never-constructed element(s) left behind by a throwing initialiser" in mon:
        return KEY_DEAD
    if mon.startswith("VIOLATION elements beyond a failed allocation are not reached by iteration"):
        return KEY_HIDE
    return None


def run_family(ck):
    quick = ck.tier == "quick"
    exe = build()
    scs = scenarios(ck, 40 if quick else 400)
    nrand = 5 if quick else 30
    bad_corr, bad_mon, dead, hide = [], [], [], []
    stats = {"runs": 0, "runs_with_failed_initialiser": 0, "runs_with_failed_allocation": 0}
    for si, sc in enumerate(scs):
        rc, out, err = sh([exe, "rand", str(ck.seed * 1000 + si), str(nrand)], input=text(sc), timeout=600)
        runs = parse(out)
        if rc not in (0, 1) or len(runs) != nrand:
            bad_mon.append((sc, {"mon": "VIOLATION harness crashed rc=%d %s" % (rc, (out[-200:] + err[-200:]).replace("\n", " ")), "sched": []}))
            continue
        # one driver process per scenario: the runs' inputs are concatenated (`threads` re-initialises the model)
        inputs = [replay_on_model(sc, r) for r in runs]
        good = [x for x in inputs if isinstance(x, list)]
        answers = drv("c19store", "\n".join("\n".join(x) for x in good) + "\n") if good else []
        offs = 0
        for r, x in zip(runs, inputs):
            if isinstance(x, list):
                r["_model"] = replay_on_model(sc, r, answers[offs:offs + len(x)])
                offs += len(x)
            else:
                r["_model"] = x
        for r in runs:
            stats["runs"] += 1
            allres = [o for v in r["res"].values() for o in v]
            stats["runs_with_failed_initialiser"] += 1 if "xi" in allres else 0
            stats["runs_with_failed_allocation"] += 1 if "xa" in allres else 0
            ck.count(1, ("store", len(sc["threads"]), sc["kind"], allres.count("xi"), allres.count("xa"), r["fin"].split("|")[0].strip()))
            if r["mon"] != "ok":
                k = classify(r["mon"])
                if k == KEY_DEAD and "xi" in allres:
                    dead.append((sc, r))
                elif k == KEY_HIDE and "xa" in allres:
                    hide.append((sc, r))
                else:
                    bad_mon.append((sc, r))
            d = r["_model"]
            ck.traces_validated += 1
            if d:
                bad_corr.append((sc, r, d))
        if si in (1, 4) and runs:
            ck.sample({"what": "ETS storage with faults", "scenario": sc, "outcomes": runs[0]["res"], "final": runs[0]["fin"], "monitor": runs[0]["mon"]})
    ck.extra.setdefault("schedules", {})["ets_storage"] = stats
    mk = lambda sc, r: {"engine": "E-SHIM", "family": "store", "scenario": sc, "schedule": r.get("sched", []), "monitor": r["mon"]}
    ck.oblige("corr:ETS storage: every local() outcome, size(), is_built per index, my_count, destructors at clear() and the flattened2d walk agree with the "
              "Lean model Store under initialiser / allocation faults", "correspondence", not bad_corr,
              "" if not bad_corr else "%s | scenario %s | sched %s" % (bad_corr[0][2], bad_corr[0][0], " ".join(bad_corr[0][1]["sched"])))
    ck.oblige("monitor:ETS storage: own constructed element, stable address, truthful exists, one initialiser call per successful first access, no destructor "
              "on a never-constructed object, nothing leaked at clear()", "correspondence", not bad_mon,
              "" if not bad_mon else "%s | scenario %s" % (bad_mon[0][1]["mon"], bad_mon[0][0]))
    if bad_mon:
        sc, r = min(bad_mon, key=lambda x: len(x[1].get("sched", [])) or 10 ** 9)
        key = re.sub(r"[^A-Za-z]+", "-", " ".join(r["mon"].split(" ")[1:8])).strip("-") or "harness"
        ck.counterexample("ets-storage:%s" % key, "ETS storage: %s under schedule %s" % (r["mon"], " ".join(r["sched"])), mk(sc, r))
    ck.oblige("monitor:ETS failure clause: after a throwing initialiser iteration / size() / combine_each / range() visit only constructed elements",
              "correspondence", not dead, "" if not dead else "%s | scenario %s" % (dead[0][1]["mon"], dead[0][0]), cex_keys=[KEY_DEAD])
    if dead:
        sc, r = min(dead, key=lambda x: len(x[1].get("sched", [])) or 10 ** 9)
        ck.counterexample(KEY_DEAD, "enumerable_thread_specific: %s | scenario %s (theorem ets_failed_element_stays_visible)" % (r["mon"], sc), mk(sc, r))
    ck.oblige("monitor:ETS after a failed allocation of my_locals: every thread's element is reached by iteration", "correspondence", not hide,
              "" if not hide else "%s | scenario %s" % (hide[0][1]["mon"], hide[0][0]), cex_keys=[KEY_HIDE])
    if hide:
        sc, r = min(hide, key=lambda x: len(x[1].get("sched", [])) or 10 ** 9)
        ck.counterexample(KEY_HIDE, "enumerable_thread_specific: %s | scenario %s" % (r["mon"], sc), mk(sc, r))
    covered = stats["runs_with_failed_initialiser"] > 0
    ck.oblige("coverage:ETS storage scenarios reach throwing initialisers", "correspondence", covered, str(stats))


def replay(r):
    exe = build()
    rc, out, err = sh([exe, "replay", ",".join(map(str, r["schedule"]))], input=text(r["scenario"]), timeout=300)
    print(out[-3000:])
    return 0 if rc == 0 else 1
