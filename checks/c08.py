"""C08 — mutexes: mutual exclusion, reader/writer rules, truthful upgrade, queue order, no lost grant (DESIGN.md §3 C08).

Tie: E-SHIM.  The real lock code of /repo runs under the controlled scheduler.
  spin_rw_mutex, spin_mutex      header code; every access to the lock word replayed on the Lean models RwWord / Spin
  queuing_mutex                  header code; every access to q_tail / m_next / m_going replayed on `Mcs`; FIFO monitor
  mutex, rw_mutex                header code + libtbb's address_waiter on the INSTRUMENTED runtime; word accesses and the
                                 sleep/wake hand-shake (enqueue, predicate, epoch check, semaphore P/V, flush) replayed on
                                 `Slp.Mx` / `Slp.Rw`
  queuing_rw_mutex               instrumented queuing_rw_mutex.cpp; holder-bookkeeping event log validated against the
                                 proven specification machine `QRwSpec` (its node protocol is NOT modelled: partial)
  speculative_spin_(rw_)mutex    fall-back path only (no RTM here): ghost-holder monitors + deadlock detection
All families: independent ghost-holder monitors in the harness, deadlock (= lost hand-off / lost wake-up) detection,
random schedules; bounded-preemption DFS for the component scenarios.  The memory orders executed by every acquiring /
releasing access are regenerated from the traces into Generated/C08.lean (`orders`) and checked by `rw_orders_publish`."""
import json
import os
import re

import common
from common import REPO, cxx_build, drv, gen_write, log, sh

STUBS = "harness/common/r1_stubs.cpp"

RW_OPS = ["lock", "try_lock", "unlock", "lock_shared", "try_lock_shared", "unlock_shared", "upgrade", "downgrade"]
MX_OPS = ["lock", "try_lock", "unlock"]
QM_OPS = ["acquire", "try_acquire", "release"]
QRW_OPS = ["acquire_r", "acquire_w", "try_r", "try_w", "release", "upgrade", "downgrade"]
ORDER_NUM = {"rlx": 0, "cns": 1, "acq": 2, "rel": 3, "acqrel": 4, "sc": 5}
W8 = ["work"] * 8


# --------------------------------------------------------------------------------------------------
# harness output
# --------------------------------------------------------------------------------------------------

def parse_runs(out):
    """e-lines: (tid, kind, var, order, a, b, ok) — values kept as strings."""
    runs, cur = [], None
    for l in out.split("\n"):
        w = l.split()
        if not w:
            continue
        if w[0] == "run":
            cur = {"eff": {}, "ev": [], "res": {}, "mon": "", "sched": [], "v": [], "o": [], "grant": []}
        elif cur is None:
            continue
        elif w[0] == "eff":
            cur["eff"][int(w[1])] = w[2:]
        elif w[0] == "e":
            cur["ev"].append((int(w[1]), w[2], w[3], w[4], w[5], w[6], w[7]))
        elif w[0] == "v":
            cur["v"].append(" ".join(w[1:]))
        elif w[0] == "o":
            cur["o"].append(tuple(w[1:]))
        elif w[0] == "grant":
            cur["grant"] = w[1:]
        elif w[0] == "res":
            cur["res"][int(w[1])] = w[2:]
        elif w[0] == "mon":
            cur["mon"] = " ".join(w[1:])
        elif w[0] == "sched":
            cur["sched"] = w[1:]
        elif w[0] == "end":
            runs.append(cur)
            cur = None
    return runs


def finished_ok(run, last, nthreads):
    for t in range(nthreads):
        if t in last:
            left, res = last[t][0], last[t][1:]
            if left != "0":
                return "thread %d: model has %s operations left at the end of the trace" % (t, left)
            if list(reversed(res)) != run["res"].get(t, []):
                return "thread %d results: implementation %s, model %s" % (t, run["res"].get(t), list(reversed(res)))
        elif run["eff"].get(t):
            return "thread %d executed ops but produced no trace" % t
    return None


def replay_word(model, run, nthreads):
    """spin_rw_mutex / spin_mutex: access-by-access replay (`s <tid>` steps the model, which prints its access)."""
    lines = ["reset"] + ["prog " + " ".join(run["eff"].get(t, [])) for t in range(nthreads)]
    lines += ["s %d" % e[0] for e in run["ev"]] + ["state"]
    out = drv(model, "\n".join(lines) + "\n")[1 + nthreads:]
    last = {}
    for i, (t, k, var, order, a, b, ok) in enumerate(run["ev"]):
        m = out[i].split(" | ")
        exp = [k, a, "0" if k in ("load", "store") else b, ok]
        if m[0].split() != exp:
            return "event %d of thread %d: implementation %s, model %s" % (i, t, " ".join(exp), m[0])
        last[t] = m[1].split() if len(m) > 1 else []
    d = finished_ok(run, last, nthreads)
    if d:
        return d
    if out[len(run["ev"])].split()[1] != "0":
        return "model reached a corrupted word (borrow across bit fields)"
    return None


def replay_mcs(run, nthreads):
    """queuing_mutex: every access to q_tail / m_next / m_going (kind, variable, values, CAS outcome) + FIFO logs."""
    lines = ["reset"] + ["prog " + " ".join(run["eff"].get(t, [])) for t in range(nthreads)]
    lines += ["s %d" % e[0] for e in run["ev"]] + ["state"]
    out = drv("c08mcs", "\n".join(lines) + "\n")[1 + nthreads:]
    last = {}
    for i, (t, k, var, order, a, b, ok) in enumerate(run["ev"]):
        m = out[i].split(" | ")
        exp = [k, var, a, "0" if k == "load" else b, ok]
        if m[0].split() != exp:
            return "event %d of thread %d: implementation %s, model %s" % (i, t, " ".join(exp), m[0])
        last[t] = m[1].split() if len(m) > 1 else []
    d = finished_ok(run, last, nthreads)
    if d:
        return d
    st = [x.split() for x in out[len(run["ev"])].split("|")]
    if st[0] != ["0", "0"] or st[1] != []:
        return "model ends with q_tail/bad/queue = %s %s" % (st[0], st[1])
    if st[3] != run["grant"] or st[2] != st[3]:
        return "grant order: implementation %s, model grantLog %s enqLog %s" % (run["grant"], st[3], st[2])
    return None


def replay_slp(model, run, nthreads, spin):
    """mutex / rw_mutex: the Lean driver matches every implementation access against the model's next access of that
    thread (word accesses, enqueue, epoch check, semaphore consume / V, flush) and skips the monitor's bookkeeping."""
    lines = ["reset", "spin %d" % spin] + ["prog " + " ".join(run["eff"].get(t, [])) for t in range(nthreads)]
    lines += ["e %d %s %s %s %s %s" % (t, k, var, a, b, ok) for (t, k, var, order, a, b, ok) in run["ev"]] + ["state"]
    out = drv(model, "\n".join(lines) + "\n")[2 + nthreads:]
    last, nskip = {}, 0
    for i, (t, k, var, order, a, b, ok) in enumerate(run["ev"]):
        o = out[i]
        if o.startswith("ok"):
            last[t] = o.split("|")[1].split()
        elif o == "skip":
            nskip += 1
            if var == "word":
                return "event %d of thread %d: access to the lock word skipped (%s %s %s)" % (i, t, k, a, b)
        else:
            return "event %d of thread %d: implementation %s %s %s %s ok=%s, model: %s" % (i, t, k, var, a, b, ok, o)
    d = finished_ok(run, last, nthreads)
    if d:
        return d
    st = [x.split() for x in out[len(run["ev"])].split("|")]
    if st[0][0] != "0" or st[1] != [] or st[3] != []:
        return "model ends with word/waitset/posted = %s %s %s" % (st[0], st[1], st[3])
    return None


def validate_qrw(run):
    out = drv("c08qrw", "reset\n" + "".join("ev %s\n" % v for v in run["v"]) + "state\n")
    for v, o in zip(run["v"], out[1:]):
        if not o.startswith("ok"):
            return "event '%s' is not an enabled transition of QRwSpec (%s) after %s" % (v, o, run["v"][:run["v"].index(v)][-6:])
    if out[-1].replace("|", "").strip():
        return "QRwSpec ends with holders/queue/upgraders: %s" % out[-1]
    return None


# --------------------------------------------------------------------------------------------------
# scenarios
# --------------------------------------------------------------------------------------------------

def scenarios(rng, ops, n, maxlen):
    scs = []
    for _ in range(n):
        T = rng.choice([2, 2, 3, 3, 4])
        scs.append([[rng.choice(ops) for _ in range(rng.randrange(2, maxlen + 1))] for _ in range(T)])
    return scs


RW_CORPUS = [
    [["lock_shared", "upgrade", "unlock"], ["lock_shared", "upgrade", "unlock"]],
    [["lock_shared", "upgrade", "unlock"], ["lock_shared", "upgrade", "unlock"], ["lock", "unlock", "try_lock_shared"]],
    [["lock", "downgrade", "unlock_shared"], ["lock", "unlock"], ["lock_shared", "unlock_shared"]],
    [["lock_shared", "upgrade", "downgrade", "upgrade", "unlock"], ["try_lock", "unlock", "lock_shared", "unlock_shared"]],
    [["lock_shared", "unlock_shared"], ["lock", "unlock"], ["try_lock_shared", "upgrade", "unlock"], ["lock_shared", "upgrade", "unlock"]],
    [["try_lock", "unlock"], ["try_lock", "unlock"], ["lock_shared", "unlock_shared", "lock", "unlock"]],
]
MX_CORPUS = [
    [["lock", "unlock", "lock", "unlock"], ["lock", "unlock", "lock", "unlock"]],
    [["try_lock", "unlock", "lock", "unlock"], ["lock", "unlock"], ["try_lock", "unlock", "try_lock", "unlock"]],
]
QM_CORPUS = [
    [["acquire", "release", "acquire", "release"], ["acquire", "release", "acquire", "release"]],
    [["acquire", "release"], ["acquire", "release"], ["acquire", "release"]],
    [["try_acquire", "release", "acquire", "release"], ["acquire", "release"], ["try_acquire", "release", "try_acquire", "release"]],
    [["acquire", "release"], ["acquire", "release"], ["acquire", "release"], ["try_acquire", "acquire", "release"]],
]
QRW_CORPUS = [
    [["acquire_r", "upgrade", "release"], ["acquire_r", "upgrade", "release"]],
    [["acquire_r", "upgrade", "release"], ["acquire_r", "upgrade", "release"], ["acquire_w", "release"]],
    [["acquire_r", "release"], ["acquire_w", "release"], ["acquire_r", "release"]],
    [["acquire_w", "downgrade", "release"], ["acquire_w", "release"], ["acquire_r", "release"]],
    [["acquire_r", "upgrade", "downgrade", "upgrade", "release"], ["try_w", "release", "acquire_r", "release"], ["acquire_r", "upgrade", "release"]],
    [["acquire_r", "release"], ["acquire_w", "release"], ["try_r", "upgrade", "release"], ["acquire_r", "upgrade", "release"]],
]
# sleeping locks: `work` (12 writes to an unrelated atomic) keeps spinning waiters iterating until they go to sleep
SMX_CORPUS = [
    [["lock"] + W8 + ["unlock"]] * 3,
    [["lock"] + W8 + ["unlock", "lock"] + W8 + ["unlock"]] * 3,
    [["lock"] + W8 + ["unlock"]] * 4,
    [["lock"] + W8 + ["unlock"], ["try_lock"] + W8 + ["unlock", "lock", "unlock"], ["lock", "unlock"] + W8 + ["lock", "unlock"]],
]
SRW_CORPUS = [
    [["lock"] + W8 + ["unlock"]] * 3,
    [["lock_shared"] + W8 + ["unlock_shared"], ["lock"] + W8 + ["unlock"], ["lock_shared"] + W8 + ["unlock_shared"]],
    [["lock_shared"] + W8 + ["upgrade"] + W8 + ["unlock"], ["lock_shared"] + W8 + ["upgrade"] + W8 + ["unlock"], ["lock"] + W8 + ["unlock"]],
    [["lock"] + W8 + ["downgrade"] + W8 + ["unlock_shared"], ["lock_shared"] + W8 + ["unlock_shared"], ["lock"] + W8 + ["unlock"]],
    [["lock_shared"] + W8 + ["unlock_shared"] + W8 + ["lock", "unlock"], ["lock"] + W8 + ["unlock"] + W8 + ["lock_shared", "unlock_shared"],
     ["try_lock_shared"] + W8 + ["upgrade"] + W8 + ["downgrade", "unlock_shared"], ["lock"] + W8 + ["unlock"]],
]


# --------------------------------------------------------------------------------------------------
# builds
# --------------------------------------------------------------------------------------------------

def build_hdr(name, src, defs=()):
    return cxx_build("C08", name, [src, common.SHIM_SRC, STUBS], flags=["-O1", "-g", "-fno-access-control"] + list(defs) + common.SHIM_FLAGS)


def build_rt(name, src, defs=(), drop=()):
    objs = [o for o in common.shim_runtime_objects() if not any(os.path.basename(o).startswith(d + ".") for d in drop)]
    return cxx_build("C08", name, [src, common.SHIM_SRC],
                     flags=["-O1", "-g", "-fno-access-control", "-I" + REPO + "/src"] + list(defs) + common.SHIM_FLAGS, libs=objs + ["-ldl"])


FAMILIES = {
    # name: (exe name, builder, ops, corpus, max len of random programs, kind)
    "spin_rw_mutex": ("rw", lambda: build_hdr("rw", "harness/c08/rw.cpp"), RW_OPS, RW_CORPUS, 6, "word:c08rw"),
    "spin_mutex": ("mx", lambda: build_hdr("mx", "harness/c08/mx.cpp"), MX_OPS, MX_CORPUS, 6, "word:c08spin"),
    "queuing_mutex": ("qm", lambda: build_hdr("qm", "harness/c08/qm.cpp"), QM_OPS, QM_CORPUS, 6, "mcs"),
    "mutex": ("slpmx", lambda: build_rt("slpmx", "harness/c08/slp.cpp", ["-D__TBB_BUILD"], ["address_waiter.cpp"]), MX_OPS + ["work"], SMX_CORPUS, 7, "slp:c08mx"),
    "rw_mutex": ("slprw", lambda: build_rt("slprw", "harness/c08/slp.cpp", ["-D__TBB_BUILD", "-DRWM"], ["address_waiter.cpp"]), RW_OPS + ["work", "work"], SRW_CORPUS, 8, "slp:c08rwm"),
    "queuing_rw_mutex": ("qrw", lambda: build_rt("qrw", "harness/c08/qrw.cpp"), QRW_OPS, QRW_CORPUS, 6, "qrw"),
    "speculative_spin_rw_mutex": ("specrw", lambda: build_rt("specrw", "harness/c08/qrw.cpp", ["-DSPEC_RW", "-mrtm"]), QRW_OPS, QRW_CORPUS, 6, "mon"),
    "speculative_spin_mutex": ("specmx", lambda: build_rt("specmx", "harness/c08/qrw.cpp", ["-DSPEC_MX", "-mrtm"]), QRW_OPS, QRW_CORPUS, 6, "mon"),
}


def prog_text(sc):
    return "".join("prog " + " ".join(p) + "\n" for p in sc)


# --------------------------------------------------------------------------------------------------
# E-GEN: constants, spin budget, memory-order table
# --------------------------------------------------------------------------------------------------

def role_of(lock, k, var, a, b, ok):
    """1 = the access by which a thread obtains the lock, 2 = the access by which it hands the lock on, 0 = other."""
    a, b, ok = int(a), int(b), int(ok)
    if lock in ("spin_mutex", "mutex", "speculative_spin_mutex"):
        if var != "word":
            return 0
        if k == "xchg" and a == 0 and b == 1:
            return 1
        if (k == "store" and a == 0) or (k == "xchg" and b == 0):
            return 2
    elif lock in ("spin_rw_mutex", "rw_mutex", "speculative_spin_rw_mutex"):
        if var != "word":
            return 0
        if k == "cas" and ok:
            return 1                                  # lock / try_lock / upgrade CAS
        if k == "fadd" and not (a & 1):
            return 1                                  # lock_shared's fetch_add
        if k in ("fand", "fsub") or (k == "fadd" and (a & 1)):
            return 2                                  # unlock, unlock_shared / upgrade's final subtraction, downgrade
    elif lock == "queuing_mutex":
        cls = re.sub(r"\d+$", "", var)
        if cls == "going":
            if k == "store" and a == 1:
                return 2
            if k == "load" and a == 1:
                return 1
        if cls == "tail":
            if k == "xchg":
                return 1 if a == 0 else 0
            if k == "cas" and ok:
                return 1 if a == 0 else (2 if b == 0 else 0)
    return 0


def collect_orders(lock, runs, table):
    for r in runs:
        for (t, k, var, order, a, b, ok) in r["ev"]:
            role = role_of(lock, k, var, a, b, ok)
            if role:
                table.add((lock, re.sub(r"\d+$", "", var), k, ORDER_NUM.get(order, 0), role))
        for (var, k, order, a, b, ok, given) in r["o"]:
            role = role_of(lock, k, var, a, b, ok) if given == "-" else int(given)
            if role:
                table.add((lock, var, k, ORDER_NUM.get(order, 0), role))


def measure_spin(runs):
    """number of evaluations of the wake-up condition in timed_spin_wait_until before a thread goes to sleep: the
    loads of the word between a failed exchange / fetch_or of a thread and its enqueue"""
    best = None
    for r in runs:
        cnt = {}
        for (t, k, var, order, a, b, ok) in r["ev"]:
            if var == "word":
                cnt[t] = cnt[t] + 1 if (k == "load" and t in cnt) else (0 if k in ("xchg", "for") else None)
                if cnt[t] is None:
                    del cnt[t]
            elif var == "cnt" and k == "store" and int(a) == int(b) + 1 and t in cnt:
                best = cnt[t] if best is None else min(best, cnt[t])
                del cnt[t]
            elif var.startswith("sem") or var == "epoch":
                cnt.pop(t, None)
    return best


def gen(ck, exes):
    exe = cxx_build("C08", "consts", ["harness/c08/consts.cpp"], flags=["-O0", "-fno-access-control"])
    rc, out, err = sh([exe], timeout=60)
    c = json.loads(out)
    table, spin = set(), None
    env = dict(os.environ, C08_ORDERS="1")
    for lock, (ename, _, ops, corpus, maxlen, kind) in FAMILIES.items():
        for si, sc in enumerate(corpus):
            rc, out, err = sh([exes[lock], "rand", str(100 + si), "6" if kind.startswith("slp") else "3"], input=prog_text(sc), timeout=300, env=env)
            runs = parse_runs(out)
            collect_orders(lock, runs, table)
            if lock == "rw_mutex":
                s = measure_spin(runs)
                spin = s if spin is None else (spin if s is None else min(spin, s))
    if spin is None:
        spin = 38
        ck.assumptions.append("spin budget of timed_spin_wait_until could not be measured (no thread slept in the calibration runs): 38 assumed")
    c["spinChecks"] = spin
    ck.extra["generated_constants"] = c
    ck.extra["orders_table"] = sorted(table)
    body = "".join("def %s : Nat := %d\n" % (k, v) for k, v in sorted(c.items()))
    body += "/-- (lock kind, variable, access kind, std::memory_order executed, role: 1 acquiring / 2 releasing), from the E-SHIM traces -/\n"
    body += "def orders : List (String × String × String × Nat × Nat) := [\n" + ",\n".join(
        '  ("%s", "%s", "%s", %d, %d)' % e for e in sorted(table)) + "]\n"
    gen_write("C08", body)
    weak = [e for e in sorted(table) if (e[4] == 2 and e[3] not in (3, 4, 5)) or (e[4] == 1 and e[3] not in (2, 4, 5))]
    ck.oblige("gen:orders every releasing access is release-or-stronger and every acquiring access acquire-or-stronger "
              "(Lean: rw_orders_publish over Generated.C08.orders)", "generated", not weak,
              "" if not weak else "too weak (lock, variable, access, std::memory_order, role 1=acquire 2=release): %s — on the sequentially consistent "
              "shim (and on x86-TSO hardware, where such a store is still a plain mov) no failing execution can be exhibited; the C++11 "
              "guarantee 'writes of a critical section are visible to the next holder' is lost" % weak)
    locks = {e[0] for e in table}
    ck.oblige("gen:orders-table covers every lock kind with an acquiring and a releasing access", "generated",
              all(any(e[0] == l and e[4] == 1 for e in table) and any(e[0] == l and e[4] == 2 for e in table) for l in FAMILIES),
              "lock kinds in the table: %s" % sorted(locks))
    return spin


# --------------------------------------------------------------------------------------------------
# one lock family
# --------------------------------------------------------------------------------------------------

def run_family(ck, name, exe, spin):
    ename, _, ops, corpus, maxlen, kind = FAMILIES[name]
    quick = ck.tier == "quick"
    heavy = kind.startswith("slp")
    nsc = (10 if heavy else 25) if quick else (45 if heavy else 140)
    scs = corpus + scenarios(ck.rng, ops, nsc, maxlen)
    nrand = (12 if heavy else 30) if quick else (50 if heavy else 110)
    bad_corr, bad_mon = [], []
    nruns = slept = 0
    for si, sc in enumerate(scs):
        nr = nrand * 2 if (heavy and si < len(corpus)) else nrand
        rc, out, err = sh([exe, "rand", str(ck.seed * 1000 + si), str(nr)], input=prog_text(sc), timeout=600)
        runs = parse_runs(out)
        for r in runs:
            nruns += 1
            kinds = tuple(sorted(set((e[1], re.sub(r"\d+$", "", e[2])) for e in r["ev"]))) or tuple(sorted(set(v.split()[0] for v in r["v"])))
            ck.count(1, (name, len(sc), kinds, tuple(tuple(v) for v in r["res"].values())))
            if r["mon"] != "ok":
                bad_mon.append((sc, r))
            d = None
            if kind.startswith("word:"):
                d = replay_word(kind[5:], r, len(sc))
            elif kind == "mcs":
                d = replay_mcs(r, len(sc))
            elif kind.startswith("slp:"):
                d = replay_slp(kind[4:], r, len(sc), spin)
                slept += any(e[2] == "cnt" and e[1] == "store" for e in r["ev"])
            elif kind == "qrw":
                d = validate_qrw(r)
            if kind != "mon":
                ck.traces_validated += 1
                if d:
                    bad_corr.append((sc, r, d))
        if rc not in (0, 1, 3):
            # the lock code crashed (e.g. a null successor dereference): the failing schedule is the run after the last printed one
            bad_mon.append((sc, {"mon": "CRASH the lock code crashed (rc=%d) %s" % (rc, err[-200:].strip()), "sched": [],
                                 "rerun": ["rand", str(ck.seed * 1000 + si), str(len(runs) + 1)]}))
        if si < 1 and runs:
            ck.sample({"lock": name, "scenario": [" ".join(p) for p in sc], "effective": runs[0]["eff"],
                       "trace_head": (runs[0]["ev"] or runs[0]["v"])[:10], "results": runs[0]["res"]}, cap=10)
    # bounded-preemption exhaustive exploration of the contention scenarios with the property monitors
    dfs_runs = dfs_starved = 0
    if not heavy:
        for sc in corpus[: (3 if quick else len(corpus))]:
            cap = ("8000" if kind in ("qrw", "mon") else "20000") if quick else ("50000" if kind in ("qrw", "mon") else "200000")
            rc, out, err = sh([exe, "dfs", "2" if quick else "3", cap], input=prog_text(sc), timeout=1500)
            m = re.search(r"summary runs=(\d+) bad=(\d+)", out)
            if m:
                dfs_runs += int(m.group(1))
            if rc == 4 and m and m.group(2) == "0" and "starved=1" in out:
                # the enumeration stopped at an unfair schedule (a thread spinning with writes was never preempted): not a failure
                dfs_starved += 1
                continue
            if rc != 0 or not m or m.group(2) != "0":
                rs = parse_runs(out)
                bad_mon.append((sc, rs[-1] if rs else {"mon": "CRASH the lock code crashed or hung during the bounded-preemption enumeration (rc=%d) %s" % (rc, (out + err)[-200:].strip()),
                                                      "sched": [], "rerun": ["dfs", "2" if quick else "3", cap]}))
    ck.evaluations += dfs_runs
    info = {"random_runs": nruns, "dfs_runs": dfs_runs}
    if dfs_starved:
        info["dfs_enumerations_stopped_at_an_unfair_schedule"] = dfs_starved
    if heavy:
        info["runs_in_which_a_thread_slept"] = slept
    ck.extra.setdefault("schedules", {})[name] = info
    what = {"word": "atomic-access trace replays on the Lean model (accesses, values, results)",
            "mcs": "q_tail / m_next / m_going access trace replays on `Mcs` (accesses, values, CAS outcomes, results, FIFO logs)",
            "slp": "lock-word accesses and sleep/wake hand-shake (enqueue, predicate, epoch check, P/V, flush) replay on the Lean model",
            "qrw": "holder-bookkeeping event log is accepted by the proven specification machine QRwSpec"}.get(kind.split(":")[0])
    if what:
        ck.oblige("corr:%s %s" % (name, what), "correspondence", not bad_corr,
                  "" if not bad_corr else "%s | scenario %s | sched %s" % (bad_corr[0][2], bad_corr[0][0], " ".join(bad_corr[0][1]["sched"])))
    if heavy:
        ck.oblige("corr:%s some explored runs really put a thread to sleep" % name, "correspondence", slept > 0, "%d of %d" % (slept, nruns))
    ck.oblige("monitor:%s exclusion / reader-writer rule / truthful try+upgrade / queue order / no deadlock (random%s)" % (name, "" if heavy else " + bounded-preemption DFS"),
              "correspondence", not bad_mon, "" if not bad_mon else "%s | scenario %s" % (bad_mon[0][1]["mon"], bad_mon[0][0]))
    cex = bad_mon[:1]
    if not cex and bad_corr:
        # the correspondence broke but the monitors are quiet: search harder for a property failure on the implementation
        cex = search(ck, name, exe, [b[0] for b in bad_corr[:3]] + corpus)
        if not cex and kind == "qrw":
            sc, r, d = bad_corr[0]      # a rejected event IS a property failure of the implementation (safety / queue order / truthfulness of the spec)
            ck.counterexample("%s:spec-rejects" % name, "%s: %s under schedule %s" % (name, d, " ".join(r["sched"])),
                              {"engine": "E-SHIM", "lock": name, "scenario": sc, "schedule": r["sched"], "monitor": d, "events": r["v"]})
    for sc, r in cex:
        ck.counterexample("%s:%s" % (name, r["mon"].split(" ")[0] if r["mon"] else "?"),
                          "%s: %s under schedule %s" % (name, r["mon"], " ".join(r["sched"])),
                          {"engine": "E-SHIM", "lock": name, "scenario": sc, "schedule": r["sched"], "monitor": r["mon"],
                           "rerun": r.get("rerun"), "trace": (r.get("ev") or r.get("v") or [])[:200]})
    return bad_corr, bad_mon


def search(ck, name, exe, scs):
    """failing-input search: more random schedules (and DFS for the component harnesses) on the given scenarios"""
    heavy = FAMILIES[name][5].startswith("slp")
    for si, sc in enumerate(scs):
        rc, out, err = sh([exe, "rand", str(ck.seed * 7 + 900 + si), "400" if heavy else "1500"], input=prog_text(sc), timeout=900)
        for r in parse_runs(out):
            if r["mon"] != "ok":
                return [(sc, r)]
        if not heavy:
            rc, out, err = sh([exe, "dfs", "3", "200000"], input=prog_text(sc), timeout=900)
            rs = parse_runs(out)
            if rs and rs[-1]["mon"] != "ok":
                return [(sc, rs[-1])]
    return []


def run(ck):
    ck.rule = ("E-SHIM on all eight lock kinds: hand-written contention scenarios (incl. concurrent upgrades by several readers, long holds "
               "that send waiters to sleep) + seeded random 2-4 thread op programs, each under seeded random schedules; access-by-access "
               "replay on the Lean protocol models (spin_rw_mutex, spin_mutex, queuing_mutex, mutex, rw_mutex), validation of the event log "
               "against the proven specification (queuing_rw_mutex), ghost-holder / FIFO monitors and deadlock detection everywhere, "
               "bounded-preemption DFS of the contention scenarios for the non-sleeping locks; distinct = distinct (lock kind, #threads, "
               "access kinds x variables seen, results) classes")
    ck.assumptions += [
        "proved on models at atomic-access granularity, N threads, all sequentially consistent interleavings: spin_mutex, spin_rw_mutex, "
        "queuing_mutex (Mcs), the word protocols of mutex and rw_mutex together with the sleep/wake hand-shake",
        "the concurrent_monitor behind wait_on_address/notify_* is modelled at its linearisation points (enqueue, predicate load, epoch check, "
        "semaphore P/V, flush under the monitor mutex); its internals (own mutex, list, futex) are serialised by its mutex and belong to C02",
        "mutex / rw_mutex no-lost-wake-up theorems (mutex_handoff_no_loss, rw_handoff_no_loss, rw_wake_rules) are safety invariants over all "
        "schedules ('no state in which a committed sleeper's condition holds and no notifier / woken thread is in flight'); progress of the "
        "in-flight notifier itself is not a theorem (it has no blocking step in the model) — deadlock detection checks it on explored schedules",
        "queuing_rw_mutex: PARTIAL — only the specification machine QRwSpec is proved (safety, queue order, truthful upgrade, atomic downgrade); "
        "the node protocol of queuing_rw_mutex.cpp (my_prev/my_next/my_state/my_going/internal locks) is NOT modelled; the implementation is "
        "tied to the spec by validating its holder-bookkeeping event log on the explored schedules only",
        "speculative_spin_mutex / speculative_spin_rw_mutex: this machine has no RTM (speculation_enabled() is false), so only the fall-back "
        "path is exercised, with the monitors; transactional execution is NOT modelled",
        "TSO store-buffer delays are not explored (the shim serialises accesses: sequentially consistent interleavings); release/acquire "
        "visibility rests on the regenerated memory-order table (rw_orders_publish: every releasing access is release-or-stronger, every "
        "acquiring access acquire-or-stronger, on the same variable) plus the C++11 / x86-TSO mapping of those orders",
        "weak CAS never fails spuriously under the shim; futex waits have no spurious wake-ups",
        "the sleeping locks are explored with random schedules only (their 38-iteration spin phase makes bounded DFS useless)"]
    ck.trusted += ["harness/shim (atomic shim + baton scheduler)", "harness/c08/*.cpp ghost-holder monitors and variable naming "
                   "(monitor slot of the lock's address, per-call sleep_node recognised by its access pattern)",
                   "trace replay / role classification of accesses in checks/c08.py (sampled correspondence)"]
    exes = {name: fam[1]() for name, fam in FAMILIES.items()}
    spin = gen(ck, exes)
    ck.lean_stage()
    for name in FAMILIES:
        run_family(ck, name, exes[name], spin)


def replay(ck, obj):
    r = obj["replay"]
    exe = FAMILIES[r["lock"]][1]()
    if r.get("rerun"):       # the harness died before it could print the schedule: re-run the seeded enumeration that led to it
        rc, out, err = sh([exe] + r["rerun"], input=prog_text(r["scenario"]), timeout=900)
    else:
        rc, out, err = sh([exe, "replay", ",".join(r["schedule"])], input=prog_text(r["scenario"]), timeout=300)
    print(out[-3000:])
    print("harness exit status %d" % rc)
    return 0 if rc == 0 else 1
