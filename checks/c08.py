"""C08 — mutexes: mutual exclusion, reader/writer rules, truthful upgrade, no lost grant (DESIGN.md §3 C08).

Tie: E-SHIM.  The real lock code of /repo runs under the controlled scheduler; every atomic access to the lock
word is replayed, access by access, on the Lean protocol model (kind, value read/expected, value written, CAS
outcome, operation results); independent ghost-holder monitors in the harness check the property itself and the
scheduler's deadlock detection checks "no lost grant"."""
import json
import os
import re

import common
from common import REPO, cxx_build, drv, gen_write, log, sh

STUBS = "harness/common/r1_stubs.cpp"

RW_OPS = ["lock", "try_lock", "unlock", "lock_shared", "try_lock_shared", "unlock_shared", "upgrade", "downgrade"]
MX_OPS = ["lock", "try_lock", "unlock"]


def gen(ck):
    exe = cxx_build("C08", "consts", ["harness/c08/consts.cpp"], flags=["-O0", "-fno-access-control"])
    rc, out, err = sh([exe], timeout=60)
    c = json.loads(out)
    ck.extra["generated_constants"] = c
    gen_write("C08", "".join("def %s : Nat := %d\n" % (k, v) for k, v in sorted(c.items())))


def parse_runs(out):
    runs, cur = [], None
    for l in out.split("\n"):
        w = l.split()
        if not w:
            continue
        if w[0] == "run":
            cur = {"eff": {}, "ev": [], "res": {}, "mon": "", "sched": []}
        elif cur is None:
            continue
        elif w[0] == "eff":
            cur["eff"][int(w[1])] = w[2:]
        elif w[0] == "e":
            cur["ev"].append((int(w[1]), w[2], w[3], w[4], w[5]))
        elif w[0] == "res":
            cur["res"][int(w[1])] = w[2:]
        elif w[0] == "mon":
            cur["mon"] = " ".join(w[1:])
        elif w[0] == "sched":
            cur["sched"] = w[1:]
        elif w[0] == "end":
            runs.append(cur)
            cur = None
    return runs


def replay_on_model(model, run, nthreads):
    """Feed one observed run to the Lean model; returns None if it agrees, else a description."""
    lines = ["reset"]
    for t in range(nthreads):
        lines.append("prog " + " ".join(run["eff"].get(t, [])))
    for (t, k, a, b, ok) in run["ev"]:
        lines.append("s %d" % t)
    lines.append("state")
    out = drv(model, "\n".join(lines) + "\n")
    out = out[1 + nthreads:]
    last = {}
    for i, (t, k, a, b, ok) in enumerate(run["ev"]):
        m = out[i].split(" | ")
        ev = m[0].split()
        exp = [k, a, b if (k != "load") else "0", ok]
        if k == "store":
            exp = [k, a, "0", ok]
        if ev != exp:
            return "event %d of thread %d: implementation %s, model %s" % (i, t, " ".join(exp), m[0])
        last[t] = m[1].split() if len(m) > 1 else []
    for t in range(nthreads):
        if t in last:
            left, res = last[t][0], last[t][1:]
            if left != "0":
                return "thread %d: model has %s operations left at the end of the trace" % (t, left)
            if list(reversed(res)) != run["res"].get(t, []):
                return "thread %d results: implementation %s, model %s" % (t, run["res"].get(t), list(reversed(res)))
        elif run["eff"].get(t):
            return "thread %d executed ops but produced no trace" % t
    st = out[len(run["ev"])].split()
    if st[1] != "0":
        return "model reached a corrupted word (borrow across bit fields)"
    return None


def scenarios(ck, ops, n, maxlen):
    rng = ck.rng
    scs = []
    for _ in range(n):
        T = rng.choice([2, 2, 3, 3, 4])
        scs.append([[rng.choice(ops) for _ in range(rng.randrange(2, maxlen + 1))] for _ in range(T)])
    return scs


# hand-written scenarios that aim at the dangerous windows
RW_CORPUS = [
    [["lock_shared", "upgrade", "unlock"], ["lock_shared", "upgrade", "unlock"]],
    [["lock_shared", "upgrade", "unlock"], ["lock_shared", "upgrade", "unlock"], ["lock", "unlock", "try_lock_shared"]],
    [["lock", "downgrade", "unlock_shared"], ["lock", "unlock"], ["lock_shared", "unlock_shared"]],
    [["lock_shared", "upgrade", "downgrade", "upgrade", "unlock"], ["try_lock", "unlock", "lock_shared", "unlock_shared"]],
    [["lock_shared", "unlock_shared"], ["lock", "unlock"], ["try_lock_shared", "upgrade", "unlock"], ["lock_shared", "upgrade", "unlock"]],
    [["try_lock", "unlock"], ["try_lock", "unlock"], ["lock_shared", "unlock_shared", "lock", "unlock"]],
]
MX_CORPUS = [
    [["lock", "unlock", "lock", "unlock"], ["lock", "unlock", "lock", "unlock"]],
    [["try_lock", "unlock", "lock", "unlock"], ["lock", "unlock"], ["try_lock", "unlock", "try_lock", "unlock"]],
]


def run_family(ck, name, exe, model, corpus, ops, maxlen):
    quick = ck.tier == "quick"
    scs = corpus + scenarios(ck, ops, 25 if quick else 200, maxlen)
    nrand = 30 if quick else 150
    bad_corr, bad_mon = [], []
    nruns = 0
    for si, sc in enumerate(scs):
        text = "".join("prog " + " ".join(p) + "\n" for p in sc)
        rc, out, err = sh([exe, "rand", str(ck.seed * 1000 + si), str(nrand)], input=text, timeout=300)
        runs = parse_runs(out)
        for r in runs:
            nruns += 1
            ck.count(1, (name, len(sc), tuple(sorted(set(k for (_, k, _, _, ok) in r["ev"] if True))), tuple(tuple(v) for v in r["res"].values())))
            if r["mon"] != "ok":
                bad_mon.append((sc, r))
            if model:
                d = replay_on_model(model, r, len(sc))
                ck.traces_validated += 1
                if d:
                    bad_corr.append((sc, r, d))
        if rc not in (0, 1, 3):
            bad_mon.append((sc, {"mon": "harness crashed rc=%d %s" % (rc, err[-300:]), "sched": []}))
        if si < 2 and runs:
            ck.sample({"lock": name, "scenario": sc, "effective": runs[0]["eff"], "trace_head": runs[0]["ev"][:12], "results": runs[0]["res"]})
    # bounded-preemption exhaustive exploration of the corpus scenarios with the property monitors
    dfs_runs = 0
    for sc in corpus[: (3 if quick else len(corpus))]:
        text = "".join("prog " + " ".join(p) + "\n" for p in sc)
        rc, out, err = sh([exe, "dfs", "2" if quick else "3", "20000" if quick else "400000"], input=text, timeout=1500)
        m = re.search(r"summary runs=(\d+) bad=(\d+)", out)
        if m:
            dfs_runs += int(m.group(1))
        if rc != 0 or not m or m.group(2) != "0":
            rs = parse_runs(out)
            bad_mon.append((sc, rs[-1] if rs else {"mon": "harness rc=%d %s" % (rc, (out + err)[-300:]), "sched": []}))
    ck.evaluations += dfs_runs
    ck.extra.setdefault("schedules", {})[name] = {"random_runs": nruns, "dfs_runs": dfs_runs}
    ck.oblige("corr:%s atomic-access trace replays on the Lean model (accesses, values, results)" % name, "correspondence", not bad_corr,
              "" if not bad_corr else "%s | scenario %s | sched %s" % (bad_corr[0][2], bad_corr[0][0], " ".join(bad_corr[0][1]["sched"])))
    ck.oblige("monitor:%s exclusion / reader-writer rule / truthful upgrade / no deadlock (random + bounded-preemption DFS)" % name, "correspondence", not bad_mon,
              "" if not bad_mon else "%s | scenario %s" % (bad_mon[0][1]["mon"], bad_mon[0][0]))
    for sc, r in bad_mon[:1]:
        ck.counterexample("%s:%s" % (name, r["mon"].split(" ")[0] if r["mon"] else "?"),
                          "%s: %s under schedule %s" % (name, r["mon"], " ".join(r["sched"])),
                          {"engine": "E-SHIM", "lock": name, "scenario": sc, "schedule": r["sched"], "monitor": r["mon"], "trace": r.get("ev", [])[:200]})
    return bad_corr, bad_mon


def build(name, src, defs=()):
    return cxx_build("C08", name, [src, common.SHIM_SRC, STUBS], flags=["-O1", "-g", "-fno-access-control"] + list(defs) + common.SHIM_FLAGS)


def run(ck):
    ck.rule = ("E-SHIM: hand-written contention scenarios + random 2-4 thread op programs (seeded), each under seeded random schedules with "
               "access-by-access replay on the Lean model, plus bounded-preemption DFS of the contention scenarios with ghost-holder monitors; "
               "distinct = distinct (lock kind, #threads, access kinds seen, results) classes")
    ck.assumptions += [
        "proved on the model: spin_mutex and spin_rw_mutex word protocols (N threads, all schedules, sequentially consistent interleavings)",
        "release/acquire visibility is not modelled (the shim serialises accesses); memory orders are recorded in the trace only",
        "queuing_mutex, queuing_rw_mutex, mutex, rw_mutex and the RTM variants: covered by the implementation-side monitors under explored "
        "schedules where a harness exists, not by theorems yet",
        "weak CAS never fails spuriously under the shim"]
    ck.trusted += ["harness/shim (atomic shim + baton scheduler)", "harness/c08/*.cpp ghost-holder monitors", "trace replay in checks/c08.py (sampled correspondence)"]
    gen(ck)
    ck.lean_stage()
    rw = build("rw", "harness/c08/rw.cpp")
    run_family(ck, "spin_rw_mutex", rw, "c08rw", RW_CORPUS, RW_OPS, 6)
    mx = build("mx", "harness/c08/mx.cpp")
    run_family(ck, "spin_mutex", mx, "c08spin", MX_CORPUS, MX_OPS, 6)


def replay(ck, obj):
    r = obj["replay"]
    src = {"spin_rw_mutex": ("rw", "harness/c08/rw.cpp"), "spin_mutex": ("mx", "harness/c08/mx.cpp")}[r["lock"]]
    exe = build(*src)
    text = "".join("prog " + " ".join(p) + "\n" for p in r["scenario"])
    rc, out, err = sh([exe, "replay", ",".join(r["schedule"])], input=text, timeout=120)
    print(out)
    return 0 if rc == 0 else 1
