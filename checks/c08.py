"""C08 — mutexes: mutual exclusion, reader/writer rules, truthful upgrade, queue order, no lost grant (DESIGN.md §3 C08).

Tie: E-SHIM.  The real lock code of /repo runs under the controlled scheduler.
  spin_rw_mutex, spin_mutex      header code; every access to the lock word replayed on the Lean models RwWord / Spin
  queuing_mutex                  header code; every access to q_tail / m_next / m_going replayed on `Mcs`; FIFO monitor
  mutex, rw_mutex                header code + libtbb's address_waiter on the INSTRUMENTED runtime; word accesses and the
                                 sleep/wake hand-shake (enqueue, predicate, epoch check, semaphore P/V, flush) replayed on
                                 `Slp.Mx` / `Slp.Rw`
  queuing_rw_mutex               instrumented queuing_rw_mutex.cpp; holder-bookkeeping event log validated against the
                                 proven specification machine `QRwSpec` (its node protocol is NOT modelled: partial)
  speculative_spin_rw_mutex      instrumented rtm_rw_mutex.cpp with speculation switched off: accesses to the spin_rw_mutex word and to
                                 write_flag replayed on `Rtm` (Model/C08R.lean); write_flag monitor (a holding real writer => write_flag);
                                 the speculative paths (hardware transactions cannot be scheduled) are modelled abstractly and tied by
                                 source-text obligations regenerated on every run
  speculative_spin_mutex         rtm_mutex.cpp with speculation off: m_flag accesses replayed on `Spin`; source-text obligations
All families: independent ghost-holder monitors in the harness, deadlock (= lost hand-off / lost wake-up) detection,
random schedules; bounded-preemption DFS for the component scenarios.  The memory orders executed by every acquiring /
releasing access are regenerated from the traces into Generated/C08.lean (`orders`) and checked by `rw_orders_publish`."""
import json
import os
import re

import common
from common import REPO, cxx_build, drv, gen_write, log, sh

STUBS = "harness/common/r1_stubs.cpp"

RW_OPS = ["lock", "try_lock", "unlock", "lock_shared", "try_lock_shared", "unlock_shared", "upgrade", "downgrade"]
MX_OPS = ["lock", "try_lock", "unlock"]
QM_OPS = ["acquire", "try_acquire", "release"]
QRW_OPS = ["acquire_r", "acquire_w", "try_r", "try_w", "release", "upgrade", "downgrade"]
ORDER_NUM = {"rlx": 0, "cns": 1, "acq": 2, "rel": 3, "acqrel": 4, "sc": 5}
W8 = ["work"] * 8


# --------------------------------------------------------------------------------------------------
# harness output
# --------------------------------------------------------------------------------------------------

def parse_runs(out):
    """e-lines: (tid, kind, var, order, a, b, ok) — values kept as strings."""
    runs, cur = [], None
    for l in out.split("\n"):
        w = l.split()
        if not w:
            continue
        if w[0] == "run":
            cur = {"eff": {}, "ev": [], "res": {}, "mon": "", "sched": [], "v": [], "o": [], "grant": []}
        elif cur is None:
            continue
        elif w[0] == "eff":
            cur["eff"][int(w[1])] = w[2:]
        elif w[0] == "e":
            cur["ev"].append((int(w[1]), w[2], w[3], w[4], w[5], w[6], w[7]))
        elif w[0] == "v":
            cur["v"].append(" ".join(w[1:]))
        elif w[0] == "o":
            cur["o"].append(tuple(w[1:]))
        elif w[0] == "grant":
            cur["grant"] = w[1:]
        elif w[0] == "res":
            cur["res"][int(w[1])] = w[2:]
        elif w[0] == "mon":
            cur["mon"] = " ".join(w[1:])
        elif w[0] == "sched":
            cur["sched"] = w[1:]
        elif w[0] == "end":
            runs.append(cur)
            cur = None
    return runs


def finished_ok(run, last, nthreads):
    for t in range(nthreads):
        if t in last:
            left, res = last[t][0], last[t][1:]
            if left != "0":
                return "thread %d: model has %s operations left at the end of the trace" % (t, left)
            if list(reversed(res)) != run["res"].get(t, []):
                return "thread %d results: implementation %s, model %s" % (t, run["res"].get(t), list(reversed(res)))
        elif run["eff"].get(t):
            return "thread %d executed ops but produced no trace" % t
    return None


def replay_word(model, run, nthreads):
    """spin_rw_mutex / spin_mutex: access-by-access replay (`s <tid>` steps the model, which prints its access)."""
    lines = ["reset"] + ["prog " + " ".join(run["eff"].get(t, [])) for t in range(nthreads)]
    lines += ["s %d" % e[0] for e in run["ev"]] + ["state"]
    out = drv(model, "\n".join(lines) + "\n")[1 + nthreads:]
    last = {}
    for i, (t, k, var, order, a, b, ok) in enumerate(run["ev"]):
        m = out[i].split(" | ")
        exp = [k, a, "0" if k in ("load", "store") else b, ok]
        if m[0].split() != exp:
            return "event %d of thread %d: implementation %s, model %s" % (i, t, " ".join(exp), m[0])
        last[t] = m[1].split() if len(m) > 1 else []
    d = finished_ok(run, last, nthreads)
    if d:
        return d
    if out[len(run["ev"])].split()[1] != "0":
        return "model reached a corrupted word (borrow across bit fields)"
    return None


def replay_mcs(run, nthreads):
    """queuing_mutex: every access to q_tail / m_next / m_going (kind, variable, values, CAS outcome) + FIFO logs."""
    lines = ["reset"] + ["prog " + " ".join(run["eff"].get(t, [])) for t in range(nthreads)]
    lines += ["s %d" % e[0] for e in run["ev"]] + ["state"]
    out = drv("c08mcs", "\n".join(lines) + "\n")[1 + nthreads:]
    last = {}
    for i, (t, k, var, order, a, b, ok) in enumerate(run["ev"]):
        m = out[i].split(" | ")
        exp = [k, var, a, "0" if k == "load" else b, ok]
        if m[0].split() != exp:
            return "event %d of thread %d: implementation %s, model %s" % (i, t, " ".join(exp), m[0])
        last[t] = m[1].split() if len(m) > 1 else []
    d = finished_ok(run, last, nthreads)
    if d:
        return d
    st = [x.split() for x in out[len(run["ev"])].split("|")]
    if st[0] != ["0", "0"] or st[1] != []:
        return "model ends with q_tail/bad/queue = %s %s" % (st[0], st[1])
    if st[3] != run["grant"] or st[2] != st[3]:
        return "grant order: implementation %s, model grantLog %s enqLog %s" % (run["grant"], st[3], st[2])
    return None


def replay_slp(model, run, nthreads, spin):
    """mutex / rw_mutex: the Lean driver matches every implementation access against the model's next access of that
    thread (word accesses, enqueue, epoch check, semaphore consume / V, flush) and skips the monitor's bookkeeping."""
    lines = ["reset", "spin %d" % spin] + ["prog " + " ".join(run["eff"].get(t, [])) for t in range(nthreads)]
    lines += ["e %d %s %s %s %s %s" % (t, k, var, a, b, ok) for (t, k, var, order, a, b, ok) in run["ev"]] + ["state"]
    out = drv(model, "\n".join(lines) + "\n")[2 + nthreads:]
    last, nskip = {}, 0
    for i, (t, k, var, order, a, b, ok) in enumerate(run["ev"]):
        o = out[i]
        if o.startswith("ok"):
            last[t] = o.split("|")[1].split()
        elif o == "skip":
            nskip += 1
            if var == "word":
                return "event %d of thread %d: access to the lock word skipped (%s %s %s)" % (i, t, k, a, b)
        else:
            return "event %d of thread %d: implementation %s %s %s %s ok=%s, model: %s" % (i, t, k, var, a, b, ok, o)
    d = finished_ok(run, last, nthreads)
    if d:
        return d
    st = [x.split() for x in out[len(run["ev"])].split("|")]
    if st[0][0] != "0" or st[1] != [] or st[3] != []:
        return "model ends with word/waitset/posted = %s %s %s" % (st[0], st[1], st[3])
    return None


def validate_qrw(run):
    out = drv("c08qrw", "reset\n" + "".join("ev %s\n" % v for v in run["v"]) + "state\n")
    for v, o in zip(run["v"], out[1:]):
        if not o.startswith("ok"):
            return "event '%s' is not an enabled transition of QRwSpec (%s) after %s" % (v, o, run["v"][:run["v"].index(v)][-6:])
    if out[-1].replace("|", "").strip():
        return "QRwSpec ends with holders/queue/upgraders: %s" % out[-1]
    return None


ORD_GE = {"rlx": {"rlx", "cns", "acq", "rel", "acqrel", "sc"}, "acq": {"acq", "acqrel", "sc"}, "rel": {"rel", "acqrel", "sc"},
          "acqrel": {"acqrel", "sc"}, "sc": {"sc"}}


def replay_qrwn(run, nthreads, cover=None):
    """queuing_rw_mutex NODE PROTOCOL: every access to q_tail / my_prev / my_next / my_state / my_going / my_internal_lock is fed to
    the Lean model `QRwN` (Model/C08N.lean), which commits its next step of that thread only if it is the same access (kind, variable
    incl. the owning node, value read / written / expected / desired with the tag bit, CAS outcome); memory order at least the
    model's; an unmatched plain load of the implementation is tolerated (counted); results, final state, the per-thread sequence of
    specification events (enq at the q_tail exchange, grant / tryOk / tryFail / upgEnd at the returning access, rel / upgBegin /
    downgrade at the first access) and the model's own holder count (exclusion on the model side) are compared as well.
    Returns (difference or None, model specification events in model order)."""
    lines = ["reset"] + ["prog " + " ".join(run["eff"].get(t, [])) for t in range(nthreads)]
    lines += ["e %d %s %s %s %s %s" % (t, k, var, a, b, ok) for (t, k, var, order, a, b, ok) in run["ev"]] + ["state"]
    out = drv("c08qrwn", "\n".join(lines) + "\n")[1 + nthreads:]
    last, specs, mspec = {}, {}, []
    check_inv = not any("upgrade" in ops_ for ops_ in run["eff"].values())      # the invariant is the one of programs without upgrade_to_writer
    for i, (t, k, var, order, a, b, ok) in enumerate(run["ev"]):
        o = out[i]
        if o.startswith("ok "):
            parts = o.split(" | ")
            hd = parts[0].split()
            if order not in ORD_GE.get(hd[1], ()):
                return "event %d of thread %d: %s %s executed with memory order %s, weaker than the model's %s (pc %s)" % (i, t, k, var, order, hd[1], hd[2]), mspec
            if cover is not None:
                cover[hd[2]] = cover.get(hd[2], 0) + 1
            last[t] = parts[1].split()
            if parts[2].strip():
                evs = [x.strip() for x in parts[2].split(";")]
                specs.setdefault(t, []).extend(evs)
                mspec.extend(evs)
            nw, nr = map(int, parts[3].split())
            if nw > 1 or (nw and nr):
                return "event %d of thread %d: the MODEL has %d writers and %d readers holding" % (i, t, nw, nr), mspec
            if check_inv and len(parts) > 4 and parts[4].split()[1:] not in ([], ["-"]):
                return ("event %d of thread %d: clause(s) %s of the invariant proved for the model (Model/C08NInv.lean) do not hold in the model state "
                        "reached by replaying the implementation's trace" % (i, t, parts[4].split()[1:])), mspec
        elif o.startswith("MISMATCH") and k == "load":
            if cover is not None:
                cover["(unmatched implementation load)"] = cover.get("(unmatched implementation load)", 0) + 1
        else:
            return "event %d of thread %d: implementation %s %s %s %s ok=%s, model: %s" % (i, t, k, var, a, b, ok, o), mspec
    d = finished_ok(run, last, nthreads)
    if d:
        return d, mspec
    st = out[len(run["ev"])].split("|")
    if st[0].split() != ["0", "0", "0"] or st[1].split():
        return "model ends with q_tail bad misuse | q = %s" % out[len(run["ev"])], mspec
    impl = {}
    for v in run["v"]:
        impl.setdefault(int(v.split()[1]), []).append(v)
    for t in range(nthreads):
        if impl.get(t, []) != specs.get(t, []):
            return "thread %d specification events: implementation %s, model %s" % (t, impl.get(t), specs.get(t)), mspec
    return None, mspec


def replay_rtm(run, nthreads):
    """speculative_spin_rw_mutex (rtm_rw_mutex.cpp), REAL paths (speculation forced off): every access to the underlying spin_rw_mutex
    word and to write_flag is fed to the Lean model `Rtm` (Model/C08R.lean), which commits its next step of that thread only if it is the
    same access (kind, variable, values, CAS outcome).  The model's own holder counts and write_flag are checked after every step (no two
    real writers, no real writer with a real reader, a holding real writer implies write_flag)."""
    lines = ["reset"] + ["prog " + " ".join(run["eff"].get(t, [])) for t in range(nthreads)]
    lines += ["e %d %s %s %s %s %s" % (t, k, var, a, "0" if k == "load" else b, ok) for (t, k, var, order, a, b, ok) in run["ev"]] + ["state"]
    out = drv("c08rtm", "\n".join(lines) + "\n")[1 + nthreads:]
    last = {}
    for i, (t, k, var, order, a, b, ok) in enumerate(run["ev"]):
        o = out[i]
        if o.startswith("ok "):
            parts = o.split(" | ")
            last[t] = parts[1].split()
            nw, nr, ntr, ntw, fl = map(int, parts[2].split())
            if nw > 1 or (nw and nr) or (nw and not fl):
                return "event %d of thread %d: the MODEL has %d real writers, %d real readers, write_flag = %d" % (i, t, nw, nr, fl)
        elif o.startswith("MISMATCH") and k == "load":
            pass
        else:
            return "event %d of thread %d: implementation %s %s %s %s ok=%s, model: %s" % (i, t, k, var, a, b, ok, o)
    d = finished_ok(run, last, nthreads)
    if d:
        return d
    if out[len(run["ev"])].split() != ["0", "0", "0", "0"]:
        return "model ends with m_state bad write_flag misuse = %s" % out[len(run["ev"])]
    return None


# --------------------------------------------------------------------------------------------------
# scenarios
# --------------------------------------------------------------------------------------------------

def scenarios(rng, ops, n, maxlen):
    scs = []
    for _ in range(n):
        T = rng.choice([2, 2, 3, 3, 4])
        scs.append([[rng.choice(ops) for _ in range(rng.randrange(2, maxlen + 1))] for _ in range(T)])
    return scs


RW_CORPUS = [
    [["lock_shared", "upgrade", "unlock"], ["lock_shared", "upgrade", "unlock"]],
    [["lock_shared", "upgrade", "unlock"], ["lock_shared", "upgrade", "unlock"], ["lock", "unlock", "try_lock_shared"]],
    [["lock", "downgrade", "unlock_shared"], ["lock", "unlock"], ["lock_shared", "unlock_shared"]],
    [["lock_shared", "upgrade", "downgrade", "upgrade", "unlock"], ["try_lock", "unlock", "lock_shared", "unlock_shared"]],
    [["lock_shared", "unlock_shared"], ["lock", "unlock"], ["try_lock_shared", "upgrade", "unlock"], ["lock_shared", "upgrade", "unlock"]],
    [["try_lock", "unlock"], ["try_lock", "unlock"], ["lock_shared", "unlock_shared", "lock", "unlock"]],
]
MX_CORPUS = [
    [["lock", "unlock", "lock", "unlock"], ["lock", "unlock", "lock", "unlock"]],
    [["try_lock", "unlock", "lock", "unlock"], ["lock", "unlock"], ["try_lock", "unlock", "try_lock", "unlock"]],
]
QM_CORPUS = [
    [["acquire", "release", "acquire", "release"], ["acquire", "release", "acquire", "release"]],
    [["acquire", "release"], ["acquire", "release"], ["acquire", "release"]],
    [["try_acquire", "release", "acquire", "release"], ["acquire", "release"], ["try_acquire", "release", "try_acquire", "release"]],
    [["acquire", "release"], ["acquire", "release"], ["acquire", "release"], ["try_acquire", "acquire", "release"]],
]
QRW_CORPUS = [
    [["acquire_r", "upgrade", "release"], ["acquire_r", "upgrade", "release"]],
    [["acquire_r", "upgrade", "release"], ["acquire_r", "upgrade", "release"], ["acquire_w", "release"]],
    [["acquire_r", "release"], ["acquire_w", "release"], ["acquire_r", "release"]],
    [["acquire_w", "downgrade", "release"], ["acquire_w", "release"], ["acquire_r", "release"]],
    [["acquire_r", "upgrade", "downgrade", "upgrade", "release"], ["try_w", "release", "acquire_r", "release"], ["acquire_r", "upgrade", "release"]],
    [["acquire_r", "release"], ["acquire_w", "release"], ["try_r", "upgrade", "release"], ["acquire_r", "upgrade", "release"]],
]
# queuing_rw_mutex node protocol: a reader unlinking from the middle of the queue while its predecessor and its successor release /
# upgrade; upgrades racing with other readers' release and upgrade; downgrade with readers / an upgrader queued behind
R_ = ["acquire_r", "release"]
QRWN_CORPUS = QRW_CORPUS + [
    [R_, R_, R_],
    [R_, R_, R_, R_],
    [R_ + R_, R_, R_, ["acquire_w", "release"]],
    [["acquire_r", "upgrade", "release"], R_, R_],
    [["acquire_r", "upgrade", "release"], ["acquire_r", "upgrade", "release"], ["acquire_r", "upgrade", "release"]],
    [["acquire_r", "upgrade", "release"], R_, ["acquire_r", "upgrade", "release"], R_],
    [["acquire_w", "downgrade", "release"], R_, R_],
    [["acquire_w", "downgrade", "upgrade", "release"], ["acquire_r", "upgrade", "release"], R_],
    [["acquire_w", "downgrade", "release"], ["acquire_r", "upgrade", "downgrade", "release"], ["try_r", "release", "acquire_r", "release"]],
]
# speculative_spin_rw_mutex, real paths: several real writers queueing on the underlying lock while one releases / downgrades (the
# window in which write_flag must stay raised for the next writer), upgrades, try-acquires
W_ = ["acquire_w", "release"]
RTM_CORPUS = QRW_CORPUS + [
    [W_ + W_, W_ + W_],
    [W_, W_, W_],
    [["acquire_w", "downgrade", "release"], W_, W_],
    [["acquire_r", "upgrade", "release"], W_, ["try_w", "release", "acquire_w", "release"]],
]
SPIN_OF = {"acquire_w": "lock", "acquire_r": "lock", "try_w": "try_lock", "try_r": "try_lock", "release": "unlock"}
# sleeping locks: `work` (12 writes to an unrelated atomic) keeps spinning waiters iterating until they go to sleep
SMX_CORPUS = [
    [["lock"] + W8 + ["unlock"]] * 3,
    [["lock"] + W8 + ["unlock", "lock"] + W8 + ["unlock"]] * 3,
    [["lock"] + W8 + ["unlock"]] * 4,
    [["lock"] + W8 + ["unlock"], ["try_lock"] + W8 + ["unlock", "lock", "unlock"], ["lock", "unlock"] + W8 + ["lock", "unlock"]],
]
SRW_CORPUS = [
    [["lock"] + W8 + ["unlock"]] * 3,
    [["lock_shared"] + W8 + ["unlock_shared"], ["lock"] + W8 + ["unlock"], ["lock_shared"] + W8 + ["unlock_shared"]],
    [["lock_shared"] + W8 + ["upgrade"] + W8 + ["unlock"], ["lock_shared"] + W8 + ["upgrade"] + W8 + ["unlock"], ["lock"] + W8 + ["unlock"]],
    [["lock"] + W8 + ["downgrade"] + W8 + ["unlock_shared"], ["lock_shared"] + W8 + ["unlock_shared"], ["lock"] + W8 + ["unlock"]],
    # a writer downgrades while readers sleep behind it and no writer is pending: the downgrade itself must wake them (nothing else will)
    [["lock"] + W8 + W8 + ["downgrade"] + W8 + W8 + ["unlock_shared"], ["lock_shared"] + W8 + ["unlock_shared"], ["lock_shared"] + W8 + ["unlock_shared"]],
    [["lock"] + W8 + W8 + ["downgrade"] + W8 + ["unlock_shared"], ["work", "lock_shared", "unlock_shared", "lock_shared", "unlock_shared"]],
    # ... and the downgraded holder keeps its shared lock until a reader got in (`await_reader` is a harness-level wait, not a mutex operation)
    [["lock"] + W8 + W8 + ["downgrade", "await_reader", "unlock_shared"], ["lock_shared"] + W8 + ["unlock_shared"]],
    [["lock"] + W8 + W8 + W8 + ["downgrade", "await_reader"] + W8 + ["unlock_shared"], ["lock_shared", "unlock_shared"], ["work", "work", "lock_shared"] + W8 + ["unlock_shared"]],
    [["lock_shared"] + W8 + ["unlock_shared"] + W8 + ["lock", "unlock"], ["lock"] + W8 + ["unlock"] + W8 + ["lock_shared", "unlock_shared"],
     ["try_lock_shared"] + W8 + ["upgrade"] + W8 + ["downgrade", "unlock_shared"], ["lock"] + W8 + ["unlock"]],
]


# --------------------------------------------------------------------------------------------------
# builds
# --------------------------------------------------------------------------------------------------

def build_hdr(name, src, defs=()):
    return cxx_build("C08", name, [src, common.SHIM_SRC, STUBS], flags=["-O1", "-g", "-fno-access-control"] + list(defs) + common.SHIM_FLAGS)


def build_rt(name, src, defs=(), drop=()):
    objs = [o for o in common.shim_runtime_objects() if not any(os.path.basename(o).startswith(d + ".") for d in drop)]
    return cxx_build("C08", name, [src, common.SHIM_SRC],
                     flags=["-O1", "-g", "-fno-access-control", "-I" + REPO + "/src"] + list(defs) + common.SHIM_FLAGS, libs=objs + ["-ldl"])


FAMILIES = {
    # name: (exe name, builder, ops, corpus, max len of random programs, kind)
    "spin_rw_mutex": ("rw", lambda: build_hdr("rw", "harness/c08/rw.cpp"), RW_OPS, RW_CORPUS, 6, "word:c08rw"),
    "spin_mutex": ("mx", lambda: build_hdr("mx", "harness/c08/mx.cpp"), MX_OPS, MX_CORPUS, 6, "word:c08spin"),
    "queuing_mutex": ("qm", lambda: build_hdr("qm", "harness/c08/qm.cpp"), QM_OPS, QM_CORPUS, 6, "mcs"),
    "mutex": ("slpmx", lambda: build_rt("slpmx", "harness/c08/slp.cpp", ["-D__TBB_BUILD"], ["address_waiter.cpp"]), MX_OPS + ["work"], SMX_CORPUS, 7, "slp:c08mx"),
    "rw_mutex": ("slprw", lambda: build_rt("slprw", "harness/c08/slp.cpp", ["-D__TBB_BUILD", "-DRWM"], ["address_waiter.cpp"]), RW_OPS + ["work", "work"], SRW_CORPUS, 8, "slp:c08rwm"),
    "queuing_rw_mutex": ("qrw", lambda: build_rt("qrw", "harness/c08/qrw.cpp"), QRW_OPS, QRWN_CORPUS, 6, "qrw"),
    "speculative_spin_rw_mutex": ("specrw", lambda: build_rt("specrw", "harness/c08/qrw.cpp", ["-DSPEC_RW", "-mrtm"]), QRW_OPS, RTM_CORPUS, 6, "rtm"),
    "speculative_spin_mutex": ("specmx", lambda: build_rt("specmx", "harness/c08/qrw.cpp", ["-DSPEC_MX", "-mrtm"]), QRW_OPS, QRW_CORPUS, 6, "rtmmx"),
}


def prog_text(sc):
    return "".join("prog " + " ".join(p) + "\n" for p in sc)


# --------------------------------------------------------------------------------------------------
# E-GEN: constants, spin budget, memory-order table
# --------------------------------------------------------------------------------------------------

def role_of(lock, k, var, a, b, ok):
    """1 = the access by which a thread obtains the lock, 2 = the access by which it hands the lock on, 0 = other."""
    a, b, ok = int(a), int(b), int(ok)
    if lock in ("spin_mutex", "mutex", "speculative_spin_mutex"):
        if var != "word":
            return 0
        if k == "xchg" and a == 0 and b == 1:
            return 1
        if (k == "store" and a == 0) or (k == "xchg" and b == 0):
            return 2
    elif lock in ("spin_rw_mutex", "rw_mutex", "speculative_spin_rw_mutex"):
        if var != "word":
            return 0
        if k == "cas" and ok:
            return 1                                  # lock / try_lock / upgrade CAS
        if k == "fadd" and not (a & 1):
            return 1                                  # lock_shared's fetch_add
        if k in ("fand", "fsub") or (k == "fadd" and (a & 1)):
            return 2                                  # unlock, unlock_shared / upgrade's final subtraction, downgrade
    elif lock == "queuing_mutex":
        cls = re.sub(r"\d+$", "", var)
        if cls == "going":
            if k == "store" and a == 1:
                return 2
            if k == "load" and a == 1:
                return 1
        if cls == "tail":
            if k == "xchg":
                return 1 if a == 0 else 0
            if k == "cas" and ok:
                return 1 if a == 0 else (2 if b == 0 else 0)
    return 0


def collect_orders(lock, runs, table):
    for r in runs:
        for (t, k, var, order, a, b, ok) in r["ev"]:
            role = role_of(lock, k, var, a, b, ok)
            if role:
                table.add((lock, re.sub(r"\d+$", "", var), k, ORDER_NUM.get(order, 0), role))
        for (var, k, order, a, b, ok, given) in r["o"]:
            role = role_of(lock, k, var, a, b, ok) if given == "-" else int(given)
            if role:
                table.add((lock, var, k, ORDER_NUM.get(order, 0), role))


def measure_spin(runs):
    """number of evaluations of the wake-up condition in timed_spin_wait_until before a thread goes to sleep: the
    loads of the word between a failed exchange / fetch_or of a thread and its enqueue"""
    best = None
    for r in runs:
        cnt = {}
        for (t, k, var, order, a, b, ok) in r["ev"]:
            if var == "word":
                cnt[t] = cnt[t] + 1 if (k == "load" and t in cnt) else (0 if k in ("xchg", "for") else None)
                if cnt[t] is None:
                    del cnt[t]
            elif var == "cnt" and k == "store" and int(a) == int(b) + 1 and t in cnt:
                best = cnt[t] if best is None else min(best, cnt[t])
                del cnt[t]
            elif var.startswith("sem") or var == "epoch":
                cnt.pop(t, None)
    return best


def _strip_comments(src):
    src = re.sub(r"/\*.*?\*/", " ", src, flags=re.S)
    src = re.sub(r"//[^\n]*", " ", src)
    # assertions are compiled out of the release build and do not belong to the protocol
    out, i = "", 0
    while True:
        j = src.find("__TBB_ASSERT", i)
        if j < 0:
            return out + src[i:]
        out += src[i:j]
        k = src.find("(", j)
        depth = 0
        while k < len(src):
            if src[k] == "(":
                depth += 1
            elif src[k] == ")":
                depth -= 1
                if depth == 0:
                    break
            k += 1
        i = src.find(";", k) + 1


def _body(src, sig):
    """text between the braces of the first function whose header matches the regex `sig`"""
    m = re.search(sig, src)
    if not m:
        return ""
    i = src.find("{", m.end())
    depth, k = 0, i
    while k < len(src):
        if src[k] == "{":
            depth += 1
        elif src[k] == "}":
            depth -= 1
            if depth == 0:
                return src[i + 1:k]
        k += 1
    return ""


def _case(body, label):
    """statements of `case ...label: ... break;` inside a switch body (up to the first break / return after the label)"""
    m = re.search(r"case\s+[\w:]*" + label + r"\s*:", body)
    if not m:
        return ""
    rest = body[m.end():]
    e = re.search(r"\bbreak\s*;|\bcase\s+[\w:]+\s*:\s*(?!\s*case)|\bdefault\s*:", rest)
    # a label that only stacks onto the next one (case A: case B: ...) shares the following statements
    stacked = re.match(r"\s*case\s+[\w:]+\s*:", rest)
    if stacked:
        return _case(body[m.end():], re.match(r"\s*case\s+[\w:]*?(\w+)\s*:", rest).group(1))
    return rest[:e.start()] if e else rest


def _before(txt, a, b):
    """both patterns occur and the first occurrence of `a` precedes the first occurrence of `b`"""
    ma, mb = re.search(a, txt), re.search(b, txt)
    return bool(ma and mb and ma.start() < mb.start())


def rtm_source_facts():
    """facts about the text of rtm_rw_mutex.cpp / rtm_mutex.cpp that the model of the SPECULATIVE paths (Model/C08R.lean) rests on —
    these paths cannot run under the shim — and the statement order of the real paths (also checked by the trace replay)"""
    facts = []
    try:
        rw = _strip_comments(open(os.path.join(REPO, "src/tbb/rtm_rw_mutex.cpp")).read())
        mx = _strip_comments(open(os.path.join(REPO, "src/tbb/rtm_mutex.cpp")).read())
    except OSError as e:
        return [("sources readable (%s)" % e, False)]
    def CALL(name):                                      # `m.name()` or `s.m_mutex->name()`: the receiver spelling is irrelevant
        return r"(?:->|\.)\s*%s\s*\(\s*\)" % name
    FL_T, FL_F = r"write_flag\s*(?:\.\s*store\s*\(|=)\s*true", r"write_flag\s*(?:\.\s*store\s*\(|=)\s*false"
    FL_ST = r"write_flag\s*\.\s*store|write_flag\s*=[^=]|write_flag\s*\.\s*exchange"
    aw = _body(rw, r"static\s+void\s+acquire_writer\s*\(")
    ar = _body(rw, r"static\s+void\s+acquire_reader\s*\(")
    rel = _body(rw, r"static\s+void\s+release\s*\(")
    upg = _body(rw, r"static\s+bool\s+upgrade\s*\(")
    dg = _body(rw, r"static\s+bool\s+downgrade\s*\(")
    tw = _body(rw, r"static\s+bool\s+try_acquire_writer\s*\(")
    aw_real = aw[aw.rfind("only_speculate"):]            # after the last `if(only_speculate) return;`
    def txblock(body):                                   # the block entered when begin_transaction() succeeded, up to its return
        m = re.search(r"begin_transaction\s*\(\s*\)\s*\)\s*==", body)
        if not m:
            return ""
        rest = body[m.end():]
        e = re.search(r"\breturn\s*;", rest)
        return rest[:e.end()] if e else rest
    facts.append(("rtm_rw acquire_writer, real path: m.lock() precedes write_flag.store(true)", _before(aw_real, CALL("lock"), FL_T)))
    facts.append(("rtm_rw acquire_writer, real path: the lock becomes rtm_real_writer (scoped_lock-local state) after m.lock()", _before(aw_real, CALL("lock"), r"rtm_real_writer")))
    facts.append(("rtm_rw acquire_writer, speculative path: m_state is read inside the transaction and a non-zero value aborts it",
                  _before(txblock(aw), r"m_state\s*\.\s*load\s*\(", r"abort_transaction\s*\(") and _before(txblock(aw), r"abort_transaction\s*\(", r"rtm_transacting_writer")))
    facts.append(("rtm_rw acquire_reader, speculative path: write_flag is read inside the transaction and `true` aborts it",
                  _before(txblock(ar), r"write_flag\s*\.\s*load\s*\(", r"abort_transaction\s*\(") and _before(txblock(ar), r"abort_transaction\s*\(", r"rtm_transacting_reader")))
    facts.append(("rtm_rw acquire_reader, real path: lock_shared() and no store to write_flag",
                  bool(re.search(CALL("lock_shared"), ar)) and not re.search(FL_ST, ar)))
    tx_rel = _case(rel, "rtm_transacting_writer") or _case(rel, "rtm_transacting_reader")
    facts.append(("rtm_rw release of a transacting holder: end_transaction() and no store / unlock",
                  bool(re.search(r"end_transaction\s*\(", tx_rel)) and not re.search(r"\.\s*store\s*\(|unlock", tx_rel)))
    facts.append(("rtm_rw release of a real writer: write_flag.store(false) precedes m.unlock()",
                  _before(_case(rel, "rtm_real_writer"), FL_F, CALL("unlock"))))
    facts.append(("rtm_rw release of a real reader: unlock_shared() and no store to write_flag",
                  bool(re.search(CALL("unlock_shared"), _case(rel, "rtm_real_reader"))) and not re.search(FL_ST, _case(rel, "rtm_real_reader"))))
    facts.append(("rtm_rw upgrade of a real reader: m.upgrade() precedes write_flag.store(true)",
                  _before(_case(upg, "rtm_real_reader"), CALL("upgrade"), FL_T)))
    facts.append(("rtm_rw upgrade of a transacting reader: m_state is read (joins the read set) before it becomes a transacting writer",
                  _before(_case(upg, "rtm_transacting_reader"), r"m_state\s*\.\s*load\s*\(", r"rtm_transacting_writer")))
    facts.append(("rtm_rw downgrade of a real writer: write_flag.store(false) precedes m.downgrade()",
                  _before(_case(dg, "rtm_real_writer"), FL_F, CALL("downgrade"))))
    facts.append(("rtm_rw downgrade of a transacting writer: no store", not re.search(r"\.\s*store\s*\(", _case(dg, "rtm_transacting_writer"))))
    facts.append(("rtm_rw try_acquire_writer: write_flag.store(true) only after m.try_lock() succeeded", _before(tw, r"if\s*\(\s*(?:m\s*\.|[\w\.]+\s*->)\s*try_lock\s*\(\s*\)\s*\)", FL_T)))
    facts.append(("rtm_rw: write_flag is stored at exactly five places (acquire_writer, try_acquire_writer, upgrade: true; release, downgrade: false)",
                  len(re.findall(FL_T, rw)) == 3 and len(re.findall(FL_F, rw)) == 2 and len(re.findall(FL_ST, rw)) == 5))
    ma = _body(mx, r"static\s+void\s+acquire\s*\(")
    mrel = _body(mx, r"static\s+void\s+release\s*\(")
    facts.append(("rtm_mutex acquire, speculative path: m_flag is read inside the transaction and `true` aborts it",
                  _before(txblock(ma), r"m_flag\s*\.\s*load\s*\(", r"abort_transaction\s*\(") and _before(txblock(ma), r"abort_transaction\s*\(", r"rtm_transacting")))
    facts.append(("rtm_mutex release of a transacting holder: end_transaction() and no store / unlock",
                  bool(re.search(r"end_transaction\s*\(", _case(mrel, "rtm_transacting"))) and not re.search(r"\.\s*store\s*\(|unlock", _case(mrel, "rtm_transacting"))))
    facts.append(("rtm_mutex real path: acquire ends in m.lock(), release of a real holder is m.unlock()",
                  bool(re.search(CALL("lock"), ma[ma.rfind("only_speculate"):])) and bool(re.search(CALL("unlock"), _case(mrel, "rtm_real")))))
    return facts


def gen(ck, exes):
    exe = cxx_build("C08", "consts", ["harness/c08/consts.cpp"], flags=["-O0", "-fno-access-control"])
    rc, out, err = sh([exe], timeout=60)
    c = json.loads(out)
    table, spin = set(), None
    env = dict(os.environ, C08_ORDERS="1")
    for lock, (ename, _, ops, corpus, maxlen, kind) in FAMILIES.items():
        for si, sc in enumerate(corpus):
            rc, out, err = sh([exes[lock], "rand", str(100 + si), "6" if kind.startswith("slp") else "3"], input=prog_text(sc), timeout=300, env=env)
            runs = parse_runs(out)
            collect_orders(lock, runs, table)
            if lock == "rw_mutex":
                s = measure_spin(runs)
                spin = s if spin is None else (spin if s is None else min(spin, s))
    if spin is None:
        spin = 38
        ck.assumptions.append("spin budget of timed_spin_wait_until could not be measured (no thread slept in the calibration runs): 38 assumed")
    c["spinChecks"] = spin
    ck.extra["generated_constants"] = c
    ck.extra["orders_table"] = sorted(table)
    body = "".join("def %s : Nat := %d\n" % (k, v) for k, v in sorted(c.items()))
    body += "/-- (lock kind, variable, access kind, std::memory_order executed, role: 1 acquiring / 2 releasing), from the E-SHIM traces -/\n"
    body += "def orders : List (String × String × String × Nat × Nat) := [\n" + ",\n".join(
        '  ("%s", "%s", "%s", %d, %d)' % e for e in sorted(table)) + "]\n"
    facts = rtm_source_facts()
    ck.extra["rtm_source_facts"] = facts
    body += ("/-- facts about the source text of rtm_rw_mutex.cpp / rtm_mutex.cpp (statement order of the real paths, what the speculative paths read inside\n"
             "the transaction, that a speculative release commits without storing), re-extracted on every run -/\n")
    body += "def rtmSrc : List (String × Bool) := [\n" + ",\n".join('  ("%s", %s)' % (n.replace('"', "'"), "true" if v else "false") for n, v in facts) + "]\n"
    gen_write("C08", body)
    badf = [n for n, v in facts if not v]
    ck.oblige("gen:rtm source text: order of m.lock() / write_flag stores on the real paths, reads inside the transaction on the speculative paths, "
              "commit without store (Lean: rtm_source_obligations over Generated.C08.rtmSrc)", "generated", not badf,
              "" if not badf else "no longer as modelled: %s" % badf)
    weak = [e for e in sorted(table) if (e[4] == 2 and e[3] not in (3, 4, 5)) or (e[4] == 1 and e[3] not in (2, 4, 5))]
    ck.oblige("gen:orders every releasing access is release-or-stronger and every acquiring access acquire-or-stronger "
              "(Lean: rw_orders_publish over Generated.C08.orders)", "generated", not weak,
              "" if not weak else "too weak (lock, variable, access, std::memory_order, role 1=acquire 2=release): %s — on the sequentially consistent "
              "shim (and on x86-TSO hardware, where such a store is still a plain mov) no failing execution can be exhibited; the C++11 "
              "guarantee 'writes of a critical section are visible to the next holder' is lost" % weak)
    locks = {e[0] for e in table}
    ck.oblige("gen:orders-table covers every lock kind with an acquiring and a releasing access", "generated",
              all(any(e[0] == l and e[4] == 1 for e in table) and any(e[0] == l and e[4] == 2 for e in table) for l in FAMILIES),
              "lock kinds in the table: %s" % sorted(locks))
    return spin


# --------------------------------------------------------------------------------------------------
# one lock family
# --------------------------------------------------------------------------------------------------

def run_family(ck, name, exe, spin):
    ename, _, ops, corpus, maxlen, kind = FAMILIES[name]
    quick = ck.tier == "quick"
    heavy = kind.startswith("slp")
    nsc = (10 if heavy else 25) if quick else (45 if heavy else 140)
    if kind in ("qrw", "rtm", "rtmmx"):
        nsc = 12 if quick else 70         # these families have the larger hand-written corpora and the costlier replays
    scs = corpus + scenarios(ck.rng, ops, nsc, maxlen)
    nrand = (12 if heavy else 30) if quick else (50 if heavy else 110)
    if kind in ("qrw", "rtm", "rtmmx"):
        nrand = 20 if quick else 80
    bad_corr, bad_mon, bad_node, cover = [], [], [], {}
    nruns = slept = 0
    # the speculative variants: the REAL paths are replayed with speculation switched off in the harness (C08_NOSPEC); the contention
    # scenarios additionally run once with whatever the hardware does (monitors only, as before)
    env = dict(os.environ, C08_NOSPEC="1") if kind in ("rtm", "rtmmx") else None
    if env:
        for si, sc in enumerate(corpus[:4]):
            rc, out, err = sh([exe, "rand", str(ck.seed * 1000 + 500 + si), "6"], input=prog_text(sc), timeout=600)
            for r in parse_runs(out):
                if r["mon"] != "ok":
                    bad_mon.append((sc, dict(r, env="")))
    for si, sc in enumerate(scs):
        nr = nrand * 2 if (heavy and si < len(corpus)) else nrand
        rc, out, err = sh([exe, "rand", str(ck.seed * 1000 + si), str(nr)], input=prog_text(sc), timeout=600, env=env)
        runs = parse_runs(out)
        for r in runs:
            nruns += 1
            kinds = tuple(sorted(set((e[1], re.sub(r"\d+$", "", e[2])) for e in r["ev"]))) or tuple(sorted(set(v.split()[0] for v in r["v"])))
            ck.count(1, (name, len(sc), kinds, tuple(tuple(v) for v in r["res"].values())))
            if r["mon"] != "ok":
                bad_mon.append((sc, r))
            d = None
            if kind.startswith("word:"):
                d = replay_word(kind[5:], r, len(sc))
            elif kind == "mcs":
                d = replay_mcs(r, len(sc))
            elif kind.startswith("slp:"):
                d = replay_slp(kind[4:], r, len(sc), spin)
                slept += any(e[2] == "cnt" and e[1] == "store" for e in r["ev"])
            elif kind in ("rtm", "rtmmx") and (r["mon"] != "ok" or len(r["ev"]) > 60000):
                d = None
            elif kind == "rtm":
                d = replay_rtm(r, len(sc))
            elif kind == "rtmmx":
                d = replay_word("c08spin", dict(r, eff={t: [SPIN_OF[o] for o in ops_] for t, ops_ in r["eff"].items()}), len(sc))
            elif kind == "qrw" and (r["mon"] != "ok" or len(r["ev"]) > 60000):
                # a run that deadlocked / spun to the step limit: the monitor verdict is the finding; its (huge) trace is not replayed
                d = None
            elif kind == "qrw":
                d = validate_qrw(r)
                dn, mspec = replay_qrwn(r, len(sc), cover)
                if not dn and mspec:
                    # executable side of the refinement claim: the specification events of the MODEL's steps, in model order, are a run of QRwSpec
                    dn = validate_qrw({"v": mspec})
                    dn = dn and "model specification events: " + dn
                if dn:
                    bad_node.append((sc, r, dn))
            if kind != "mon":
                ck.traces_validated += 1
                if d:
                    bad_corr.append((sc, r, d))
        if rc not in (0, 1, 3):
            # the lock code crashed (e.g. a null successor dereference): the failing schedule is the run after the last printed one
            bad_mon.append((sc, {"mon": "CRASH the lock code crashed (rc=%d) %s" % (rc, err[-200:].strip()), "sched": [],
                                 "rerun": ["rand", str(ck.seed * 1000 + si), str(len(runs) + 1)]}))
        if si < 1 and runs:
            ck.sample({"lock": name, "scenario": [" ".join(p) for p in sc], "effective": runs[0]["eff"],
                       "trace_head": (runs[0]["ev"] or runs[0]["v"])[:10], "results": runs[0]["res"]}, cap=10)
    # bounded-preemption exhaustive exploration of the contention scenarios with the property monitors
    dfs_runs = dfs_starved = 0
    if not heavy:
        for sc in corpus[: (3 if quick else len(corpus))]:
            cap = ("5000" if kind in ("qrw", "mon", "rtm", "rtmmx") else "20000") if quick else ("50000" if kind in ("qrw", "mon", "rtm", "rtmmx") else "200000")
            rc, out, err = sh([exe, "dfs", "2" if quick else "3", cap], input=prog_text(sc), timeout=1500, env=env)
            m = re.search(r"summary runs=(\d+) bad=(\d+)", out)
            if m:
                dfs_runs += int(m.group(1))
            if rc == 4 and m and m.group(2) == "0" and "starved=1" in out:
                # the enumeration stopped at an unfair schedule (a thread spinning with writes was never preempted): not a failure
                dfs_starved += 1
                continue
            if rc != 0 or not m or m.group(2) != "0":
                rs = parse_runs(out)
                bad_mon.append((sc, rs[-1] if rs else {"mon": "CRASH the lock code crashed or hung during the bounded-preemption enumeration (rc=%d) %s" % (rc, (out + err)[-200:].strip()),
                                                      "sched": [], "rerun": ["dfs", "2" if quick else "3", cap]}))
    ck.evaluations += dfs_runs
    info = {"random_runs": nruns, "dfs_runs": dfs_runs}
    if dfs_starved:
        info["dfs_enumerations_stopped_at_an_unfair_schedule"] = dfs_starved
    if heavy:
        info["runs_in_which_a_thread_slept"] = slept
    ck.extra.setdefault("schedules", {})[name] = info
    what = {"word": "atomic-access trace replays on the Lean model (accesses, values, results)",
            "mcs": "q_tail / m_next / m_going access trace replays on `Mcs` (accesses, values, CAS outcomes, results, FIFO logs)",
            "slp": "lock-word accesses and sleep/wake hand-shake (enqueue, predicate, epoch check, P/V, flush) replay on the Lean model",
            "rtm": "REAL paths (speculation off): every access to the spin_rw_mutex word and to write_flag replays on the Lean model `Rtm` (accesses, values, results)",
            "rtmmx": "REAL path (speculation off): every access to m_flag replays on the Lean model `Spin`",
            "qrw": "holder-bookkeeping event log is accepted by the proven specification machine QRwSpec"}.get(kind.split(":")[0])
    if what:
        ck.oblige("corr:%s %s" % (name, what), "correspondence", not bad_corr,
                  "" if not bad_corr else "%s | scenario %s | sched %s" % (bad_corr[0][2], bad_corr[0][0], " ".join(bad_corr[0][1]["sched"])))
    if kind == "qrw":
        ck.oblige("corr:%s every access to q_tail / my_prev / my_next / my_state / my_going / my_internal_lock replays on the node-protocol model "
                  "`QRwN` (accesses, owning node, values with the tag bit, CAS outcomes, memory orders, results, specification events)" % name,
                  "correspondence", not bad_node,
                  "" if not bad_node else "%s | scenario %s | sched %s" % (bad_node[0][2], bad_node[0][0], " ".join(bad_node[0][1]["sched"])))
        need = ["rrXchgNP", "rrCasP", "rrRelP", "rrCasT", "rhXchgP", "rwXchgP", "rwLoser", "uFaddN", "uXchgP", "uLoopS", "uTryP", "uCasPS", "uSetG",
                "dCas", "dGo", "arCasU", "arGo", "rUnb"]
        miss = [p for p in need if p not in cover]
        ck.oblige("corr:%s the replayed runs exercise the middle-reader unlink, the flagged-pointer hand-overs, upgrade and downgrade paths" % name,
                  "correspondence", not miss, "model program counters never reached: %s" % miss if miss else "")
        ck.extra["qrwn_pc_coverage"] = dict(sorted(cover.items()))
    bad_spec = list(bad_corr)
    if kind == "qrw":
        bad_corr = bad_corr + bad_node
    if heavy:
        ck.oblige("corr:%s some explored runs really put a thread to sleep" % name, "correspondence", slept > 0, "%d of %d" % (slept, nruns))
    ck.oblige("monitor:%s exclusion / reader-writer rule / truthful try+upgrade / queue order / no deadlock / critical sections of consecutive holders ordered by happens-before under the memory orders the code passed (random%s)" % (name, "" if heavy else " + bounded-preemption DFS"),
              "correspondence", not bad_mon, "" if not bad_mon else "%s | scenario %s" % (bad_mon[0][1]["mon"], bad_mon[0][0]))
    cex = bad_mon[:1]
    if not cex and bad_corr:
        # the correspondence broke but the monitors are quiet: search harder for a property failure on the implementation
        cex = search(ck, name, exe, [b[0] for b in bad_corr[:3]] + corpus, env)
        if not cex and kind == "qrw" and bad_spec:
            sc, r, d = bad_spec[0]      # a rejected event IS a property failure of the implementation (safety / queue order / truthfulness of the spec)
            ck.counterexample("%s:spec-rejects" % name, "%s: %s under schedule %s" % (name, d, " ".join(r["sched"])),
                              {"engine": "E-SHIM", "lock": name, "scenario": sc, "schedule": r["sched"], "monitor": d, "events": r["v"]})
    for sc, r in cex:
        ck.counterexample("%s:%s" % (name, r["mon"].split(" ")[0] if r["mon"] else "?"),
                          "%s: %s under schedule %s" % (name, r["mon"], " ".join(r["sched"])),
                          {"engine": "E-SHIM", "lock": name, "scenario": sc, "schedule": r["sched"], "monitor": r["mon"],
                           "env": r.get("env", "nospec"), "rerun": r.get("rerun"), "trace": (r.get("ev") or r.get("v") or [])[:200]})
    return bad_corr, bad_mon


def search(ck, name, exe, scs, env=None):
    """failing-input search: more random schedules (and DFS for the component harnesses) on the given scenarios"""
    heavy = FAMILIES[name][5].startswith("slp")
    quick = ck.tier == "quick"
    if quick:
        scs = scs[:5]
    for si, sc in enumerate(scs):
        rc, out, err = sh([exe, "rand", str(ck.seed * 7 + 900 + si), ("150" if quick else "400") if heavy else ("400" if quick else "1500")], input=prog_text(sc), timeout=900, env=env)
        for r in parse_runs(out):
            if r["mon"] != "ok":
                return [(sc, r)]
        if not heavy:
            rc, out, err = sh([exe, "dfs", "3", "30000" if quick else "200000"], input=prog_text(sc), timeout=900, env=env)
            rs = parse_runs(out)
            if rs and rs[-1]["mon"] != "ok":
                return [(sc, rs[-1])]
    return []


EXPLORE_QUICK = [
    [["acquire_r", "release"], ["acquire_r", "release"], ["acquire_w", "release"]],
    [["acquire_r", "upgrade", "release"], ["acquire_r", "upgrade", "release"]],
    [["acquire_w", "downgrade", "release"], ["acquire_w", "release"], ["acquire_r", "release"]],
]
EXPLORE_THOROUGH = EXPLORE_QUICK + [
    [["acquire_r", "release"], ["acquire_r", "release"], ["acquire_r", "release"]],
    [["acquire_w", "downgrade", "release"], ["acquire_r", "release"], ["acquire_r", "release"]],
    [["try_r", "release", "acquire_r", "release"], ["try_w", "release"], ["acquire_r", "release"]],
    [["acquire_r", "upgrade", "release"], ["acquire_r", "release"], ["acquire_r", "release"]],
    [["acquire_r", "upgrade", "release"], ["acquire_r", "upgrade", "release"], ["acquire_w", "release"]],
    [["acquire_r", "upgrade", "downgrade", "release"], ["acquire_r", "upgrade", "release"], ["try_r", "release"]],
    [["acquire_w", "downgrade", "upgrade", "release"], ["acquire_r", "upgrade", "release"]],
]


def explore_model(ck):
    """exhaustive exploration of the Lean node-protocol model for small configurations (all schedules): exclusion, no bad pointer, no stuck
    state (= no lost hand-off), and — without upgrade_to_writer — every clause of the proved invariant.  A search aid, not a proof: it covers
    the upgrade paths (for which the theorems are partial) and progress (for which there is no theorem) on these configurations only."""
    cfgs = EXPLORE_QUICK if ck.tier == "quick" else EXPLORE_THOROUGH
    bad, total = [], 0
    for sc in cfgs:
        out = drv("c08qrwx", "reset\n" + prog_text(sc) + "explore %d\n" % (400000 if ck.tier == "quick" else 3000000), timeout=1500)
        res = out[-1]
        m = re.search(r"states=(\d+)", res)
        total += int(m.group(1)) if m else 0
        if not (res.startswith("ok ") or res.startswith("limit ")):
            bad.append((sc, res))
    ck.evaluations += total
    ck.extra["model_states_explored"] = total
    ck.oblige("model:queuing_rw_mutex every reachable state of the node-protocol model for %d small configurations (all schedules, incl. upgrade_to_writer): "
              "exclusion, no bad pointer, no stuck state, invariant clauses" % len(cfgs), "correspondence", not bad,
              "" if not bad else "%s | programs %s" % (bad[0][1][:600], bad[0][0]))
    if bad:
        sc, res = bad[0]
        ck.counterexample("queuing_rw_mutex:model:" + res.split(" states=")[0].replace(" ", "-"), "the node-protocol MODEL reaches a bad state: %s" % res[:300],
                          {"engine": "model-exploration", "lock": "queuing_rw_mutex", "scenario": sc, "model_result": res})


def run(ck):
    ck.rule = ("E-SHIM on all eight lock kinds: hand-written contention scenarios (incl. concurrent upgrades by several readers, long holds "
               "that send waiters to sleep) + seeded random 2-4 thread op programs, each under seeded random schedules; access-by-access "
               "replay on the Lean protocol models (spin_rw_mutex, spin_mutex, queuing_mutex, mutex, rw_mutex), validation of the event log "
               "against the proven specification (queuing_rw_mutex), ghost-holder / FIFO monitors and deadlock detection everywhere, "
               "bounded-preemption DFS of the contention scenarios for the non-sleeping locks; distinct = distinct (lock kind, #threads, "
               "access kinds x variables seen, results) classes")
    ck.assumptions += [
        "proved on models at atomic-access granularity, N threads, all sequentially consistent interleavings: spin_mutex, spin_rw_mutex, "
        "queuing_mutex (Mcs), the word protocols of mutex and rw_mutex together with the sleep/wake hand-shake",
        "the concurrent_monitor behind wait_on_address/notify_* is modelled at its linearisation points (enqueue, predicate load, epoch check, "
        "semaphore P/V, flush under the monitor mutex); its internals (own mutex, list, futex) are serialised by its mutex and belong to C02",
        "mutex / rw_mutex no-lost-wake-up theorems (mutex_handoff_no_loss, rw_handoff_no_loss, rw_wake_rules) are safety invariants over all "
        "schedules ('no state in which a committed sleeper's condition holds and no notifier / woken thread is in flight'); progress of the "
        "in-flight notifier itself is not a theorem (it has no blocking step in the model) — deadlock detection checks it on explored schedules",
        "queuing_rw_mutex: PARTIAL — only the specification machine QRwSpec is proved (safety, queue order, truthful upgrade, atomic downgrade); "
        "the node protocol of queuing_rw_mutex.cpp (my_prev/my_next/my_state/my_going/internal locks) is NOT modelled; the implementation is "
        "tied to the spec by validating its holder-bookkeeping event log on the explored schedules only",
        "speculative_spin_rw_mutex (rtm_rw_mutex): proved on the model `Rtm` = the access-level spin_rw_mutex model + write_flag on the REAL paths + an "
        "ABSTRACT hardware transaction on the speculative paths (a transaction subscribes to the word it read inside the transaction and is aborted "
        "by any later write to it, by its own explicit abort, or spontaneously); the real paths are replayed access by access with speculation switched "
        "off in the harness; the speculative paths cannot be replayed (a transaction does not survive a scheduling point): what the model assumes about "
        "them is re-extracted from the source text on every run (rtm_source_obligations); RTM's own guarantees (conflict detection on the read set, "
        "atomic commit) are trusted",
        "speculative_spin_mutex (rtm_mutex): real path replayed on the spin_mutex model; speculative path only through the source-text obligations",
        "TSO store-buffer delays are not explored (the shim serialises accesses: sequentially consistent interleavings); release/acquire "
        "visibility rests on the regenerated memory-order table (rw_orders_publish: every releasing access is release-or-stronger, every "
        "acquiring access acquire-or-stronger, on the same variable) plus the C++11 / x86-TSO mapping of those orders",
        "weak CAS never fails spuriously under the shim; futex waits have no spurious wake-ups",
        "the sleeping locks are explored with random schedules only (their 38-iteration spin phase makes bounded DFS useless)"]
    ck.trusted += ["harness/shim (atomic shim + baton scheduler)", "harness/c08/*.cpp ghost-holder monitors and variable naming "
                   "(monitor slot of the lock's address, per-call sleep_node recognised by its access pattern)",
                   "trace replay / role classification of accesses in checks/c08.py (sampled correspondence)"]
    exes = {name: fam[1]() for name, fam in FAMILIES.items()}
    spin = gen(ck, exes)
    ck.lean_stage()
    explore_model(ck)
    for name in FAMILIES:
        run_family(ck, name, exes[name], spin)


def replay(ck, obj):
    r = obj["replay"]
    if r.get("engine") == "model-exploration":
        out = drv("c08qrwx", "reset\n" + prog_text(r["scenario"]) + "explore 3000000\n", timeout=1500)
        print(out[-1])
        return 0 if out[-1].startswith(("ok ", "limit ")) else 1
    exe = FAMILIES[r["lock"]][1]()
    env = dict(os.environ, C08_NOSPEC="1") if FAMILIES[r["lock"]][5] in ("rtm", "rtmmx") and r.get("env", "nospec") == "nospec" else None
    if r.get("rerun"):       # the harness died before it could print the schedule: re-run the seeded enumeration that led to it
        rc, out, err = sh([exe] + r["rerun"], input=prog_text(r["scenario"]), timeout=900, env=env)
    else:
        rc, out, err = sh([exe, "replay", ",".join(r["schedule"])], input=prog_text(r["scenario"]), timeout=300, env=env)
    print(out[-3000:])
    print("harness exit status %d" % rc)
    return 0 if rc == 0 else 1
