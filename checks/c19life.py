"""C19, container lifecycle of enumerable_thread_specific / combinable for every key kind (helper module of checks/c19.py).

E-GEN   clear(), constructor, destructor of the containers and of ets_base<ets_key_per_instance> are read from the source
        text as SEQUENCES of primitive actions (destroy_key / create_key / set_tls(nullptr) / super::table_clear /
        my_locals.clear) -> Generated.C19.life*; theorem ets_lifecycle_generated pins them, theorem
        ets_one_element_per_thread_lifecycle is stated over them.
E-SHIM  harness/c19/life.cpp: real header code, real OS threads (native TLS is real) under seeded schedules: phases of
        concurrent local() calls separated by clear() / destroy+re-create at the same address / move round trip / copy;
        threads that outlive a clear(), new threads after a clear(), repeated clear(); every operation is replayed on the
        Lean model (driver c19life); independent monitors (constructor/destructor registry, exists flag, initialiser
        count per thread per generation, pairwise distinct addresses, size()/iteration, TLS key leak).
E-REAL  the same file built against the real libtbb with std::threads (OS schedules).
"""
import os
import re

import common
from common import REPO, cxx_build, drv, log, sh

HDR = os.path.join(REPO, "include/oneapi/tbb/enumerable_thread_specific.h")
HDR_COMB = os.path.join(REPO, "include/oneapi/tbb/combinable.h")
H = "harness/c19/"
STUBS = "harness/common/r1_stubs.cpp"
D, C, N, S, L, U = 0, 1, 2, 3, 4, 9            # destroy_key, create_key, set_tls(nullptr), super clear, locals clear, unknown
EXPECTED = {"lifeClearKey": [L, D, C, S], "lifeClearNo": [L, S], "lifeCtorKey": [C], "lifeCtorNo": [], "lifeDtorKey": [D, C, S, L, D], "lifeDtorNo": [S, L],
            "lifeTlsLookup": True, "lifeSwapKey": True}


def strip_comments(s):
    s = re.sub(r"/\*.*?\*/", " ", s, flags=re.S)
    return re.sub(r"//[^\n]*", "", s)


def balanced(s, i):
    d = 0
    for j in range(i, len(s)):
        if s[j] == "{":
            d += 1
        elif s[j] == "}":
            d -= 1
            if d == 0:
                return j + 1
    return len(s)


def norm(s):
    return re.sub(r"\s+", "", s)


def body_of(src, sig_regex, start=0):
    """text between the braces of the first function whose signature matches (None if absent)"""
    m = re.compile(sig_regex).search(src, start)
    if not m:
        return None
    b0 = src.find("{", m.end() - 1)
    if b0 < 0:
        return None
    return src[b0 + 1:balanced(src, b0) - 1]


def split_win(spec):
    """(text of the non-Windows branch of the outermost `#if _WIN32||_WIN64 … #else … #endif`, spec without that block)"""
    lines = spec.split("\n")
    depth, start, els = 0, None, None
    for i, l in enumerate(lines):
        t = l.strip()
        if t.startswith("#if"):
            if depth == 0 and re.match(r"#if\s+_WIN32\s*\|\|\s*_WIN64", t) and start is None:
                start = i
            if start is not None:
                depth += 1
        elif t.startswith("#else") and start is not None and depth == 1:
            els = i
        elif t.startswith("#endif") and start is not None:
            depth -= 1
            if depth == 0:
                if els is None:
                    return "", spec
                return "\n".join(lines[els + 1:i]), "\n".join(lines[:start] + lines[i + 1:])
    return "", spec


def statements(body):
    return [x.strip() for x in body.split(";") if x.strip()]


def read_lifecycle():
    """-> (dict of generated values, dict of the source texts they were read from)"""
    src = strip_comments(open(HDR).read())
    notes = {}
    # --- ets_base<ets_no_key>::table_clear (the generic definition outside the class) -------------
    base = body_of(src, r"void\s+ets_base\s*<\s*ETS_key_type\s*>\s*::\s*table_clear\s*\(\s*\)\s*\{")
    notes["ets_base<K>::table_clear"] = " ".join((base or "<not found>").split())
    base_ok = base is not None and norm(base) == norm(
        "while ( array* r = my_root.load(std::memory_order_relaxed) ) { my_root.store(r->next, std::memory_order_relaxed); deallocate(r); }"
        " my_count.store(0, std::memory_order_relaxed);")
    base_ops = [S] if base_ok else [U]
    # --- the specialisation with native TLS ----------------------------------------------------------
    m = re.search(r"class\s+ets_base\s*<\s*ets_key_per_instance\s*>\s*:\s*public\s+ets_base\s*<\s*ets_no_key\s*>\s*\{", src)
    spec = src[m.end() - 1:balanced(src, m.end() - 1)] if m else ""
    prim_src, posix = split_win(spec)
    prims = {
        "create_key": norm("void create_key() { pthread_key_create(&my_key, nullptr); }") in norm(prim_src),
        "destroy_key": norm("void destroy_key() { pthread_key_delete(my_key); }") in norm(prim_src),
        "set_tls": norm("void set_tls( void * value ) const { pthread_setspecific(my_key, value); }") in norm(prim_src),
        "get_tls": norm("void* get_tls() const { return pthread_getspecific(my_key); }") in norm(prim_src),
    }
    notes["tls primitives recognised"] = prims

    def kops(body, table_clear_ops):
        out = []
        for st in statements(body or "?"):
            n = norm(st)
            if n == "destroy_key()":
                out.append(D if prims["destroy_key"] else U)
            elif n == "create_key()":
                out.append(C if prims["create_key"] else U)
            elif n in ("set_tls(nullptr)", "set_tls(0)", "set_tls(NULL)"):
                out.append(N if prims["set_tls"] else U)
            elif n == "super::table_clear()":
                out += base_ops
            elif n in ("this->table_clear()", "table_clear()", "this->ets_base<ETS_key_type>::table_clear()"):
                out += table_clear_ops
            elif n == "my_locals.clear()":
                out.append(L)
            elif n in ("if(my_construct_callback)my_construct_callback->destroy()",):
                pass                                    # the construct callback is not part of the table / key state
            else:
                out.append(U)
        return out

    tc = body_of(posix, r"void\s+table_clear\s*\(\s*\)\s*\{")
    notes["ets_base<ets_key_per_instance>::table_clear"] = " ".join((tc or "<not found>").split())
    key_tc = kops(tc, [U]) if tc is not None else [U]
    ctor = body_of(posix, r"(?<![~\w])ets_base\s*\(\s*\)\s*\{")
    dtor = body_of(posix, r"~\s*ets_base\s*\(\s*\)\s*\{")
    notes["ets_base<ets_key_per_instance> ctor/dtor"] = [" ".join((ctor or "<not found>").split()), " ".join((dtor or "<not found>").split())]
    key_ctor = kops(ctor, [U]) if ctor is not None else [U]
    key_dtor = kops(dtor, [U]) if dtor is not None else [U]
    tl = body_of(posix, r"void\s*\*\s*table_lookup\s*\(\s*bool\s*&\s*exists\s*\)\s*\{")
    notes["ets_base<ets_key_per_instance>::table_lookup"] = " ".join((tl or "<not found>").split())
    tl_ok = tl is not None and prims["get_tls"] and prims["set_tls"] and norm(tl) == norm(
        "void* found = get_tls(); if( found ) { exists=true; } else { found = super::table_lookup(exists); set_tls(found); } return found;")
    # base constructor / destructor of the generic class: no key, no table action
    gen_ctor = re.search(r"ets_base\s*\(\s*\)\s*:\s*my_root\s*\{\s*nullptr\s*\}\s*,\s*my_count\s*\{\s*0\s*\}\s*\{\s*\}", src) is not None
    gdt = body_of(src, r"ets_base\s*<\s*ETS_key_type\s*>\s*::\s*~\s*ets_base\s*\(\s*\)\s*\{")
    gen_dtor = gdt is not None and all(norm(x).startswith("__TBB_ASSERT(") for x in statements(gdt))
    # --- the container --------------------------------------------------------------------------------------
    m = re.search(r"class\s+enumerable_thread_specific\s*:\s*ets_base\s*<\s*ETS_key_type\s*>\s*\{", src)
    cls = src[m.end() - 1:balanced(src, m.end() - 1)] if m else ""
    has_locals = re.search(r"internal_collection_type\s+my_locals\s*;", cls) is not None
    clear = body_of(cls, r"void\s+clear\s*\(\s*\)\s*\{")
    cdtor = body_of(cls, r"~\s*enumerable_thread_specific\s*\(\s*\)\s*\{")
    lookup_call = re.search(r"reference\s+local\s*\(\s*bool\s*&\s*exists\s*\)\s*\{\s*void\s*\*\s*ptr\s*=\s*this->table_lookup\s*\(\s*exists\s*\)\s*;\s*return\s*\*\s*\(\s*T\s*\*\s*\)\s*ptr\s*;\s*\}", cls) is not None
    notes["enumerable_thread_specific::clear / destructor"] = [" ".join((clear or "<not found>").split()), " ".join((cdtor or "<not found>").split())]
    comb = strip_comments(open(HDR_COMB).read())
    comb_ok = re.search(r"void\s+clear\s*\(\s*\)\s*\{\s*my_ets\.clear\s*\(\s*\)\s*;\s*\}", comb) is not None and \
        re.search(r"T\s*&\s*local\s*\(\s*bool\s*&\s*exists\s*\)\s*\{\s*return\s+my_ets\.local\s*\(\s*exists\s*\)\s*;\s*\}", comb) is not None and \
        re.search(r"enumerable_thread_specific\s*<\s*T\s*,\s*my_alloc\s*,\s*ets_no_key\s*>", comb) is not None
    notes["combinable forwards clear()/local() to an ets_no_key container"] = comb_ok
    # --- internal_swap (same-type move construction / move assignment / swap): key, table and my_locals travel together ---------
    base_swap = body_of(src, r"void\s+table_swap\s*\(\s*ets_base\s*&\s*other\s*\)\s*\{")
    key_swap = body_of(posix, r"void\s+table_swap\s*\(\s*ets_base\s*&\s*other\s*\)\s*\{")
    iswap = body_of(cls, r"void\s+internal_swap\s*\(\s*enumerable_thread_specific\s*&\s*other\s*\)\s*\{")

    def stmts_wo_asserts(b):
        return [norm(x) for x in statements(b or "?") if not norm(x).startswith("__TBB_ASSERT(") and norm(x) != "usingstd::swap"]
    base_swap_ok = base_swap is not None and sorted(stmts_wo_asserts(base_swap)) == sorted(
        ["swap_atomics_relaxed(my_root,other.my_root)", "swap_atomics_relaxed(my_count,other.my_count)"])
    key_swap_ok = key_swap is not None and sorted(stmts_wo_asserts(key_swap)) == sorted(["swap(my_key,other.my_key)", "super::table_swap(other)"])
    iswap_ok = iswap is not None and sorted(stmts_wo_asserts(iswap)) == sorted(
        ["swap(my_construct_callback,other.my_construct_callback)", "swap(my_locals,other.my_locals)", "this->ets_base<ETS_key_type>::table_swap(other)"])
    # the same-type move constructor / move assignment / swap() must go through internal_swap
    movers = len(re.findall(r"internal_swap\s*\(\s*other\s*\)", cls))
    notes["table_swap (generic / per-instance) and internal_swap"] = [" ".join((base_swap or "<not found>").split()), " ".join((key_swap or "<not found>").split()),
                                                                     " ".join((iswap or "<not found>").split()), "calls of internal_swap(other): %d" % movers]
    swap_ok = bool(base_swap_ok and key_swap_ok and iswap_ok and movers >= 2)
    members = [L] if has_locals else [U]
    extra = [] if (lookup_call and gen_ctor and gen_dtor) else [U]
    g = {
        "lifeClearKey": (kops(clear, key_tc) if clear is not None else [U]) + extra,
        "lifeClearNo": (kops(clear, base_ops) if clear is not None else [U]) + extra + ([] if comb_ok else [U]),
        "lifeCtorKey": key_ctor,
        "lifeCtorNo": [] if gen_ctor else [U],
        "lifeDtorKey": (kops(cdtor, key_tc) if cdtor is not None else [U]) + members + key_dtor,
        "lifeDtorNo": (kops(cdtor, base_ops) if cdtor is not None else [U]) + members,
        "lifeTlsLookup": bool(tl_ok),
        "lifeSwapKey": swap_ok,
    }
    return g, notes


def lean_defs(g):
    out = ""
    for k in ("lifeClearKey", "lifeClearNo", "lifeCtorKey", "lifeCtorNo", "lifeDtorKey", "lifeDtorNo"):
        out += "def %s : List Nat := [%s]\n" % (k, ", ".join(map(str, g[k])))
    out += "def lifeSwapKey : Bool := %s\n" % ("true" if g.get("lifeSwapKey") else "false")
    return out + "def lifeTlsLookup : Bool := %s\n" % ("true" if g["lifeTlsLookup"] else "false")


def gen(ck):
    """returns the Lean text to append to Generated/C19.lean"""
    try:
        g, notes = read_lifecycle()
        err = None
    except (OSError, AttributeError, ValueError) as e:
        g, notes, err = {k: ([U] if isinstance(v, list) else False) for k, v in EXPECTED.items()}, {}, str(e)
    ck.extra["lifecycle_generated"] = {"ops (0 destroy_key, 1 create_key, 2 set_tls(nullptr), 3 super::table_clear, 4 my_locals.clear/destroy, 9 unknown)": g, "source": notes}
    ck.oblige("gen:lifecycle functions of enumerable_thread_specific / ets_base<ets_key_per_instance> / combinable read from the headers (clear, constructor, "
              "destructor, TLS fast path of table_lookup, pthread key primitives) without unknown statements", "generated",
              err is None and not any(U in v for v in g.values() if isinstance(v, list)), err or g)
    ck.oblige("gen:internal_swap (same-type move construction / move assignment / swap) exchanges my_locals, the table (my_root, my_count) and, for "
              "ets_key_per_instance, the native TLS key — read from the header", "generated", bool(g.get("lifeSwapKey")), notes.get("table_swap (generic / per-instance) and internal_swap"))
    return lean_defs(g), g


# ---------------------------------------------------------------------------------------------
# scenarios
# ---------------------------------------------------------------------------------------------
KINDS = ["nokey", "perinst", "comb"]


def sc_text(sc, quiet=False):
    t = "kind %s\nthreads %d\n" % (sc["kind"], sc["threads"])
    for ph in sc["phases"]:
        if ph[0] == "L":
            t += "phase L %s\n" % " ".join("%d:%d" % (a, n) for a, n in ph[1])
        else:
            t += "phase %s %d\n" % (ph[0], ph[1])
    return t + ("quiet\n" if quiet else "")


def LK(*pairs):
    return ("L", [(a, 1) if isinstance(a, int) else a for a in pairs])


def corpus():
    scs = []
    for k in KINDS:
        # a thread accesses, ANOTHER thread clears, the first thread accesses again, a new thread accesses
        scs.append({"kind": k, "threads": 3, "phases": [LK(0), ("C", 1), LK(0), LK(2), LK(0, 2)]})
        # the clearing thread has an element itself; repeated clear(); clear() of an empty container
        scs.append({"kind": k, "threads": 3, "phases": [LK((0, 2), 1), ("C", 0), LK(0), ("C", 0), ("C", 1), LK(1, 0, 2), ("C", 2), LK((2, 2))]})
        # destroyed and re-created at the same address; threads outlive it; a new thread afterwards
        scs.append({"kind": k, "threads": 4, "phases": [LK(0, 1), ("R", 2), LK(0), LK(1, 2), ("R", 0), LK(3), LK(0, (1, 2))]})
        # move away and back, copy
        scs.append({"kind": k, "threads": 3, "phases": [LK(0, 1), ("M", 2), LK(0, (1, 2)), ("Y", 0), ("C", 1), LK(0), ("M", 0), LK(2, 0), ("Y", 2)]})
        # a fresh container is move-assigned into the one the threads have been using (internal_swap: key, table and elements travel together);
        # threads that used it before, the mover itself and new threads access it afterwards; again after a clear
        scs.append({"kind": k, "threads": 4, "phases": [LK(0, 1), ("X", 2), LK(0), LK(1, 3), ("X", 0), LK(0, (1, 2)), ("C", 1), LK(2), ("X", 2), LK(2, 0, 3)]})
        # copies taken when the table has three arrays and some threads have re-accessed since the last growth while others have not (their key
        # lives only in an older array; the others have stale duplicates there)
        scs.append({"kind": k, "threads": 7, "phases": [LK(0, 1, 2, 3, 4), LK(2, 0), ("Y", 5), LK(5, 6), LK(1, 5), ("Y", 0), ("C", 3), LK(0, 1, 2, 3, 4, 5), LK(4), ("Y", 6)]})
        scs.append({"kind": k, "threads": 9, "phases": [LK(*range(9)), LK(8, 3), ("Y", 0), LK(0, 1), ("Y", 4)]})
        # the table doubles in one generation and starts again from nothing in the next
        scs.append({"kind": k, "threads": 9, "phases": [LK(*range(9)), ("C", 4), LK(*[(t, 2) for t in range(9)]), ("R", 8), LK(0, 8)]})
    # a thread that outlives MANY generations (more than PTHREAD_KEYS_MAX of them for the native-TLS kind)
    many = []
    for i in range(1100):
        many += [("C", 1), LK(0)]
    scs.append({"kind": "perinst", "threads": 3, "phases": [LK(0)] + many + [LK(2), LK(0, 1)], "long": True})
    return scs


def random_scenarios(rng, n):
    scs = []
    for _ in range(n):
        T = rng.choice([2, 3, 3, 4, 5, 6])
        phases = []
        for _ in range(rng.randrange(4, 12)):
            c = rng.random()
            if c < 0.5 or not phases:
                who = rng.sample(range(T), rng.randrange(1, T + 1))
                phases.append(("L", [(t, rng.choice([1, 1, 2, 3])) for t in sorted(who)]))
            elif c < 0.78:
                phases.append(("C", rng.randrange(T)))
            elif c < 0.88:
                phases.append(("R", rng.randrange(T)))
            elif c < 0.92:
                phases.append(("M", rng.randrange(T)))
            elif c < 0.96:
                phases.append(("X", rng.randrange(T)))
            else:
                phases.append(("Y", rng.randrange(T)))
        if phases[-1][0] != "L":
            phases.append(("L", [(t, 1) for t in range(T)]))
        scs.append({"kind": rng.choice(["nokey", "perinst", "perinst", "comb"]), "threads": T, "phases": phases})
    return scs


def parse_runs(out):
    runs, cur = [], None
    for l in out.split("\n"):
        w = l.split(" ", 1)
        if w[0] == "run":
            cur = {"ops": [], "mon": "", "sched": []}
        elif cur is None:
            continue
        elif w[0] in ("op", "chk"):
            cur["ops"].append(l)
        elif w[0] == "mon":
            cur["mon"] = w[1] if len(w) > 1 else ""
        elif w[0] == "sched":
            cur["sched"] = w[1].split() if len(w) > 1 else []
        elif w[0] == "end":
            runs.append(cur)
            cur = None
    return runs


def model_check(items):
    """items: [(scenario, run)].  Replays every operation of every run on the Lean lifecycle model (driver c19life, built
    over the GENERATED lifecycle functions); returns (index, text) of the first disagreement or None."""
    cmds, expect = [], []
    for idx, (sc, r) in enumerate(items):
        cmds.append("new %d" % (1 if sc["kind"] == "perinst" else 0))
        expect.append((idx, None, None))
        for l in r["ops"]:
            w = l.split()
            if w[0] == "op" and w[1] == "l":
                cmds.append("l " + w[2])
                expect.append((idx, "%s %s" % (w[3], w[4]), None))
            elif w[0] == "op" and w[1] in ("c", "r", "x"):
                cmds.append("%s %s" % (w[1], w[2]))
                expect.append((idx, "-", None))
            elif w[0] == "chk" and expect and expect[-1][0] == idx:
                size = int(w[2].split("=")[1])
                expect[-1] = (expect[-1][0], expect[-1][1], size)
    res = drv("c19life", "\n".join(cmds) + "\n", timeout=900) if cmds else []
    if len(res) != len(cmds):
        return (0, "the model driver answered %d of %d commands" % (len(res), len(cmds)))
    for (idx, what, size), c, m in zip(expect, cmds, res):
        head, _, tail = m.partition(" | ")
        t = tail.split()
        if len(t) != 3:
            return (idx, "model output %r for `%s`" % (m, c))
        if what is not None and head != what:
            return (idx, "`%s`: implementation returned %s, model %s" % (c, what, head))
        if size is not None and int(t[0]) != size:
            return (idx, "after `%s`: implementation size() = %d, model %s" % (c, size, t[0]))
        if t[2] != "0":
            return (idx, "the model reached a bad state at `%s` (use of a deleted key / unknown lifecycle statement)" % c)
        if sc_kind_keys(items[idx][0]) != int(t[1]):
            return (idx, "after `%s`: the model's container owns %s native TLS keys" % (c, t[1]))
    return None


def sc_kind_keys(sc):
    return 1 if sc["kind"] == "perinst" else 0


def find_libdir():
    """libtbb of the tree under test; a scratch worktree without a _build directory (the containers are header-only) is
    linked against /repo's library"""
    if os.path.isdir(os.path.join(REPO, "_build")):
        return common.ensure_repo_built(targets=("tbb",)) or common.find_tbb_lib()
    b = "/repo/_build"
    for d in sorted(os.listdir(b)) if os.path.isdir(b) else []:
        if os.path.exists(os.path.join(b, d, "libtbb.so")):
            return os.path.join(b, d)
    return None


def build_shim():
    return cxx_build("C19", "life", [H + "life.cpp", common.SHIM_SRC, STUBS], flags=["-O1", "-g", "-fno-access-control"] + common.SHIM_FLAGS)


def build_real(libdir):
    return cxx_build("C19", "life_real", [H + "life.cpp"], flags=["-O1", "-g", "-pthread", "-fno-access-control", "-DLIFE_REAL"],
                     libs=["-L" + libdir, "-ltbb", "-Wl,-rpath," + libdir])


def run_family(ck, g):
    quick = ck.tier == "quick"
    exe = build_shim()
    scs = corpus() + random_scenarios(ck.rng, 40 if quick else 400)
    nrand = 5 if quick else 25
    bad_mon, items = [], []
    phases_seen = 0
    for si, sc in enumerate(scs):
        n = 1 if sc.get("long") else nrand
        rc, out, err = sh([exe, "rand", str(ck.seed * 1000 + si), str(n)], input=sc_text(sc), timeout=900)
        runs = parse_runs(out)
        for r in runs:
            r["rand_args"] = [str(ck.seed * 1000 + si), str(n)]
            kinds = tuple(sorted(set(p[0] for p in sc["phases"])))
            outcome = tuple(sorted(set(l.split()[1] + l.split()[-1] for l in r["ops"] if l.startswith("op l"))))
            ck.count(1, ("life", sc["kind"], sc["threads"], min(len(sc["phases"]), 12), kinds, outcome, r["mon"].split(" ")[0]))
            phases_seen += len(sc["phases"])
            if r["mon"] != "ok":
                bad_mon.append((sc, r))
            elif not sc.get("long"):
                items.append((sc, r))
            ck.traces_validated += 1
        if rc not in (0, 1, 3) or (rc == 0 and len(runs) != n):
            bad_mon.append((sc, {"mon": "harness crashed rc=%d %s" % (rc, err[-300:]), "sched": [], "ops": []}))
        if si in (1, 16) and runs:
            ck.sample({"what": "container lifecycle", "scenario": sc_text(sc).split("\n")[:-1], "ops": runs[0]["ops"][:16], "monitor": runs[0]["mon"]})
    mc = model_check(items)
    ck.extra.setdefault("schedules", {})["ets_lifecycle"] = {"scenarios": len(scs), "runs": len(items) + len(bad_mon), "phases": phases_seen}
    bad_corr = []
    if mc is not None:
        sc, r = items[mc[0]]
        bad_corr.append((sc, r, mc[1]))
    # E-REAL: the same scenarios on the real library with OS-scheduled std::threads
    real_bad = None
    libdir = find_libdir()
    if libdir:
        rexe = build_real(libdir)
        nreal = 0
        for si, sc in enumerate(scs if not quick else scs[:16] + scs[16::4]):
            rc, out, err = sh([rexe, "real", "3" if not sc.get("long") else "1"], input=sc_text(sc, quiet=True), timeout=900)
            nreal += 1
            if rc != 0:
                rs = parse_runs(out)
                real_bad = real_bad or (sc, rs[0] if rs else {"mon": "harness crashed rc=%d %s" % (rc, (out + err)[-300:]), "sched": [], "ops": []})
        ck.extra["schedules"]["ets_lifecycle"]["real_thread_scenarios"] = nreal
        ck.count(nreal, ("life-real", nreal))
    else:
        ck.assumptions.append("E-REAL part of the lifecycle scenarios skipped: no built libtbb")
    return exe, bad_corr, bad_mon, real_bad


def mk_key(mon):
    return re.sub(r"[^A-Za-z]+", "-", " ".join(mon.split(" ")[1:9])).strip("-") or "harness"


def report(ck, exe, g, bad_corr, bad_mon, real_bad):
    lean_broken = any(not o["ok"] and o["name"].startswith(("lean:", "theorem:")) for o in ck.obligations)
    if (bad_corr or lean_broken or g != EXPECTED) and not bad_mon and not real_bad:
        # something no longer matches but no monitor fired yet: look harder (more scenarios, more schedules)
        log("lifecycle: searching for a failing scenario")
        tried = 0
        for si, sc in enumerate(corpus()[:-1] + random_scenarios(ck.rng, 300)):
            rc, out, err = sh([exe, "rand", str(ck.seed * 7777 + si), "12"], input=sc_text(sc, quiet=True), timeout=900)
            tried += 12
            if rc != 0:
                rs = parse_runs(out)
                bad_mon.append((sc, rs[0] if rs else {"mon": "harness crashed rc=%d %s" % (rc, (out + err)[-300:]), "sched": [], "ops": []}))
                break
        ck.extra["lifecycle_search_runs"] = tried
    ck.oblige("corr:ets-lifecycle every local()/clear()/re-creation of every run replays on the Lean lifecycle model built over the generated lifecycle functions "
              "(returned element, exists flag, size(), keys owned)", "correspondence", not bad_corr,
              "" if not bad_corr else "%s | scenario %s" % (bad_corr[0][2], sc_text(bad_corr[0][0]).replace("\n", "; ")[:400]))
    what = ("every local() returns a live element of the current generation constructed by the caller, exists flag truthful, one initialiser call per thread "
            "per generation, pairwise distinct addresses, size()/iteration = threads that accessed since the last clear, copies complete, nothing survives the "
            "destructor, no native TLS key leaked; kinds ets_no_key / ets_key_per_instance / combinable; clear, repeated clear, re-creation at the same address, "
            "move round trip, threads outliving a clear, new threads after a clear")
    ck.oblige("monitor:ets-lifecycle (E-SHIM, seeded schedules) " + what, "correspondence", not bad_mon,
              "" if not bad_mon else "%s | scenario %s" % (bad_mon[0][1]["mon"], sc_text(bad_mon[0][0]).replace("\n", "; ")[:400]))
    ck.oblige("monitor:ets-lifecycle (real libtbb, std::threads, OS schedules) same monitors", "correspondence", real_bad is None,
              "" if real_bad is None else "%s | scenario %s" % (real_bad[1]["mon"], sc_text(real_bad[0]).replace("\n", "; ")[:400]))
    if bad_mon:
        sc, r = min(bad_mon, key=lambda x: (len(x[0]["phases"]), len(x[1].get("sched", [])) or 10 ** 9))
        ck.counterexample("ets-lifecycle:%s:%s" % (sc["kind"], mk_key(r["mon"])),
                          "%s container, phases [%s]: %s" % (sc["kind"], sc_text(sc).replace("\n", "; ")[:300], r["mon"]),
                          {"engine": "E-SHIM", "family": "life", "scenario": sc, "schedule": r.get("sched", []), "rand_args": r.get("rand_args"), "monitor": r["mon"], "ops": r.get("ops", [])[-60:]})
    elif real_bad:
        sc, r = real_bad
        ck.counterexample("ets-lifecycle-real:%s:%s" % (sc["kind"], mk_key(r["mon"])),
                          "%s container on the real library, phases [%s]: %s" % (sc["kind"], sc_text(sc).replace("\n", "; ")[:300], r["mon"]),
                          {"engine": "E-REAL", "family": "life-real", "scenario": sc, "monitor": r["mon"], "ops": r.get("ops", [])[-60:]})


def replay(obj_replay):
    r = obj_replay
    sc = r["scenario"]
    sc["phases"] = [tuple(p) if p[0] != "L" else ("L", [tuple(x) for x in p[1]]) for p in sc["phases"]]
    if r["family"] == "life-real":
        rc, out, err = sh([build_real(find_libdir()), "real", "20"], input=sc_text(sc, quiet=True), timeout=900)
    else:
        exe = build_shim()
        rc, out, err = sh([exe, "replay", ",".join(r.get("schedule") or ["0"])], input=sc_text(sc), timeout=600)
        if rc == 0 and r.get("rand_args"):
            rc, out, err = sh([exe, "rand"] + r["rand_args"], input=sc_text(sc, quiet=True), timeout=900)
    lines = [l for l in out.split("\n") if not l.startswith("sched")]
    print("\n".join(lines[-45:]))
    return 0 if rc == 0 else 1
