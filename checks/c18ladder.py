"""C18 — tie of the failure-ladder model (C17 back-end model + Model/C18Ladder.lean) to the real Backend.

The real tbbmalloc back end of one user pool is driven white-box (harness/c18/ladder.cpp = harness/c17/be.cpp + ladder mode,
OS layer emulated so that every raw request can be refused individually and deterministically); the oracle is SCRIPTED:
  * the k-th raw request refused, for every k the fault-free run makes;
  * refused for a window (k-th .. k+2-th);
  * everything refused from operation i until a marker at operation j;
after every operation the full back-end state (regions, every block with its boundary tags, bins, masks, coalescing queue,
maxRequestedSize, bootsrapMemStatus, totalMemSize) is compared with the Lean model `drv_c18 c18ld`, which is fed the answers
the real raw allocator gave; then the RECOVERY phase runs (oracle grants everything): the model evaluates the hypotheses of
theorem `recovery` on the state the failures left and every request must return a block.  pool_destroy with the raw-free
callback reporting failure for the k-th region is compared with `poolDestroy`.  Front-end windows (getEmptyBlock /
mallocLargeObject on the default pool) run under implementation-side monitors."""
import re

import c17
import c17be
from common import cxx_build, drv, sh

SLAB = 16384
LD_CFGS = [(0, 0, 4096, 0), (0, 1, 4096, 0), (0, 0, 65536, 0), (1, 0, 4096, 4 * 1048576), (1, 0, 4096, 1048576 + 12288)]
RECOVERY = ["get 1 %d 1" % SLAB, "get 1 8192 0", "get 1 100000 0", "get 2 %d 1" % SLAB, "get 1 1048640 0", "get 1 300000 0"]


def build():
    return cxx_build("C18", "ladder", ["harness/c18/ladder.cpp"], flags=c17.WB_FLAGS, libs=c17.WB_LIBS)


def run_ld(exe, mode, lines, timeout=150):
    rc, out, err = sh([exe, mode], input="\n".join(lines) + "\n", timeout=timeout)
    return rc, c17be.records(out), err


def base_script(cfg, variant, rng):
    """operation sequence without environment threads (so the back end is quiescent between operations)"""
    L = ["cfg %d %d %d %d" % cfg]
    fixed = cfg[0] != 0
    if variant == 0:
        L += ["get 1 %d 1" % SLAB, "get 2 %d 1" % SLAB, "get 1 8192 0", "get 1 65536 0", "putn 1", "get 1 200000 0",
              "get 1 1048576 0" if not fixed else "get 1 524288 0", "putn 0", "clean", "get 3 %d 1" % SLAB, "get 1 3000000 0" if not fixed else "get 1 700000 0",
              "putn 4", "putn 5", "clean", "get 1 %d 1" % SLAB]
    elif variant == 1:
        # large objects first (the bootstrap region is the only one when the first real request is refused), then slabs
        L += ["get 1 2097152 0" if not fixed else "get 1 262144 0", "get 1 131072 0", "get 1 16392 0", "putn 1", "get 4 %d 1" % SLAB, "putn 0", "clean",
              "get 1 %d 1" % SLAB, "get 1 1000000 0" if not fixed else "get 1 400000 0", "putn 3", "putn 4", "putn 5", "putn 6", "clean", "get 2 %d 1" % SLAB]
    else:
        n, live = 0, []
        for _ in range(16):
            r = rng.random()
            if r < 0.55 or not live:
                if rng.random() < 0.5:
                    k = rng.choice([1, 1, 2, 3, 4])
                    L.append("get %d %d 1" % (k, SLAB))
                else:
                    k = 1
                    sz = c17be.bk_pick_large(rng)
                    if fixed:
                        sz = min(sz, 600000 // 8 * 8)
                    L.append("get 1 %d 0" % sz)
                live += list(range(n, n + k))
                n += k
            elif r < 0.9:
                j = rng.choice(live)
                live.remove(j)
                L.append("putn %d" % j)
            else:
                L.append("clean")
    return L


def raw_calls(recs):
    return [len(re.findall(r"\[P \d+ (?:\d+|fail)\]", r[1])) if len(r) > 1 else 0 for r in recs]


def with_faults(base, pat):
    """pat = ('kth', k, c) : before the first operation `osfail k c`;  ('until', i, j): everything refused from op i to marker j"""
    cfg, ops = base[0], base[1:]
    if pat[0] == "kth":
        body = ["osfail %d %d" % (pat[1], pat[2])] + ops
    else:
        _, i, j = pat
        body = ops[:i] + ["osfail 1 1000000"] + ops[i:j] + ["osfail 0 0"] + ops[j:]
    return [cfg] + body + ["osfail 0 0"] + RECOVERY, len(body) + 2      # index of the first recovery operation


def model_input(lines, recs, fixedsize):
    ml = c17be.bk_model_input(lines, recs, fixedsize)
    out = []
    for l, m, r in zip(lines, ml, recs):
        if l == "destroy":
            ans = ["0" if x.endswith(" fail") else "1" for x in re.findall(r"\[F ([^\]]*)\]", r[1] if len(r) > 1 else "")]
            out.append("destroy 1 1 | " + " ".join(ans))
        else:
            out.append(m)
    return out


def norm_real(rec):
    return [re.sub(r"(\[F \d+ \d+) fail\]", r"\1]", l) if l.startswith("= ") else l for l in rec]


def compare(exe, lines, first_recovery=None, timeout=150):
    """returns (kind, index, detail, info): kind None / 'mon' / 'diff' / 'crash' / 'recovery'"""
    fixedsize = int(lines[0].split()[4])
    rc, recs, err = run_ld(exe, "ld", lines, timeout=timeout)
    info = {"fails": 0, "recovered": 0, "raw": raw_calls(recs)}
    for i, r in enumerate(recs):
        if c17be.mons(r):
            return "mon", i, c17be.mons(r)[:3], info
    if rc != 0 or len(recs) != len(lines):
        return "crash", len(recs), "harness rc=%d after %d/%d operations %s" % (rc, len(recs), len(lines), err[-200:]), info
    mrecs = c17be.records("\n".join(drv("c18ld", "\n".join(model_input(lines, recs, fixedsize)) + "\n", timeout=300)))
    ks = []
    for i, (a, b) in enumerate(zip(recs, mrecs)):
        k = [l for l in b if l.startswith("K ")]
        ks.append(dict(kv.split("=") for kv in k[0].split()[1:]) if k else None)
        b = [l for l in b if not l.startswith("K ")]
        a = norm_real(a)
        if a != b:
            for x, y in zip(a, b):
                if x != y:
                    return "diff", i, "implementation: %s | model: %s" % (x[:300], y[:300]), info
            return "diff", i, "record lengths differ: implementation %s | model %s" % (a[-1][:200], b[-1][:200]), info
    if len(recs) != len(mrecs):
        return "diff", min(len(recs), len(mrecs)), "number of records differs", info
    for i, (l, r) in enumerate(zip(lines, recs)):
        if l.startswith("get ") and r[1].split()[1] == "0":
            info["fails"] += 1
    if first_recovery is not None:
        fixed = lines[0].split()[1] != "0"
        for i in range(first_recovery, len(lines)):
            if not lines[i].startswith("get "):
                continue
            pre = ks[i - 1]
            granted = "fail" not in recs[i][1]
            if fixed:
                continue
            if not pre or pre["quiet"] != "1" or pre["wf"] != "1" or pre["maxreq"] != "1":
                return "recovery", i, "the state the failures left does not satisfy the hypotheses of theorem `recovery`: %s" % (pre,), info
            if granted and recs[i][1].split()[1] == "0":
                return "recovery", i, "oracle grants everything, the state is quiescent and well formed, but `%s` returned null" % lines[i], info
            info["recovered"] += 1
    return None, None, None, info


def patterns(raw, nops, quick, rng):
    n = sum(raw)
    pats = []
    ks = list(range(1, n + 1))
    if quick and len(ks) > 12:
        ks = ks[:6] + sorted(rng.sample(ks[6:], 6))
    for k in ks:
        pats.append(("kth", k, 1))
    for k in (ks[::2] if quick else ks):
        pats.append(("kth", k, 3))
    starts = list(range(0, nops, 2 if quick else 1))
    for i in starts:
        for j in ((min(nops, i + 3),) if quick else (min(nops, i + 1), min(nops, i + 3), nops)):
            if j > i:
                pats.append(("until", i, j))
    return pats


def run(ck):
    quick = ck.tier == "quick"
    exe = build()
    bad, ncmp, nfail, nrec = [], 0, 0, 0
    variants = (0, 1, 2, 3) if quick else tuple(range(0, 12))
    for ci, cfg in enumerate(LD_CFGS):
        for v in variants:
            base = base_script(cfg, v, ck.rng)
            kind, idx, detail, info = compare(exe, base + ["osfail 0 0"] + RECOVERY, len(base) + 1)
            ncmp += 1
            if kind:
                bad.append((kind, base + ["osfail 0 0"] + RECOVERY, idx, detail))
                continue
            for pat in patterns(info["raw"], len(base) - 1, quick, ck.rng):
                lines, fr = with_faults(base, pat)
                kind, idx, detail, info2 = compare(exe, lines, fr)
                ncmp += 1
                nfail += info2["fails"]
                nrec += info2["recovered"]
                ck.count(len(lines), ("ladder", cfg, pat[0], info2["fails"] > 0))
                if kind:
                    bad.append((kind, lines, idx, detail))
                    if len(bad) >= 3:
                        break
            if len(bad) >= 3:
                break
        if len(bad) >= 3:
            break
    ck.traces_validated += ncmp
    ck.extra["ladder"] = {"scripts_compared": ncmp, "failed_requests_observed": nfail, "recovery_requests_checked": nrec}
    ck.sample({"ladder-script": with_faults(base_script(LD_CFGS[0], 0, ck.rng), ("until", 2, 5))[0][:12]})
    mon_bad = [b for b in bad if b[0] in ("mon", "crash", "recovery")]
    diff_bad = [b for b in bad if b[0] == "diff"]
    ck.oblige("monitor:failure ladder on the real Backend (a request that returns null changes no handed-out block and leaves nothing queued; "
              "totalMemSize = sum of the registered regions after every operation; tiling / tags / bins intact; fixed pool asks once; recovery: once the "
              "oracle grants, every request returns a block)", "correspondence", not mon_bad, [(k, d) for k, _, _, d in mon_bad][:2])
    ck.oblige("corr:failure ladder (Lean model of genericGetBlock's retry ladder under a scripted oracle vs the real Backend: k-th request refused / "
              "window / refused until a marker; every state compared incl. totalMemSize; %d scripts, %d failed requests, %d recovery requests)" % (ncmp, nfail, nrec),
              "correspondence", not diff_bad and nfail > 0 and nrec > 0, [(k, d) for k, _, _, d in diff_bad][:2] or ("no failing request was produced" if not nfail else ""))
    for kind, lines, idx, detail in mon_bad[:1]:
        small = c17be.shrink_lines(lines[:idx + 1] if kind != "recovery" else lines, lambda ls: compare(exe, ls, None if kind != "recovery" else _first_rec(ls), timeout=20)[0] == kind, budget=25)
        ck.counterexample("ladder:%s:%s" % (kind, c17.hash_lines(small)),
                          "back-end operation sequence with a scripted raw-memory oracle (%d ops) on which the failure ladder breaks the property: %s" % (len(small), detail),
                          {"engine": "E-PURE", "harness": "harness/c18/ladder.cpp", "mode": "ld", "stdin": small, "observed": detail, "expect": "no-MON"})
    if diff_bad and not mon_bad:
        kind, lines, idx, detail = diff_bad[0]
        # the model and the code disagree: look for an input on which the PROPERTY fails on the implementation
        found = None
        for _ in range(20 if quick else 120):
            cfg = ck.rng.choice(LD_CFGS)
            base = base_script(cfg, 2, ck.rng)
            rc, recs, err = run_ld(exe, "ld", base)
            raw = raw_calls(recs)
            pats = patterns(raw, len(base) - 1, True, ck.rng)
            if not pats:
                continue
            ls, fr = with_faults(base, ck.rng.choice(pats))
            k2, i2, d2, _ = compare(exe, ls, fr)
            if k2 in ("mon", "crash", "recovery"):
                found = (k2, ls, d2)
                break
        if found:
            ck.counterexample("ladder:search:%s" % c17.hash_lines(found[1]), "scripted-oracle sequence on which an implementation-side monitor fires: %s" % (found[2],),
                              {"engine": "E-PURE", "harness": "harness/c18/ladder.cpp", "mode": "ld", "stdin": found[1], "observed": found[2], "expect": "no-MON"})
    run_destroy(ck, exe)
    run_fe(ck, exe)


def _first_rec(ls):
    for i in range(len(ls) - 1, 0, -1):
        if ls[i] == "osfail 0 0":
            return i + 1
    return None


def run_destroy(ck, exe):
    """pool_destroy with the raw-free callback reporting failure for the k-th .. k+c-1-th region offered"""
    quick = ck.tier == "quick"
    bad = []
    n = 0
    for cfg in (LD_CFGS[0], LD_CFGS[1]):
        pre = ["cfg %d %d %d %d" % cfg, "get 1 %d 1" % SLAB, "get 1 2097152 0", "get 1 3000000 0", "get 1 70000 0", "putn 1"]
        rc, recs, err = run_ld(exe, "ld", pre + ["destroy"])
        nreg = len(re.findall(r"\[F ", recs[-1][1])) if recs else 0
        for k in range(0, nreg + 1):
            for c in ((1,) if quick else (1, 2, nreg)):
                lines = pre + (["rawfreefail %d %d" % (k, c)] if k else []) + ["destroy"]
                kind, idx, detail, _ = compare(exe, lines)
                n += 1
                ck.count(1, ("destroy", cfg, k > 0, c))
                if kind:
                    bad.append((kind, lines, detail))
    ck.traces_validated += n
    ck.oblige("corr+monitor:pool_destroy on the model's region list (every region offered to the raw-free callback exactly once, in list order, also after "
              "an answer that reports failure; result = all answers; %d failure positions)" % n, "correspondence", not bad and n > 2, [(k, d) for k, _, d in bad][:2])
    for kind, lines, detail in bad[:1]:
        ck.counterexample("ladder:destroy:%s" % c17.hash_lines(lines), "pool_destroy with a failing raw-free callback: %s" % (detail,),
                          {"engine": "E-PURE", "harness": "harness/c18/ladder.cpp", "mode": "ld", "stdin": lines, "observed": detail, "expect": "no-MON"})


def run_fe(ck, exe):
    """front-end windows: MemoryPool::getEmptyBlock / ExtMemoryPool::mallocLargeObject on the default pool with the OS refusing the
    1st..4th request each call makes (single / windows), then recovering"""
    quick = ck.tier == "quick"
    bad, n = [], 0
    calls = ["slab 64", "slab 1024", "large 20000", "large 70000", "large 2000000", "large 20000000"]
    for warm in (0, 1):
        for call in calls:
            for k in range(1, 5):
                for c in ((1, 4) if quick else (1, 2, 4, 1000)):
                    lines = (["slab 64", "large 30000", "large 3000000", "freeall"] if warm else []) + \
                            ["osfail %d %d" % (k, c), call, call, "osfail 0 0", call, "slab 64", "large 100000", "freeall", call]
                    rc, recs, err = run_ld(exe, "fe", lines, timeout=120)
                    n += 1
                    m = [l for r in recs for l in c17be.mons(r)]
                    ok_after = rc == 0 and len(recs) == len(lines) and all(r[1].startswith("= ok") for r in recs[-5:])
                    failed = any(r[1].startswith("= null") for r in recs)
                    ck.count(1, ("fe", call.split()[0], k, c, failed))
                    if m or rc != 0 or len(recs) != len(lines):
                        bad.append((lines, m[:2] or "harness rc=%d after %d/%d ops %s" % (rc, len(recs), len(lines), err[-150:])))
                    elif not ok_after:
                        bad.append((lines, "after the OS recovered a front-end request still fails: %s" % [r[1] for r in recs[-5:]]))
    ck.traces_validated += n
    ck.oblige("monitor:front end on a null of the back end (getEmptyBlock / mallocLargeObject under OS refusal windows: a failed call holds no more back-end "
              "memory and no more back references than before, totalMemSize consistent, later calls succeed; %d windows)" % n, "correspondence", not bad, bad[:2])
    for lines, detail in bad[:1]:
        ck.counterexample("ladder:frontend:%s" % c17.hash_lines(lines), "front-end call under an OS refusal window: %s" % (detail,),
                          {"engine": "E-PURE", "harness": "harness/c18/ladder.cpp", "mode": "fe", "stdin": lines, "observed": str(detail), "expect": "no-MON"})


def replay(ck, r):
    exe = build()
    lines = r["stdin"]
    if r.get("mode") == "fe":
        rc, recs, err = run_ld(exe, "fe", lines, timeout=120)
        m = [l for rec in recs for l in c17be.mons(rec)]
        still = bool(m) or rc != 0
        print("\n".join(m) or "no monitor fired")
    else:
        kind, idx, detail, _ = compare(exe, lines, _first_rec(lines))
        still = kind in ("mon", "crash", "recovery")
        print("%s at op %s: %s" % (kind, idx, detail) if kind else "model and implementation agree, no monitor fired")
    print("STILL FAILS" if still else "property holds now")
    return 1 if still else 0
