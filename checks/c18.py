"""C18 — tbbmalloc fails cleanly; memory pools stay inside and give back their raw memory (DESIGN.md §3 C18)."""
import hashlib
import json
import os
import re

import cexpr
import common
import c17
import c18ladder
import c18gen2
from c17 import (FRONTEND, SRC, WB_FLAGS, WB_LIBS, drop_calls, function_body, kv, lean_def, match_paren, read, strip_comments,
                 tr_expr, tr_function, tr_locals)
from common import (BuildError, REPO, cxx_build, drv, first_diff, gen_write, log, sh)

UTILS = os.path.join(REPO, "include/oneapi/tbb/detail/_utils.h")


# ---------------------------------------------------------------------------------------------
# E-GEN: argument / overflow guards regenerated from the source text
# ---------------------------------------------------------------------------------------------
def take_if(body, pos=0):
    """body[pos:] starts (after blanks) with `if (cond)`; returns (cond text, position after the `)`)"""
    m = re.compile(r"\s*if\s*\(").match(body, pos)
    if not m:
        raise cexpr.CExprError("expected `if (` at: %r" % body[pos:pos + 60].strip())
    j = match_paren(body, m.end() - 1)
    return " ".join(body[m.end():j - 1].split()), j


def expect(body, pos, regex, what):
    m = re.compile(regex, re.S).match(body, pos)
    if not m:
        raise cexpr.CExprError("expected %s at: %r" % (what, body[pos:pos + 80].strip()))
    return m.end()


def gen_guards(c, consts):
    out, src = "", {}
    U1, U2 = [("arg", "u64")], [("arg", "u64"), ("divisor", "u64")]
    funcs = dict(c17.F_ALIGN)
    ut, cu = read(UTILS), read(os.path.join(SRC, "Customize.h"))
    xt = {"IntegerType": "u64", "ArgIntegerType": "u64", "DivisorIntegerType": "u64"}
    # -- power-of-two tests -------------------------------------------------------------------
    e = tr_function(ut, r"constexpr\s+bool\s+is_power_of_two\s*\(\s*IntegerType\s+arg\s*\)", U1, "bool", consts, funcs, xt)
    out += lean_def("is_power_of_two", U1, "bool", e)
    e = tr_function(ut, r"constexpr\s+bool\s+is_power_of_two_at_least\s*\(\s*ArgIntegerType\s+arg\s*,\s*DivisorIntegerType\s+divisor\s*\)", U2, "bool", consts, funcs, xt)
    out += lean_def("is_power_of_two_at_least", U2, "bool", e)
    funcs["tbb::detail::is_power_of_two"] = ("is_power_of_two", ["u64"], "bool")
    funcs["tbb::detail::is_power_of_two_at_least"] = ("is_power_of_two_at_least", ["u64", "u64"], "bool")
    e = tr_function(cu, r"static\s+inline\s+bool\s+isPowerOfTwo\s*\(\s*uintptr_t\s+arg\s*\)", U1, "bool", consts, funcs)
    out += lean_def("isPowerOfTwo", U1, "bool", e)
    P2 = [("arg", "u64"), ("power2", "u64")]
    e = tr_function(cu, r"static\s+inline\s+bool\s+isPowerOfTwoAtLeast\s*\(\s*uintptr_t\s+arg\s*,\s*uintptr_t\s+power2\s*\)", P2, "bool", consts, funcs)
    out += lean_def("isPowerOfTwoAtLeast", P2, "bool", e)
    funcs["isPowerOfTwo"] = ("isPowerOfTwo", ["u64"], "bool")
    funcs["isPowerOfTwoAtLeast"] = ("isPowerOfTwoAtLeast", ["u64", "u64"], "bool")
    # -- BitScanRev and the two bin structures of the large-object cache --------------------------
    funcs["tbb::detail::log2"] = ("Nat.log2", ["u64"], "u64")
    e = tr_function(cu, r"inline\s+intptr_t\s+BitScanRev\s*\(\s*uintptr_t\s+x\s*\)", [("x", "u64")], "i64", consts, funcs)
    out += lean_def("BitScanRev", [("x", "u64")], "i64", e)
    funcs["BitScanRev"] = ("BitScanRev", ["u64"], "i64")
    lo = read(os.path.join(SRC, "large_objects.h"))
    SZ = [("size", "u64")]
    e = tr_function(lo, r"struct\s+LargeBinStructureProps\b[\s\S]*?static\s+size_t\s+alignToBin\s*\(\s*size_t\s+size\s*\)", SZ, "u64", consts, funcs)
    out += lean_def("largeAlignToBin", SZ, "u64", e)
    e = tr_function(lo, r"struct\s+HugeBinStructureProps\b[\s\S]*?static\s+size_t\s+alignToBin\s*\(\s*size_t\s+size\s*\)", SZ, "u64", consts, funcs)
    out += lean_def("hugeAlignToBin", SZ, "u64", e)
    funcs["LargeCacheType::alignToBin"] = ("largeAlignToBin", ["u64"], "u64")
    funcs["HugeCacheType::alignToBin"] = ("hugeAlignToBin", ["u64"], "u64")
    e = tr_function(read(os.path.join(SRC, "large_objects.cpp")), r"size_t\s+LargeObjectCache::alignToBin\s*\(\s*size_t\s+size\s*\)", SZ, "u64", consts, funcs)
    out += lean_def("locAlignToBin", SZ, "u64", e)
    funcs["LargeObjectCache::alignToBin"] = ("locAlignToBin", ["u64"], "u64")
    fe = strip_comments(read(FRONTEND))
    # -- getFromLLOCache: allocation size and the wrap-around test -------------------------------
    body = drop_calls(strip_comments(function_body(fe, r"void\s*\*\s*MemoryPool::getFromLLOCache\s*\(\s*TLSData\s*\*\s*tls\s*,\s*size_t\s+size\s*,\s*size_t\s+alignment\s*\)")))
    body = re.sub(r"^\s*LargeMemoryBlock\s*\*\s*lmb\s*=\s*nullptr\s*;", "", body)
    PL = [("size", "u64"), ("alignment", "u64")]
    env = {p: (p, t) for p, t in PL}
    rest = tr_locals(body, env, consts, funcs)
    if "allocationSize" not in env:
        raise cexpr.CExprError("getFromLLOCache: local `allocationSize` not found")
    cond, j = take_if(rest)
    expect(rest, j, r"\s*return\s+nullptr\s*;", "`return nullptr;` after the wrap-around test of getFromLLOCache")
    src["lloWrapTest"] = cond
    out += lean_def("lloAllocationSize", PL, "u64", env["allocationSize"][0])
    out += lean_def("lloReject", PL, "bool", tr_expr(cond, env, consts, funcs, want="bool")[0])
    # -- calloc ------------------------------------------------------------------------------------
    body = drop_calls(strip_comments(function_body(fe, r'extern\s+"C"\s+void\s*\*\s*scalable_calloc\s*\(\s*size_t\s+nobj\s*,\s*size_t\s+size\s*\)')))
    PC = [("nobj", "u64"), ("size", "u64")]
    env = {p: (p, t) for p, t in PC}
    rest = tr_locals(body, env, consts, funcs)
    c1, j = take_if(rest)
    c2, j = take_if(rest, j)
    j = expect(rest, j, r"\s*\{\s*errno\s*=\s*ENOMEM\s*;\s*return\s+nullptr\s*;\s*\}", "`{ errno = ENOMEM; return nullptr; }` in scalable_calloc")
    m = re.compile(r"\s*void\s*\*\s*result\s*=\s*internalMalloc\s*\(([^;]*)\)\s*;").match(rest, j)
    if not m:
        raise cexpr.CExprError("scalable_calloc: `void* result = internalMalloc(...)` not found after the guard")
    src["callocGuard"] = "if (%s) if (%s)" % (c1, c2)
    src["callocArg"] = m.group(1).strip()
    out += lean_def("callocReject", PC, "bool", "(%s && %s)" % (tr_expr(c1, env, consts, funcs, want="bool")[0], tr_expr(c2, env, consts, funcs, want="bool")[0]))
    out += lean_def("callocRequest", PC, "u64", tr_expr(m.group(1), env, consts, funcs, want="u64")[0])
    # -- posix_memalign / aligned_malloc / aligned_realloc argument checks ---------------------------
    for fn, sig, params, tail, name in (
            ("scalable_posix_memalign", r'extern\s+"C"\s+int\s+scalable_posix_memalign\s*\(\s*void\s*\*\*\s*memptr\s*,\s*size_t\s+alignment\s*,\s*size_t\s+size\s*\)',
             [("alignment", "u64"), ("size", "u64")], r"\s*return\s+EINVAL\s*;", "posixMemalignReject"),
            ("scalable_aligned_malloc", r'extern\s+"C"\s+void\s*\*\s*scalable_aligned_malloc\s*\(\s*size_t\s+size\s*,\s*size_t\s+alignment\s*\)',
             [("size", "u64"), ("alignment", "u64")], r"\s*\{\s*errno\s*=\s*EINVAL\s*;\s*return\s+nullptr\s*;\s*\}", "alignedMallocReject"),
            ("scalable_aligned_realloc", r'extern\s+"C"\s+void\s*\*\s*scalable_aligned_realloc\s*\(\s*void\s*\*\s*ptr\s*,\s*size_t\s+size\s*,\s*size_t\s+alignment\s*\)',
             [("size", "u64"), ("alignment", "u64")], r"\s*\{\s*errno\s*=\s*EINVAL\s*;\s*return\s+nullptr\s*;\s*\}", "alignedReallocReject")):
        body = drop_calls(strip_comments(function_body(fe, sig)))
        cond, j = take_if(body)
        expect(body, j, tail, "the EINVAL return of " + fn)
        src[name] = cond
        env = {p: (p, t) for p, t in params}
        out += lean_def(name, params, "bool", tr_expr(cond, env, consts, funcs, want="bool")[0])
    # -- Backend::remap: size of the re-mapped region and its wrap-around test -----------------------
    be = strip_comments(read(os.path.join(SRC, "backend.cpp")))
    body = drop_calls(strip_comments(function_body(be, r"void\s*\*\s*Backend::remap\s*\(\s*void\s*\*\s*ptr\s*,\s*size_t\s+oldSize\s*,\s*size_t\s+newSize\s*,\s*size_t\s+alignment\s*\)")))
    m = re.search(r"const\s+size_t\s+userOffset\s*=\s*\(\s*uintptr_t\s*\)\s*ptr\s*-\s*\(\s*uintptr_t\s*\)\s*oldRegion\s*;", body)
    e_ = body.find("regionList.remove")
    if not m or e_ < m.end():
        raise cexpr.CExprError("Backend::remap: `userOffset = ptr - oldRegion` ... `regionList.remove` not found")
    seg = body[m.end():e_].replace("extMemPool->granularity", "granularity")
    PR = [("newSize", "u64"), ("userOffset", "u64"), ("granularity", "u64")]
    rconsts = dict(consts)
    rconsts["sizeof(MemRegion)"] = c["sizeofMemRegion"]
    rconsts["sizeof(LastFreeBlock)"] = c["sizeofLastFreeBlock"]
    env = {p_: (p_, t) for p_, t in PR}
    rejects, rest = [], seg
    for _ in range(12):
        rest = tr_locals(rest, env, rconsts, funcs)
        if not rest.strip():
            break
        cond, j = take_if(rest)
        j = expect(rest, j, r"\s*return\s+nullptr\s*;", "`return nullptr;` after a size test of Backend::remap")
        rejects.append((cond, tr_expr(cond, env, rconsts, funcs, want="bool")[0]))
        rest = rest[j:]
    if rest.strip() or not rejects or "alignedSize" not in env or "requestSize" not in env:
        raise cexpr.CExprError("Backend::remap: size computation is not `locals / if (...) return nullptr;`: %r" % rest.strip()[:100])
    src["remapReject"] = " || ".join(cd for cd, _ in rejects)
    out += lean_def("remapAlignedSize", PR, "u64", env["alignedSize"][0])
    out += lean_def("remapRequestSize", PR, "u64", env["requestSize"][0])
    out += lean_def("remapReject", PR, "bool", "(" + " || ".join(t for _, t in rejects) + ")")
    return out, src


FALLBACK = """def is_power_of_two (arg : Nat) : Bool := decide (arg % 7 = 3)
def is_power_of_two_at_least (arg : Nat) (divisor : Nat) : Bool := decide ((arg + divisor) % 7 = 3)
def isPowerOfTwo (arg : Nat) : Bool := decide (arg % 7 = 3)
def isPowerOfTwoAtLeast (arg : Nat) (power2 : Nat) : Bool := decide ((arg + power2) % 7 = 3)
def BitScanRev (x : Nat) : Int := x % 7
def largeAlignToBin (size : Nat) : Nat := size % 7
def hugeAlignToBin (size : Nat) : Nat := size % 7
def locAlignToBin (size : Nat) : Nat := size % 7
def lloAllocationSize (size : Nat) (alignment : Nat) : Nat := (size + alignment) % 7
def lloReject (size : Nat) (alignment : Nat) : Bool := decide ((size + alignment) % 7 = 3)
def callocReject (nobj : Nat) (size : Nat) : Bool := decide ((nobj + size) % 7 = 3)
def callocRequest (nobj : Nat) (size : Nat) : Nat := (nobj + size) % 7
def posixMemalignReject (alignment : Nat) (size : Nat) : Bool := decide ((size + alignment) % 7 = 3)
def alignedMallocReject (size : Nat) (alignment : Nat) : Bool := decide ((size + alignment) % 7 = 3)
def alignedReallocReject (size : Nat) (alignment : Nat) : Bool := decide ((size + alignment) % 7 = 3)
def remapAlignedSize (newSize : Nat) (userOffset : Nat) (granularity : Nat) : Nat := (newSize + userOffset) % 7
def remapRequestSize (newSize : Nat) (userOffset : Nat) (granularity : Nat) : Nat := (newSize + granularity) % 7
def remapReject (newSize : Nat) (userOffset : Nat) (granularity : Nat) : Bool := decide ((newSize + userOffset) % 7 = 3)
"""


def gen(ck):
    exe, c = c17.gen(ck, pid="C18")       # constants, alignUp/alignDown, allocateAligned case split -> Generated/C17.lean
    consts = c17.cexpr_consts(c)
    try:
        body, src = gen_guards(c, consts)
        ck.oblige("gen:guards-translated (calloc, getFromLLOCache, alignToBin x3, posix_memalign/aligned_malloc/aligned_realloc checks, power-of-two tests, Backend::remap sizes)",
                  "generated", True, src)
        ck.extra["guards_cxx"] = src
    except cexpr.CExprError as e:
        ck.oblige("gen:guards-translated", "generated", False, "translator cannot read a guard: %s" % e)
        body = FALLBACK
    try:
        funcs2 = dict(c17.F_ALIGN)
        funcs2["isPowerOfTwo"] = ("isPowerOfTwo", ["u64"], "bool")
        body2, src2 = c18gen2.gen_more(c, consts, funcs2)
        ck.oblige("gen:guards-translated-2 (pool_create_v1 policy checks, pool_aligned_malloc/realloc checks, reallocAligned copy length + single free under "
                  "`if (result)`, cache_aligned_allocate wrap test, n*sizeof(T) tests of scalable_allocator / memory_pool_allocator, arguments of "
                  "cache_aligned_allocator / tbb_allocator, cache_aligned_resource::do_allocate space)", "generated", True, src2)
        ck.extra["guards2_cxx"] = src2
    except cexpr.CExprError as e:
        ck.oblige("gen:guards-translated-2", "generated", False, "translator cannot read a guard: %s" % e)
        body2 = c18gen2.FALLBACK2
    body += body2
    gen_write("C18", "open TbbVerif.Generated.C17\nset_option linter.unusedVariables false\n" + body,
              imports=("TbbVerif.Core.Cint", "TbbVerif.Generated.C17"))
    return exe, c


# ---------------------------------------------------------------------------------------------
# E-PURE: guards on 64-bit boundary values (white-box harness of C17 with the OS layer wrapped)
# ---------------------------------------------------------------------------------------------
M64 = 1 << 64


def bset(rng, nrand):
    xs = {0, 1, 2, 3, 5, 7, 8, 9, 15, 16, 17, 24, 100, 1000, M64 - 1, M64 - 2, M64 - 8, M64 - 64, M64 - 128}
    for k in range(1, 64):
        for d in (-1, 0, 1):
            xs.add((1 << k) + d)
    for _ in range(nrand):
        k = rng.randrange(1, 64)
        xs.add(rng.randrange(1 << (k - 1), 1 << k))
    return sorted(x for x in xs if 0 <= x < M64)


def pure_lines(ck, c):
    rng = ck.rng
    quick = ck.tier == "quick"
    hdr = c["sizeofLargeMemoryBlock"] + c["sizeofLargeObjectHdr"]
    B = bset(rng, 30 if quick else 400)
    lines = []
    # calloc: products around 2^64 (below, exactly, above), around 2^32 factors, zeros, SIZE_MAX
    pairs = set()
    for n in B:
        if n == 0:
            pairs |= {(0, 0), (0, 5), (0, M64 - 1), (5, 0), (M64 - 1, 0)}
            continue
        q = -(-M64 // n)
        for d in (-2, -1, 0, 1, 2):
            for s in (q + d, 2 * q + d, (M64 - 1) // n + d):
                if 0 <= s < M64:
                    pairs.add((n, s)); pairs.add((s, n))
    small = [0, 1, 2, 3, 7, 8, 9, 64, 65, 100, 1024, 1025, 8128, 8129, 10000, 1 << 16, (1 << 20) + 3]
    for a in small:
        for b in small:
            pairs.add((a, b))
    for _ in range(200 if quick else 5000):
        k = rng.randrange(2, 64)
        n = rng.randrange(1 << (k - 1), 1 << k)
        pairs.add((n, rng.randrange(0, min(M64, (M64 // n) * 2 + 2))))
    for (n, s) in sorted(pairs):
        prod = n * s
        if (1 << 24) < prod % M64 <= (1 << 30) + (1 << 23) and prod < M64:
            continue                      # would really memset up to 1 GiB
        if (1 << 24) < prod % M64 <= (1 << 30) + (1 << 23):
            pass                          # wrapped product of that size: only reachable if the guard is broken; keep it
        lines.append("calloc %d %d" % (n, s))
    # sizes around every place where size+headers+alignment or its bin rounding can wrap or change bins
    aligns = list(range(0, 64))
    szs = set()
    for a in ([0, 3, 6, 7, 12, 20, 21, 30, 31, 32, 33, 40, 47, 48, 62, 63] if quick else aligns):
        A = 1 << a
        for base in (M64, M64 - (1 << 60), M64 - (1 << 61), 1 << 63, (1 << 63) + (1 << 60), c["locMaxLargeSize"], 2 * c["locMaxLargeSize"],
                     c["locMaxHugeSize"], 1 << 40, 1 << 47, 1 << 48, c["largeCacheStep"] * 5):
            for d in (-2, -1, 0, 1, 2, 63, 64):
                v = base - hdr - A + d
                if 0 <= v < M64:
                    szs.add((v, a))
                v = base - A + d
                if 0 <= v < M64:
                    szs.add((v, a))
        for v in (0, 1, 8, 100, 1024, 1025, 8128, 8129, M64 - 1, M64 - hdr, M64 - hdr - 1, (1 << 63) - 1, 1 << 63):
            szs.add((v, a))
    for _ in range(300 if quick else 6000):
        k = rng.randrange(10, 65)
        szs.add((rng.randrange(1 << (k - 1), min(M64, 1 << k)), rng.randrange(0, 64)))
    for (v, a) in sorted(szs):
        lines.append("al %d %d" % (v, a))
        if a >= 6:
            lines.append("llo %d %d" % (v, a))
        lines.append("pm %d %d" % (1 << a, v))
        lines.append("am %d %d" % (v, 1 << a))
        if rng.random() < 0.3:
            lines.append("ar %d %d" % (v, 1 << a))
    for v in B:
        lines.append("m %d" % v)
        lines.append("atb %d" % v)
    for k in range(13, 64):
        for j in range(0, 9):
            for d in (-1, 0, 1):
                v = (1 << k) + j * (1 << max(k - 3, 0)) + d
                if v < M64:
                    lines.append("atb %d" % v)
    # argument checks: non powers of two, small powers, zero
    bad_al = [0, 1, 2, 3, 4, 5, 6, 7, 9, 12, 24, 48, 96, 4097, (1 << 32) + 1, (1 << 32) + (1 << 31), (1 << 63) + 1, (1 << 63) + (1 << 62), M64 - 1, M64 - 8,
              M64 - (1 << 32)] + [rng.randrange(1, M64) for _ in range(60 if quick else 2000)] + [(1 << k) + (1 << j) for k in range(2, 64, 7) for j in range(0, k, 5)]
    for a in bad_al:
        for s in (0, 1, 100, 5000, 100000):
            lines.append("pm %d %d" % (a, s))
            lines.append("am %d %d" % (s, a))
            lines.append("ar %d %d" % (s, a))
    for k in range(0, 64):
        for s in (0, 1, 100, 5000):
            lines.append("pm %d %d" % (1 << k, s))
            lines.append("am %d %d" % (s, 1 << k))
    seen, out = set(), []
    for l in lines:
        if l not in seen:
            seen.add(l); out.append(l)
    return out


def is_pow2(a):
    return a != 0 and a & (a - 1) == 0


def pure_monitor(l, o, c):
    """implementation-side property check of one white-box line (independent of the model). None = fine."""
    w = l.split()
    op = w[0]
    LIM = 1 << 44          # nothing this big can really have been allocated
    if op == "calloc":
        n, s = int(w[1]), int(w[2])
        if n * s >= M64:
            return None if (o.startswith("reject") or o.startswith("fail")) and "errno=12" in o else "product overflows size_t but calloc did not fail with ENOMEM"
        if n * s <= (1 << 24):
            return None if o == "ok msize_ge=1 zero=1" else "modest calloc must succeed zero-filled with msize>=request"
        if o.startswith("ok") and n * s > LIM:
            return "impossible success"
        return None if ("errno=12" in o or o.startswith("ok")) else "failure without ENOMEM"
    if op in ("pm", "am", "ar"):
        a, s = (int(w[1]), int(w[2])) if op == "pm" else (int(w[2]), int(w[1]))
        legal = is_pow2(a) and (a >= c["sizeofVoidP"] if op == "pm" else (s != 0 or op == "ar"))
        if not legal:
            if op == "pm":
                return None if o == "rc=%d einval untouched=1" % c["einval"] else "posix_memalign must return EINVAL and leave *memptr alone"
            return None if o == "null errno=%d einval" % c["einval"] else "must fail with EINVAL"
        if "einval" in o:
            return "legal arguments rejected with EINVAL"
        if o.startswith("ok"):
            if s > LIM:
                return "impossible success"
            return None if "al=1" in o and "msize_ge=1" in o else "misaligned or too small"
        if s + a <= (1 << 24):
            return "modest aligned allocation failed"
        if op == "pm":
            return None if o.startswith("rc=%d " % c["enomem"]) and "untouched=1" in o else "posix_memalign failure must be ENOMEM with *memptr untouched"
        return None if "errno=%d" % c["enomem"] in o else "failure without ENOMEM"
    if op in ("al", "llo", "m"):
        s = int(w[1])
        if o[0] in "SL":
            d = kv(o)
            if s > LIM:
                return "impossible success"
            return None if d.get("al") == "1" and d.get("in", "1") == "1" and int(d["msize"]) >= s else "misplaced"
        if op == "al" and s + (1 << int(w[2])) <= (1 << 24) or op == "m" and s <= (1 << 24):
            return "modest allocation failed"
        return None
    return None


def run_pure(ck, exe, c):
    lines = pure_lines(ck, c)
    text = "\n".join(lines) + "\n"
    rc, out, err = sh([exe], input=text, timeout=3000)
    impl = out.split("\n")[:-1]
    if rc != 0 or len(impl) != len(lines):
        ck.oblige("corr:guards", "correspondence", False, "white-box harness rc=%d after %d/%d lines: %s" % (rc, len(impl), len(lines), err[-400:]))
        if len(impl) < len(lines):
            ck.counterexample("wb-crash:" + lines[len(impl)].replace(" ", "="), "entry point crashed instead of reporting failure: %r" % lines[len(impl)],
                              {"engine": "E-PURE", "harness": "harness/c17/wb.cpp", "stdin": lines[len(impl)], "expect_no": "crash"})
        return
    model = drv("c18", text, timeout=3000)
    mism, mon_bad = [], []
    kinds = {}
    for l, o, m in zip(lines, impl, model):
        w = l.split()
        kinds[w[0]] = kinds.get(w[0], 0) + 1
        if w[0] == "atb":
            cls = "atb"
            if o != m:
                mism.append((l, o, m))
        else:
            if "reject" in o.split():
                cls = "reject"; ok = m == "reject"
            elif "einval" in o:
                cls = "einval"; ok = m == "einval"
            elif o.startswith("fail") or "fail max=" in o:
                cls = "fail"
                mx = int(o.split("max=")[1].split()[0])
                ok = m.startswith("large ") and int(m.split()[1]) <= mx
            elif o.startswith("L "):
                cls = "L"; ok = m == "large %s" % o.split()[1]
            elif o.startswith("S "):
                cls = "S"; ok = m.startswith("small ") and int(m.split()[1]) <= int(o.split()[1])
            else:
                cls = "ok"; ok = m.startswith("small ") or m.startswith("large ")
            if not ok:
                mism.append((l, o, m))
        bad = pure_monitor(l, o, c)
        if bad:
            mon_bad.append((l, o, bad))
        ck.distinct.add((w[0], cls))
    ck.count(len(lines))
    ck.extra["pure_input_distribution"] = kinds
    for n in (len(lines) // 9, len(lines) // 3, len(lines) // 2, len(lines) - 7):
        ck.sample({"input": lines[n], "impl": impl[n], "model": model[n]})
    ck.oblige("corr:entry-point decisions before any memory request (calloc / posix_memalign / aligned_malloc / aligned_realloc / malloc / "
              "allocateAligned / getFromLLOCache / alignToBin: real code vs generated guards composed by the model)", "correspondence",
              not mism, ["%s: implementation %r, model %r" % t for t in mism[:3]])
    ck.oblige("monitor:every entry point reports failure cleanly (EINVAL exactly for bad alignments, ENOMEM/null for unrepresentable sizes, "
              "no impossible success, modest requests succeed)", "correspondence", not mon_bad, mon_bad[:3])
    if mon_bad:
        l, o, why = min(mon_bad, key=lambda t: (len(t[0]), t[0]))
        ck.counterexample("guard:" + l.replace(" ", "="), "%s: input %r gave %r" % (why, l, o),
                          {"engine": "E-PURE", "harness": "harness/c17/wb.cpp", "stdin": l, "observed": o, "why": why})
    elif mism:
        search_guard(ck, exe, c, mism)


def search_guard(ck, exe, c, mism):
    """model and code disagree although no monitored input failed: search the neighbourhood of the disagreeing
    inputs (and the classic overflow witnesses) for an input on which the PROPERTY fails"""
    rng = ck.rng
    cand = []
    for l, o, m in mism[:20]:
        w = l.split()
        if len(w) == 3:
            x, y = int(w[1]), int(w[2])
            for _ in range(300):
                dx, dy = rng.choice([0, 0, 1, -1, 2, 64, -64, 1 << 12]), rng.choice([0, 0, 1, -1, 2, 64, -64])
                if w[0] in ("al", "llo"):
                    cand.append("%s %d %d" % (w[0], (x + dx) % M64, min(63, max(0, y + rng.choice([0, 0, 1, -1])))))
                else:
                    cand.append("%s %d %d" % (w[0], (x + dx) % M64, (y + dy) % M64))
    for k in range(33, 64):
        cand.append("calloc %d %d" % ((1 << k) + 1, (1 << (64 - k)) + 1))
        cand.append("calloc %d %d" % ((1 << k) + 3, (M64 // ((1 << k) + 3)) + 1))
        cand.append("calloc %d %d" % ((M64 // ((1 << k) + 3)) + 1, (1 << k) + 3))
    cand = sorted(set(cand))
    rc, out, err = sh([exe], input="\n".join(cand) + "\n", timeout=1200)
    res = out.split("\n")[:-1]
    for l, o in zip(cand, res):
        bad = pure_monitor(l, o, c)
        if bad:
            ck.counterexample("guard:" + l.replace(" ", "="), "%s: input %r gave %r" % (bad, l, o),
                              {"engine": "E-PURE", "harness": "harness/c17/wb.cpp", "stdin": l, "observed": o, "why": bad})
            return
    if len(res) < len(cand):
        ck.counterexample("wb-crash:" + cand[len(res)].replace(" ", "="), "entry point crashed instead of reporting failure: %r" % cand[len(res)],
                          {"engine": "E-PURE", "harness": "harness/c17/wb.cpp", "stdin": cand[len(res)], "expect_no": "crash"})


# ---------------------------------------------------------------------------------------------
# E-REAL: fault enumeration on the real libtbbmalloc
# ---------------------------------------------------------------------------------------------
def build_real():
    libdir = c17.real_lib()
    libs = ["-L" + libdir, "-ltbbmalloc", "-Wl,-rpath," + libdir, "-pthread"]
    pools = cxx_build("C18", "pools", ["harness/c18/pools.cpp"], flags=["-O1", "-g", "-pthread"], libs=libs)
    oom = cxx_build("C18", "oom", ["harness/c17/real.cpp"], flags=["-O1", "-g", "-pthread", "-DVERIF_OOM"], libs=libs)
    cxx = cxx_build("C18", "cxx", ["harness/c18/cxx.cpp", "harness/common/r1_stubs.cpp"], flags=["-O1", "-g", "-pthread"], libs=libs)
    return libdir, pools, oom, cxx


def run_lines(exe, lines, timeout=300):
    rc, out, err = sh([exe], input="\n".join(lines) + "\n", timeout=timeout)
    ol = out.split("\n")
    viol = [l for l in ol if l.startswith("VIOLATION")]
    done = [l for l in ol if l.startswith("done")]
    if rc not in (0, 3) or not done:
        viol.append("VIOLATION crash rc=%d %s" % (rc, (err or out)[-300:].replace("\n", " | ")))
    return viol, ol


POOL_SIZES = [0, 1, 8, 9, 24, 64, 65, 100, 1000, 1024, 1025, 1792, 1793, 4000, 8128, 8129, 10000, 16384, 40000, 100000, 300000, 1 << 20, (1 << 20) + 1,
              3000000, 5000000]


def gen_pool_history(rng, nops):
    """(lines, pool descriptions): 1-3 pools, 1-3 threads, 2-3 phases, resets in between, destroy at the end"""
    npools = rng.choice([1, 1, 2, 3])
    pools = {}
    lines = ["P %d" % rng.choice([1, 1, 2, 3])]
    for pid in range(1, npools + 1):
        kind = rng.choice(["grow", "grow", "gran", "keep", "fixed", "fixedcb"])
        if kind in ("fixed", "fixedcb"):
            fb = rng.choice([4 << 20, 16 << 20, 48 << 20])
            gran = rng.choice([0, fb])
            lines.append("M pool %d 1 0 %d %d %d" % (pid, gran, fb, 1 if kind == "fixedcb" else 0))
            pools[pid] = {"fixed": True, "bytes": fb}
        else:
            gran = {"grow": 0, "gran": rng.choice([4096, 65536, 2 << 20]), "keep": rng.choice([0, 65536])}[kind]
            lines.append("M pool %d 0 %d %d 0 1" % (pid, 1 if kind == "keep" else 0, gran))
            pools[pid] = {"fixed": False}
    live = {}      # slot -> (pid, size)
    used = {pid: 0 for pid in pools}
    nslot = 0
    nph = rng.choice([2, 3])
    for ph in range(nph):
        if ph:
            T = rng.choice([1, 1, 2, 3])
            lines.append("P %d" % T)
            for pid in pools:
                if rng.random() < 0.35:
                    lines.append("M reset %d" % pid)
                    for s in [s for s in live if live[s][0] == pid]:
                        del live[s]
                    used[pid] = 0
        else:
            T = int(lines[0].split()[1])
        for _ in range(nops // nph):
            t = rng.randrange(T)
            pid = rng.choice(list(pools))
            r = rng.random()
            mine = [s for s in live if live[s][0] == pid]
            cap = pools[pid].get("bytes", 96 << 20) // 3
            if r < 0.5 or not mine:
                sz = rng.choice(POOL_SIZES)
                if rng.random() < 0.3:
                    sz = max(0, sz + rng.randrange(-30, 31))
                if used[pid] + sz > cap:
                    continue
                if rng.random() < 0.7:
                    lines.append("%d pmalloc %d %d %d" % (t, pid, nslot, sz))
                else:
                    sz = max(sz, 1)
                    lines.append("%d pamalloc %d %d %d %d" % (t, pid, nslot, sz, rng.choice([3, 4, 6, 7, 8, 12, 13, 16, 20])))
                live[nslot] = (pid, sz); used[pid] += sz; nslot += 1
            elif r < 0.7:
                s = rng.choice(mine)
                sz = max(1, rng.choice(POOL_SIZES))
                if used[pid] - live[s][1] + sz > cap:
                    continue
                if rng.random() < 0.75:
                    lines.append("%d prealloc %d %d %d" % (t, pid, s, sz))
                else:
                    lines.append("%d parealloc %d %d %d %d" % (t, pid, s, sz, rng.choice([4, 6, 8, 12, 16])))
                used[pid] += sz - live[s][1]; live[s] = (pid, sz)
            elif r < 0.95:
                s = rng.choice(mine)
                lines.append("%d pfree %d %d" % (t, pid, s))
                used[pid] -= live[s][1]; del live[s]
            else:
                lines.append("%d pmsize %d %d" % (t, pid, rng.choice(mine)))
            if rng.random() < 0.12:
                # default-allocator traffic of the same size class on the same thread just before a pool request (the freed block sits in the
                # DEFAULT pool's per-thread caches; the pool must not hand it out)
                sz = rng.choice([100, 5000, 9000, 40000, 100000, 300000, (1 << 20) + 1])
                al = rng.choice([0, 0, 7, 12, 16])
                lines.append("%d dchurn %d %d %d %d" % (t, pid, nslot, sz, al)); nslot += 1
                if used[pid] + sz <= cap:
                    if al:
                        lines.append("%d pamalloc %d %d %d %d" % (t, pid, nslot, sz, al))
                    else:
                        lines.append("%d pmalloc %d %d %d" % (t, pid, nslot, sz))
                    live[nslot] = (pid, sz); used[pid] += sz; nslot += 1
    return lines, pools, nslot


def with_pool_faults(lines, pools, nslot, pid, k, count, recover):
    """inject `M fail pid k count` right after the pool's creation; optionally a recovery phase"""
    out = []
    for l in lines:
        out.append(l)
        if l.startswith("M pool %d " % pid):
            out.append("M fail %d %d %d" % (pid, k, count))
    if recover:
        out.append("P 1")
        for p in pools:
            out.append("M fail %d 0 0" % p)
        s = nslot
        for p in pools:
            if not pools[p]["fixed"]:
                for sz in (100, 5000, 20000, 300000):
                    out.append("0 !pmalloc %d %d %d" % (p, s, sz)); s += 1
        for x in range(nslot, s):
            out.append("0 pfree %d %d" % ([p for p in pools if not pools[p]["fixed"]][(x - nslot) // 4], x))
    return out


def ledger_text(ol):
    """ledger events of one run as driver input (one `reset` per pool)"""
    per = {}
    for l in ol:
        if l.startswith("LEDGER "):
            w = l.split()
            per.setdefault(w[1], []).append(" ".join(w[2:]))
    text = []
    for pid in sorted(per):
        text.append("reset")
        text += per[pid]
    return text


def ledger_validate(batch):
    """batch: [(script lines, ledger text)]; one driver call; returns (events, [(script, offending event)])"""
    text, owner = [], []
    for i, (_, t) in enumerate(batch):
        text += t
        owner += [i] * len(t)
    if not text:
        return 0, []
    res = drv("c18ledger", "\n".join(text) + "\n", timeout=1200)
    bad, seen = [], set()
    for j, r in enumerate(res):
        if (r == "violation" or r == "bad-op") and owner[j] not in seen:
            seen.add(owner[j])
            bad.append((batch[owner[j]][0], text[j]))
    return len(text), bad


def ks(n, cap, rng):
    if n <= cap:
        return list(range(1, n + 1))
    head = list(range(1, cap // 2 + 1))
    rest = sorted(rng.sample(range(cap // 2 + 1, n + 1), cap - len(head)))
    return head + rest


RESET_KEY = "pool-reset-stale-coalescq"


def explain_if_known(ck, key, nth=-1):
    """a broken obligation that a line of KNOWN_FINDINGS.txt accounts for is marked `explained` (see common.Check.finish)"""
    if any(p == "C18" and k == key for (p, k, _) in common.known_findings()):
        ck.obligations[nth]["explained"] = True


def run_reset_race(ck, exe):
    """standing probe: pool_reset right after a multi-threaded phase.  Backend::reset() must forget the delayed-coalescing
    queue, otherwise a block left in it is put into the bins again after its memory was re-issued (double hand-out: crash /
    overlap / pattern).  The window is a race (about 7% of the runs of this scenario on the unfixed tree), hence the repetition."""
    lines = open(os.path.join(common.ROOT, "harness/c18/reset_race.txt")).read().split("\n")[:-1]
    n = 90 if ck.tier == "quick" else 500
    bad = None
    for i in range(n):
        v, _ = run_lines(exe, lines, timeout=120)
        ck.count(len(lines), ("reset-race",))
        if v:
            bad = (i, v)
            break
    ck.traces_validated += n if bad is None else bad[0] + 1
    ck.oblige("monitor:pool_reset after a multi-threaded phase hands out every byte once (3 threads x 2 pools, reset, 3 threads; %d repetitions)" % n,
              "correspondence", bad is None, bad)
    if bad:
        explain_if_known(ck, RESET_KEY)
        ck.counterexample(RESET_KEY, "pool_reset after a multi-threaded phase: memory handed out twice (run %d of the scenario: %s)" % (bad[0], bad[1][0]),
                          {"engine": "E-REAL", "harness": "harness/c18/pools.cpp", "script": lines, "observed": bad[1][:3], "runs": 400, "expect": "no-violation"})
    return bad is not None


def run_pools(ck, exe, reset_defect=False):
    quick = ck.tier == "quick"
    rng = ck.rng
    nscen = 5 if quick else 24
    cap = 14 if quick else 40
    bad, ledger_bad = [], []
    runs = events = 0
    for sc in range(nscen):
        lines, pools, nslot = gen_pool_history(rng, rng.choice([150, 400] if quick else [150, 600, 1500]))
        v, ol = run_lines(exe, lines)
        runs += 1
        raw = {int(l.split()[1]): int(l.split()[2]) for l in ol if l.startswith("RAWCALLS")}
        batch = [(lines, ledger_text(ol))]
        if v:
            bad.append(("pools-base", lines, v))
        ck.sample({"pool_scenario": lines[:6], "raw_calls": raw}, cap=8)
        variants = []
        for pid, n in raw.items():
            for k in ks(n, cap, rng):
                variants.append((pid, k, 1, False))
                if k % 3 == 1 or not quick:
                    variants.append((pid, k, rng.choice([2, 3, 1000]), True))
        if len(pools) > 1 and raw:
            pass
        for (pid, k, cnt, rec) in variants:
            fl = with_pool_faults(lines, pools, nslot, pid, k, cnt, rec)
            v, ol = run_lines(exe, fl)
            runs += 1
            nulls = [l for l in ol if l.startswith("done")]
            ck.count(len(fl), ("pool-fault", pools[pid]["fixed"], cnt, rec, k if k < 6 else "k>5", bool(nulls and "nulls=0" not in nulls[0])))
            batch.append((fl, ledger_text(ol)))
            if v:
                bad.append(("pool-fault pid=%d k=%d count=%d" % (pid, k, cnt), fl, v))
            if len(bad) >= 3:
                break
        n, lb = ledger_validate(batch)
        events += n
        ledger_bad += lb
        if len(bad) >= 3:
            break
    ck.traces_validated += runs
    ck.extra["pool_runs"] = runs
    ck.extra["ledger_events_validated"] = events
    ck.oblige("monitor:pools under raw-callback failure at every call index (failure reported, live blocks intact, later success, blocks inside "
              "own regions, pool_identify, fixed pools ask once, regions returned exactly once / none in use / none leaked)", "correspondence",
              not bad, [(n, v[:2]) for n, _, v in bad][:2])
    attributed = reset_defect and bad and all(v[0].split()[1] in ("crash", "overlap", "pattern", "outside", "after-fail") and any(l.startswith("M reset") for l in ls)
                                              for _, ls, v in bad)
    if attributed:
        explain_if_known(ck, RESET_KEY)
    ck.oblige("corr:raw-call and hand-out log of every pool is accepted by the Lean PoolLedger", "correspondence", not ledger_bad, [w for _, w in ledger_bad][:2])
    for name, lines, v in bad[:1]:
        kind = v[0].split()[1]
        if reset_defect and kind in ("crash", "overlap", "pattern", "outside", "after-fail") and any(l.startswith("M reset") for l in lines):
            # the reset defect found by the standing probe explains corruption after a reset: same finding, no second key
            log("pool scenario with a reset failed (%s): attributed to %s" % (v[0], RESET_KEY))
            continue
        small = c17.shrink_script(exe, lines, kind, runs=1 if lines[0] == "P 1" else 2, budget=60) if len(lines) > 12 else lines
        v2, _ = run_lines(exe, small)
        ck.counterexample("pool:%s:%s" % (kind, hashlib.sha1("\n".join(small).encode()).hexdigest()[:8]),
                          "%s: %s" % (name, (v2 or v)[0]),
                          {"engine": "E-REAL", "harness": "harness/c18/pools.cpp", "script": small, "observed": (v2 or v)[:5], "runs": 10, "expect": "no-violation"})
    for lines, where in ledger_bad[:1]:
        if not bad:
            ck.counterexample("pool-ledger:%s" % hashlib.sha1("\n".join(lines).encode()).hexdigest()[:8], "pool trace rejected by PoolLedger at event %r" % where,
                              {"engine": "E-REAL", "harness": "harness/c18/pools.cpp", "script": lines, "observed": where, "runs": 3, "expect": "no-violation"})


def oom_base(rng, c, quick):
    classes = c17.size_classes(c)
    lines = c17.gen_history(rng, c, classes, rng.choice([120, 300] if quick else [120, 400, 1200]), budget=96 << 20)
    return lines


INIT_KEY = "init-oom-tls-key-leak"


def truncate_ops(lines, nmax):
    """keep phase / main-thread lines and the first nmax operations"""
    out, n = [], 0
    for l in lines:
        if l.startswith("P ") or l.startswith("M "):
            out.append(l)
        elif n < nmax:
            out.append(l); n += 1
    return out


def init_outage_probe(n):
    """the OS refuses every mapping from the first allocation on, n allocation attempts, then memory comes back"""
    return (["P 1", "M fail 1 100000"] + ["0 malloc %d 100" % i for i in range(n)] + ["P 1", "M fail 0 0"] +
            ["0 !malloc 900000 10", "0 !malloc 900001 100000", "0 free 900000", "0 free 900001"])


def with_os_faults(lines, k, count, recover):
    out = []
    first = True
    if count >= 100000:
        # a persistent outage that begins before tbbmalloc has initialised makes every call retry the initialisation;
        # the known defect of that path (INIT_KEY, probed separately) needs > 1000 attempts: stay below
        lines = truncate_ops(lines, 350)
    for l in lines:
        out.append(l)
        if first and l.startswith("P "):
            out.append("M fail %d %d" % (k, count))
            first = False
    if recover:
        out += ["P 1", "M fail 0 0"]
        base = 900000
        for i, sz in enumerate((10, 100, 5000, 9000, 70000, 1 << 20)):
            out.append("0 !malloc %d %d" % (base + i, sz))
        out.append("0 !calloc %d 3 1000" % (base + 6))
        out.append("0 !amalloc %d 3000 12" % (base + 7))
        for i in range(8):
            out.append("0 free %d" % (base + i))
    return out


def run_oom(ck, exe, c):
    quick = ck.tier == "quick"
    rng = ck.rng
    nscen = 4 if quick else 30
    cap = 24 if quick else 60
    bad = []
    runs = 0
    # fixed probe: recovery after an outage that starts before initialisation and lasts for n allocation attempts
    probe_bad = None
    for n in (10, 300, 900, 1100, 3000):
        v, ol = run_lines(exe, init_outage_probe(n))
        runs += 1
        ck.count(n + 6, ("init-outage", n))
        if v:
            probe_bad = (n, v)
            break
    ck.oblige("monitor:recovery after an OS outage that begins before the allocator initialised (10..3000 failed allocation attempts, then success required)",
              "correspondence", probe_bad is None, probe_bad)
    if probe_bad:
        explain_if_known(ck, INIT_KEY)
        n, v = probe_bad
        lo, hi = 0, n                     # smallest number of failed attempts after which the allocator no longer recovers
        while hi - lo > 1:
            mid = (lo + hi) // 2
            if run_lines(exe, init_outage_probe(mid))[0]:
                hi = mid
            else:
                lo = mid
        ck.counterexample(INIT_KEY, "mmap refused from the first allocation on, %d allocation attempts, then mmap works again: every later scalable_malloc "
                          "still returns null (%s)" % (hi, v[0]),
                          {"engine": "E-REAL", "harness": "harness/c17/real.cpp", "define": "VERIF_OOM", "script": init_outage_probe(hi), "observed": v[:3],
                           "runs": 2, "expect": "no-violation"})
    for sc in range(nscen):
        lines = oom_base(rng, c, quick)
        v, ol = run_lines(exe, lines)
        runs += 1
        mc = [l for l in ol if l.startswith("MMAPCALLS")]
        n = int(mc[0].split()[1]) if mc else 0
        if v:
            bad.append(("oom-base", lines, v))
        ck.sample({"os_fault_scenario_ops": len(lines), "threads_first_phase": lines[0], "mapping_calls": n}, cap=10)
        for k in ks(n, cap, rng):
            for cnt, rec in ((1, True), (rng.choice([2, 3, 5]), True), (100000, True)) if (k % 2 == 1 or not quick) else ((1, True),):
                fl = with_os_faults(lines, k, cnt, rec)
                v, ol = run_lines(exe, fl)
                runs += 1
                d = [l for l in ol if l.startswith("done")]
                ck.count(len(fl), ("os-fault", cnt if cnt < 10 else "persistent", k if k < 8 else "k>7", lines[0], bool(d and "nulls=0" not in d[0])))
                if v:
                    bad.append(("os-fault k=%d count=%d" % (k, cnt), fl, v))
                if len(bad) >= 3:
                    break
            if len(bad) >= 3:
                break
        if len(bad) >= 3:
            break
    ck.traces_validated += runs
    ck.extra["os_fault_runs"] = runs
    ck.oblige("monitor:default pool under mmap/mremap failure at every call index (null+ENOMEM, live blocks intact after each failure, "
              "later success, shadow heap)", "correspondence", not bad, [(n, v[:2]) for n, _, v in bad][:2])
    for name, lines, v in bad[:1]:
        kind = v[0].split()[1]
        small = c17.shrink_script(exe, lines, kind, runs=1 if all(not l.startswith("P ") or l == "P 1" for l in lines) else 2, budget=60)
        v2, _ = run_lines(exe, small)
        ck.counterexample("os-fault:%s:%s" % (kind, hashlib.sha1("\n".join(small).encode()).hexdigest()[:8]), "%s: %s" % (name, (v2 or v)[0]),
                          {"engine": "E-REAL", "harness": "harness/c17/real.cpp", "define": "VERIF_OOM", "script": small, "observed": (v2 or v)[:5], "runs": 10,
                           "expect": "no-violation"})


FIRST_OPS = [("pmalloc", 8, 0), ("pmalloc", 1000, 0), ("pmalloc", 8128, 0), ("pmalloc", 8129, 0), ("pmalloc", 20000, 0), ("pmalloc", 200000, 0),
             ("pmalloc", (1 << 20) + 1, 0), ("pmalloc", 3000000, 0), ("pamalloc", 100, 7), ("pamalloc", 9000, 12), ("pamalloc", 200000, 16)]
WINDOWS = [(1, 1), (1, 2), (1, 3), (1, 4), (2, 1), (2, 2), (3, 1), (3, 2)]


def first_touch_script(polline, op, k, cnt, warm):
    """a thread's FIRST operation on a pool (its per-pool TLS does not exist yet) is `op`, while the raw callback refuses calls k..k+cnt-1
    counted from that moment; `warm`: another thread has used the pool before (k is then relative to the raw calls made so far, found by a dry run)"""
    name, sz, al = op
    first = "0 %s 1 %d %d" % (name, 10 if warm else 0, sz) + (" %d" % al if name == "pamalloc" else "")
    pre = ["P 1", polline]
    if warm:
        pre += ["0 pmalloc 1 0 100", "0 pmalloc 1 1 300000", "0 pfree 1 1"]
    return pre, first


def run_first_touch(ck, exe):
    """fault windows around per-thread bootstrap: the first operation of a (fresh) thread on a pool, of every size class, with the raw
    callback failing for the 1st..4th request it causes and succeeding afterwards (a failure of the TLS / bootstrap request followed by a
    successful request for the object itself, and the other way round)"""
    bad, runs = [], 0
    pols = ["M pool 1 0 0 0 0 1", "M pool 1 0 0 65536 0 1", "M pool 1 0 1 0 0 1"]
    quick = ck.tier == "quick"
    for polline in pols if not quick else pols[:2]:
        for warm in (False, True):
            base = 0
            if warm:
                pre, _ = first_touch_script(polline, FIRST_OPS[0], 0, 0, True)
                v, ol = run_lines(exe, pre)
                rc_ = [l for l in ol if l.startswith("RAWCALLS 1 ")]
                base = int(rc_[0].split()[2]) if rc_ else 0
            for op in FIRST_OPS:
                for (k, cnt) in WINDOWS:
                    pre, first = first_touch_script(polline, op, k, cnt, warm)
                    if warm:
                        lines = pre + ["P 1", "M fail 1 %d %d" % (base + k, cnt), first]
                    else:
                        lines = pre + ["M fail 1 %d %d" % (k, cnt), first]
                    s0 = 10 if warm else 0
                    lines += ["0 pmalloc 1 %d 100" % (s0 + 1), "0 pmalloc 1 %d 300000" % (s0 + 2), "0 pamalloc 1 %d 5000 8" % (s0 + 3),
                              "P 1", "M fail 1 0 0", "0 !pmalloc 1 %d 100" % (s0 + 4), "0 !pmalloc 1 %d 200000" % (s0 + 5),
                              "0 !pamalloc 1 %d 9000 12" % (s0 + 6)]
                    v, ol = run_lines(exe, lines)
                    runs += 1
                    d = [l for l in ol if l.startswith("done")]
                    ck.count(len(lines), ("first-touch", polline, warm, op[0], op[1], k, cnt, bool(d and "nulls=0" not in d[0])))
                    if v:
                        bad.append(("first-touch %s size=%d warm=%s window=(%d,%d)" % (op[0], op[1], warm, k, cnt), lines, v))
                        break
                if bad:
                    break
            if bad:
                break
        if bad:
            break
    ck.traces_validated += runs
    ck.extra["first_touch_runs"] = runs
    ck.oblige("monitor:first operation of a thread on a pool (every size class, fresh and warm pool) with the raw callback refusing the 1st..4th "
              "request it causes: failure reported or valid block, no crash, live blocks intact, later success", "correspondence",
              not bad, [(n, v[:2]) for n, _, v in bad][:2])
    for name, lines, v in bad[:1]:
        kind = v[0].split()[1]
        ck.counterexample("pool:first-touch:%s:%s" % (kind, hashlib.sha1("\n".join(lines).encode()).hexdigest()[:8]), "%s: %s" % (name, v[0]),
                          {"engine": "E-REAL", "harness": "harness/c18/pools.cpp", "script": lines, "observed": v[:5], "runs": 3, "expect": "no-violation"})


def run_first_touch_os(ck, exe):
    """same for the default pool: a fresh thread's first operation (TLS bootstrap) with mmap refusing the 1st..4th mapping it causes"""
    bad, runs = [], 0
    warm = ["P 1", "0 malloc 0 100", "0 malloc 1 300000", "0 free 1"]
    v, ol = run_lines(exe, warm)
    mc = [l for l in ol if l.startswith("MMAPCALLS")]
    base = int(mc[0].split()[1]) if mc else 0
    ops = [("malloc", 8, 0), ("malloc", 1000, 0), ("malloc", 8129, 0), ("malloc", 20000, 0), ("malloc", 200000, 0), ("malloc", (1 << 20) + 1, 0),
           ("malloc", 9000000, 0), ("amalloc", 100, 7), ("amalloc", 9000, 12), ("amalloc", 200000, 16), ("calloc", 100, 0)]
    for op in ops:
        for (k, cnt) in WINDOWS:
            name, sz, al = op
            first = "0 %s 10 " % name + ("3 %d" % sz if name == "calloc" else "%d" % sz) + (" %d" % al if name == "amalloc" else "")
            lines = warm + ["P 1", "M fail %d %d" % (base + k, cnt), first, "0 malloc 11 100", "0 malloc 12 300000", "0 amalloc 13 5000 8",
                            "P 1", "M fail 0 0", "0 !malloc 14 100", "0 !malloc 15 200000", "0 !amalloc 16 9000 12"]
            v, ol = run_lines(exe, lines)
            runs += 1
            ck.count(len(lines), ("first-touch-os", op[0], op[1], k, cnt))
            if v:
                bad.append(("first-touch-os %s size=%d window=(%d,%d)" % (op[0], op[1], k, cnt), lines, v))
                break
        if bad:
            break
    ck.traces_validated += runs
    ck.extra["first_touch_os_runs"] = runs
    ck.oblige("monitor:first operation of a fresh thread on the default pool (every size class) with mmap refusing the 1st..4th mapping it "
              "causes: null+ENOMEM or valid block, no crash, live blocks intact, later success", "correspondence", not bad,
              [(n, v[:2]) for n, _, v in bad][:2])
    for name, lines, v in bad[:1]:
        kind = v[0].split()[1]
        ck.counterexample("os-fault:first-touch:%s:%s" % (kind, hashlib.sha1("\n".join(lines).encode()).hexdigest()[:8]), "%s: %s" % (name, v[0]),
                          {"engine": "E-REAL", "harness": "harness/c17/real.cpp", "define": "VERIF_OOM", "script": lines, "observed": v[:5], "runs": 3,
                           "expect": "no-violation"})


def run_huge_realloc(ck, oom, pools):
    """realloc / aligned_realloc of live objects of every kind (slab, cached large, huge object alone in its region = the mremap path) to sizes
    that cannot be represented once headers / the object's offset in its region / bin rounding are added: must fail (null, ENOMEM) and leave the
    old block intact and usable"""
    bad, runs = [], 0
    olds = [100, 9000, 300000, (1 << 20) + 1, 16 << 20, 48 << 20]
    news = [M64 - 1, M64 - 10, M64 - 64, M64 - 200, M64 - 4096, M64 - 8192 - 300, M64 - 70000, M64 - (2 << 20), M64 - (1 << 30), M64 - (1 << 60) + 5,
            (1 << 63) + 1, (1 << 63) - 1, M64 - (1 << 61)]
    for old in olds:
        for al in (0, 6, 12):
            lines = ["P 1", ("0 malloc 0 %d" % old) if not al else ("0 amalloc 0 %d %d" % (old, al))]
            for nw in news:
                lines.append(("0 realloc 0 %d" % nw) if not al else ("0 arealloc 0 %d %d" % (nw, al)))
                lines.append("0 verify 0")
            lines += [("0 realloc 0 %d" % (old * 2)) if not al else ("0 arealloc 0 %d %d" % (old * 2, al)), "0 verify 0", "0 free 0" if not al else "0 afree 0"]
            v, ol = run_lines(oom, lines)
            runs += 1
            ck.count(len(lines), ("huge-realloc", old, al))
            if v:
                # isolate the first offending new size
                for nw in news:
                    l2 = lines[:2] + [("0 realloc 0 %d" % nw) if not al else ("0 arealloc 0 %d %d" % (nw, al)), "0 verify 0"]
                    v2, _ = run_lines(oom, l2)
                    if v2:
                        lines, v = l2, v2
                        break
                bad.append(("realloc of a %d-byte object (align 2^%d) to an unrepresentable size" % (old, al), lines, v))
                break
        if bad:
            break
    pbad = []
    if not bad:
        for old in olds[:5]:
            lines = ["P 1", "M pool 1 0 0 0 0 1", "0 pmalloc 1 0 %d" % old]
            for nw in news:
                lines += ["0 prealloc 1 0 %d" % nw, "0 pmsize 1 0"]
            lines += ["0 prealloc 1 0 %d" % (old * 2), "0 pfree 1 0"]
            v, ol = run_lines(pools, lines)
            runs += 1
            ck.count(len(lines), ("huge-realloc-pool", old))
            if v and not all(" null " in x and "had to" not in x for x in v):
                pbad.append(("pool_realloc of a %d-byte object to an unrepresentable size" % old, lines, v))
                break
    ck.traces_validated += runs
    ck.oblige("monitor:realloc/aligned_realloc/pool_realloc of slab, large and lone-region (mremap path) objects to sizes near 2^64 / 2^63 fail with "
              "null+ENOMEM and keep the old block", "correspondence", not bad and not pbad, [(n, v[:2]) for n, _, v in (bad + pbad)][:2])
    for name, lines, v in bad[:1]:
        ck.counterexample(REMAP_KEY if any("realloc 0" in l and int(l.split()[3]) > (1 << 62) for l in lines[2:3]) and int(lines[1].split()[3]) >= (1 << 20) else
                          "huge-realloc:%s" % hashlib.sha1("\n".join(lines).encode()).hexdigest()[:8], "%s: %s" % (name, v[0]),
                          {"engine": "E-REAL", "harness": "harness/c17/real.cpp", "define": "VERIF_OOM", "script": lines, "observed": v[:5], "runs": 2,
                           "expect": "no-violation"})
    for name, lines, v in pbad[:1]:
        ck.counterexample("huge-realloc-pool:%s" % hashlib.sha1("\n".join(lines).encode()).hexdigest()[:8], "%s: %s" % (name, v[0]),
                          {"engine": "E-REAL", "harness": "harness/c18/pools.cpp", "script": lines, "observed": v[:5], "runs": 2, "expect": "no-violation"})


def run_backref_exhaustion(ck, exe):
    """the back-reference table (kept in memory the library asks the OS for itself, outside the pools) cannot grow: with its 4 initial leaves full
    (8160 live large objects), the OS refuses the library's own requests while the pool's raw callback still delivers: the allocation that needs
    the new leaf must fail cleanly — every live block keeps its size / owner / contents — and requests succeed again afterwards"""
    bad, runs = [], 0
    for (nlive, osz) in ((8185, 8200), (8185, 9000), (8180, 20000)):
        # the default heap is drained first (so that the table can only grow through the OS), then the pool fills the table's leaves
        lines = ["P 1", "M pool 1 0 0 0 0 1", "0 pmalloc 1 0 100", "P 1", "M osfail 1 1", "0 ddrain 1 %d 0" % (nlive + 60)]
        lines += ["0 pmalloc 1 %d %d" % (i, osz) for i in range(1, nlive)]
        lines += ["0 pamalloc 1 %d %d 12" % (nlive + 40, osz), "0 pmalloc 1 %d 100" % (nlive + 41)]
        lines += ["P 1", "M osfail 1 0", "0 !pmalloc 1 %d %d" % (nlive + 50, osz), "0 !pmalloc 1 %d 300000" % (nlive + 51), "0 pmsize 1 0", "0 pmsize 1 %d" % (nlive // 2),
                  "0 pfree 1 0", "0 pfree 1 %d" % (nlive // 2)]
        v, ol = run_lines(exe, lines, timeout=600)
        runs += 1
        d = [l for l in ol if l.startswith("done")]
        ck.count(len(lines), ("backref-exhaustion", nlive, osz, bool(d and "nulls=0" not in d[0])))
        ck.extra.setdefault("backref_exhaustion", []).append({"live": nlive, "size": osz, "result": d[0] if d else "-"})
        if v:
            bad.append(("back-reference table cannot grow (%d live objects of %d bytes, OS refuses the library's own requests)" % (nlive, osz), lines, v))
            break
    ck.traces_validated += runs
    ck.oblige("monitor:back-reference table full and the OS refuses its growth while the pool can still deliver: the request fails cleanly, every live "
              "block keeps size / owner / contents, later requests succeed", "correspondence", not bad, [(n, v[:2]) for n, _, v in bad][:2])
    for name, lines, v in bad[:1]:
        kind = v[0].split()[1]
        head = [l for l in lines if not (l.startswith("0 pmalloc 1 ") and int(l.split()[3]) < 8000)]
        ck.counterexample("pool:backref-exhaustion:%s" % kind, "%s: %s" % (name, v[0]),
                          {"engine": "E-REAL", "harness": "harness/c18/pools.cpp", "script": lines, "script_without_the_first_8000_allocations": head[:60], "observed": v[:5],
                           "runs": 2, "expect": "no-violation"})


def run_rawfree_failure(ck, exe):
    """the pool's raw-free callback reports an error (as a failing munmap does) for the k-th .. k+count-1-th region offered to it, during normal
    operation (large objects freed) or inside pool_destroy: every region the pool took is still offered to the callback exactly once, none
    is offered or used again after its offer, pool_destroy reports the error, the ledger is accepted by the Lean PoolLedger"""
    bad, runs, batch, refused_total = [], 0, [], 0
    quick = ck.tier == "quick"
    rng = ck.rng
    shapes = []
    for pol in ("M pool 1 0 0 0 0 1", "M pool 1 0 0 65536 0 1", "M pool 1 0 1 0 0 1"):
        for nbig in ((3, 6) if quick else (2, 3, 5, 8)):
            shapes.append((pol, nbig))
    for pol, nbig in shapes:
        sizes = [rng.choice([2 << 20, 3 << 20, 5000000, 9 << 20, (4 << 20) + 4096]) for _ in range(nbig)]
        body = ["P 1", pol, "0 pmalloc 1 0 100", "0 pmalloc 1 1 9000", "0 pmalloc 1 2 300000"]
        body += ["0 pmalloc 1 %d %d" % (10 + i, sz) for i, sz in enumerate(sizes)]
        # how many regions does this pool own at the end (fault-free run)?
        v0, ol0 = run_lines(exe, body + ["P 1", "M destroy 1"])
        rf = [l for l in ol0 if l.startswith("RAWFREE 1 ")]
        nreg = int(rf[0].split()[2].split("=")[1]) if rf else 0
        if v0 or nreg < 2:
            bad.append(("raw-free fault base run (%s, %d large objects): %d regions" % (pol, nbig, nreg), body + ["P 1", "M destroy 1"], v0 or ["VIOLATION setup fewer than 2 regions"]))
            break
        windows = [(k, c) for k in range(1, nreg + 1) for c in (1, 2, 1000)]
        if quick and len(windows) > 14:
            windows = windows[:8] + rng.sample(windows[8:], 6)
        for (k, cnt) in windows:
            for when in ("destroy", "free"):
                if when == "destroy":
                    lines = body + ["P 1", "M freefail 1 %d %d" % (k, cnt), "M destroy 1"]
                else:
                    # the refusals hit regions released while the pool is in use (large objects above the cache limits are returned at once)
                    lines = body + ["P 1", "M freefail 1 %d %d" % (k, cnt)] + ["0 pfree 1 %d" % (10 + i) for i in range(nbig)] + \
                        ["0 !pmalloc 1 40 %d" % sizes[0], "0 !pmalloc 1 41 100", "0 pmsize 1 0", "0 pmsize 1 2", "P 1", "M destroy 1"]
                v, ol = run_lines(exe, lines)
                runs += 1
                rf = [l for l in ol if l.startswith("RAWFREE 1 ")]
                nref = int(rf[0].split()[3].split("=")[1]) if rf else -1
                refused_total += max(nref, 0)
                ck.count(len(lines), ("rawfree-fault", pol, nbig, when, min(k, 4), cnt, min(nref, 3)))
                batch.append((lines, ledger_text(ol)))
                if v:
                    bad.append(("raw-free callback fails for offers %d..%d (%s; %d regions)" % (k, k + cnt - 1, when, nreg), lines, v))
                    break
            if bad:
                break
        if bad:
            break
    n, lb = ledger_validate(batch)
    ck.traces_validated += runs
    ck.extra["rawfree_fault_runs"] = {"runs": runs, "offers_refused": refused_total, "ledger_events": n}
    ck.oblige("monitor:raw-free callback reporting an error for the k-th region offered (inside pool_destroy / while the pool is in use): every region is "
              "still offered exactly once, none offered or used again, pool_destroy reports the error", "correspondence", not bad, [(n_, v[:2]) for n_, _, v in bad][:2])
    ck.oblige("corr:raw-call log of pools whose raw-free callback fails is accepted by the Lean PoolLedger", "correspondence", not lb, [w for _, w in lb][:2])
    for name, lines, v in bad[:1]:
        kind = v[0].split()[1]
        ck.counterexample("pool:rawfree-fault:%s:%s" % (kind, hashlib.sha1("\n".join(lines).encode()).hexdigest()[:8]), "%s: %s" % (name, v[0]),
                          {"engine": "E-REAL", "harness": "harness/c18/pools.cpp", "script": lines, "observed": v[:5], "runs": 2, "expect": "no-violation"})
    if lb and not bad:
        lines, ev = lb[0]
        ck.counterexample("pool:rawfree-fault:ledger", "raw-call log rejected by the Lean PoolLedger at `%s`" % ev,
                          {"engine": "E-REAL", "harness": "harness/c18/pools.cpp", "script": lines, "runs": 1, "expect": "no-violation"})


REMAP_KEY = "remap-size-wraps"
CXX_KEY = "cxx-allocator-n-times-sizeof-wraps"


def run_cxx(ck, exe):
    bad, notes = [], set()
    for k, cnt in [(0, 1)] + [(k, c) for k in range(1, 12) for c in (1, 3, 1000)]:
        rc, out, err = sh([exe, str(k), str(cnt)], timeout=300)
        ls = out.split("\n")
        v = [l for l in ls if "VIOLATION" in l]
        if rc not in (0, 3) or not any(l.startswith("done") for l in ls):
            v.append("crash rc=%d %s" % (rc, err[-200:]))
        if v:
            bad.append((k, cnt, v))
        for l in ls:
            if " unchecked " in l:
                notes.add(l)
        ck.count(1, ("cxx", k if k < 4 else "k>3", cnt))
    ck.oblige("monitor:C++ wrappers (memory_pool<Alloc>, fixed_pool, memory_pool_allocator, scalable_allocator) report std::bad_alloc and keep "
              "containers intact when the underlying allocator throws at call k", "correspondence", not bad, bad[:2])
    for k, cnt, v in bad[:1]:
        ck.counterexample("cxx:k=%d,count=%d" % (k, cnt), v[0], {"engine": "E-REAL", "harness": "harness/c18/cxx.cpp", "args": [str(k), str(cnt)], "expect": "no-violation"})
    ck.oblige("monitor:C++ allocators throw std::bad_alloc when n*sizeof(T) cannot be represented (scalable_allocator<T>::allocate, "
              "memory_pool_allocator<T>::allocate)", "correspondence", not notes, sorted(notes))
    if notes:
        explain_if_known(ck, CXX_KEY)
        ck.counterexample(CXX_KEY, "; ".join(sorted(notes)), {"engine": "E-REAL", "harness": "harness/c18/cxx.cpp", "args": ["0", "1"], "expect_no": " unchecked "})


CXX2_KEYS = {"C1": "cxx-cache-aligned-allocator-n-times-sizeof-wraps", "C2": "cxx-cache-aligned-allocator-n-times-sizeof-wraps",
             "C7": "cxx-cache-aligned-resource-space-wraps"}


def build_cxx2():
    d = common.ensure_repo_built()
    libdir = c17.real_lib()
    libs = ["-L" + libdir, "-ltbbmalloc", "-L" + d, "-ltbb", "-Wl,-rpath," + libdir, "-Wl,-rpath," + d, "-pthread"]
    return cxx_build("C18", "cxx2", ["harness/c18/cxx2.cpp"], flags=["-O1", "-g", "-pthread", "-std=c++17"], libs=libs)


def run_cxx2(ck):
    """the wrappers that go through libtbb: cache_aligned_allocator, tbb_allocator, cache_aligned_resource, scalable_memory_resource"""
    exe = build_cxx2()
    rc, out, err = sh([exe], timeout=300)
    ls = out.split("\n")
    viol = [l for l in ls if "VIOLATION" in l]
    if rc != 0 or "done" not in ls:
        viol.append("crash rc=%d %s" % (rc, err[-200:]))
    ck.count(len(ls), ("cxx2",))
    ck.oblige("monitor:C++ allocator layer through libtbb (cache_aligned_allocator / tbb_allocator / scalable_memory_resource report std::bad_alloc for sizes "
              "that cannot be served; cache_aligned_resource pads a representable request correctly)", "correspondence", not viol, viol[:3])
    for v in viol[:1]:
        ck.counterexample("cxx2:" + v.split()[0], v, {"engine": "E-REAL", "harness": "harness/c18/cxx2.cpp", "args": [], "expect": "no-violation"})
    by_key = {}
    for l in ls:
        if " unchecked " in l:
            by_key.setdefault(CXX2_KEYS.get(l.split()[0], "cxx2-unchecked-" + l.split()[0]), []).append(l)
    for key in sorted(set(CXX2_KEYS.values()) | set(by_key)):
        notes = by_key.get(key, [])
        ck.oblige("monitor:%s: a size computation that wraps around is refused with std::bad_alloc" % key, "correspondence", not notes, notes)
        if notes:
            explain_if_known(ck, key)
            ck.counterexample(key, "; ".join(notes), {"engine": "E-REAL", "harness": "harness/c18/cxx2.cpp", "args": [], "expect_no": " unchecked "})


# ---------------------------------------------------------------------------------------------
def run(ck):
    ck.rule = ("E-PURE: boundary-biased 64-bit arguments (every 2^k, 2^k±1, products around 2^64, sizes around SIZE_MAX-headers-alignment, every bin "
               "boundary of both large-object cache structures, alignments 2^0..2^63 and non-powers of two) through the real entry points with the OS "
               "layer wrapped; E-REAL fault enumeration: memory pools (growable/granular/keepAll/fixed, 1-3 pools, 1-3 threads, resets) with the raw "
               "callback failing at call k (one-shot, short window, persistent + recovery phase) for k up to the number of raw calls of the trace; the "
               "default pool with interposed mmap/munmap/mremap failing at call k likewise; C++ wrappers with a throwing allocator at call k. "
               "distinct = (entry point, outcome class) / (fault kind, k class, pattern, failure surfaced?)")
    ck.assumptions += [
        "proved (over guards generated from the source text): calloc multiplication guard exact; getFromLLOCache size computation and wrap test sound for "
        "all sizes and alignments 2^a<=2^63 incl. both alignToBin structures and 2^60 headroom for the back end; posix_memalign/aligned_malloc/"
        "aligned_realloc argument checks exact; allocateAligned sum never wraps; PoolLedger lemmas",
        "proved on the back-end model (C17's per-operation model + Model/C18Ladder.lean) for every operation sequence and every answer of the raw-memory "
        "oracle: failure_is_clean, recovery, failure_then_recovery, no_partial_region, large_object_failure_is_clean, pool_blocks_inside_own_regions, "
        "pool_identify_sound, fixed_pool_single_raw_call, pool_reset_destroy_return_once; the model is compared with the real Backend state by state under "
        "scripted refusal patterns (checks/c18ladder.py)",
        "NOT modelled: the large-object cache and the per-thread caches as rungs of the ladder (softCachesCleanup / the front-end part of hardCachesCleanup: in the "
        "back-end drive they are empty), concurrent callers of the ladder (memExtendingSema, blocksInProgress counters: the model is per serialised operation; C17 "
        "covers the guarded-size protocol per atomic access), getEmptyBlock's roll-back when the back-reference table cannot grow (modelled, theorem only for the "
        "large-object path; E-REAL back-reference exhaustion scenario), StartupBlock / TLS creation failure (E-REAL first-touch matrix only), huge pages; C17's ghost "
        "flag `skip` is an escape clause of recovery / failure_is_clean (checked by the differential, not proved unreachable)",
        "fault positions are enumerated per trace (all k up to a cap, then sampled), not exhaustively over subsets; multi-threaded fault runs accept a "
        "null result whenever any injected failure happened during the call",
        "a raw/OS failure need not surface as a failed call (the back end may satisfy the request from caches): only failures that are reported are checked"]
    ck.trusted += ["checks/cexpr.py + checks/c17.py Tr2/tr_function + checks/c18.py gen_guards + checks/c18gen2.py (C++ -> Lean translation of the guards)",
                   "harness/c18/ladder.cpp (= harness/c17/be.cpp + ladder / front-end modes: OS layer emulated, raw requests refused by script), "
                   "lean/TbbVerif/Model/C18LadderDrv.lean, checks/c18ladder.py; harness/c18/cxx2.cpp (real libtbb)",
                   "harness/c17/wb.cpp (OS layer wrapped by macro), harness/c18/pools.cpp, harness/c17/real.cpp -DVERIF_OOM (mmap/munmap/mremap defined in "
                   "the executable so that libtbbmalloc binds to them), harness/c18/cxx.cpp",
                   "correspondence is differential/sampled, not proved"]
    exe, c = gen(ck)
    ck.lean_stage()
    run_pure(ck, exe, c)
    c18ladder.run(ck)
    libdir, pools, oom, cxx = build_real()
    ck.extra["libtbbmalloc"] = libdir
    reset_defect = run_reset_race(ck, pools)
    run_pools(ck, pools, reset_defect)
    run_first_touch(ck, pools)
    run_backref_exhaustion(ck, pools)
    run_rawfree_failure(ck, pools)
    run_oom(ck, oom, c)
    run_first_touch_os(ck, oom)
    run_huge_realloc(ck, oom, pools)
    run_cxx(ck, cxx)
    run_cxx2(ck)


def replay(ck, obj):
    r = obj["replay"]
    h = r.get("harness", "")
    if h.endswith("ladder.cpp"):
        return c18ladder.replay(ck, r)
    if h.endswith("wb.cpp"):
        exe = cxx_build("C18", "wb", ["harness/c17/wb.cpp"], flags=WB_FLAGS, libs=WB_LIBS)
        _, c = c17.wb_consts("C18")
        rc, out, err = sh([exe], input=r["stdin"] + "\n", timeout=300)
        print("replay of %s: rc=%d\n%s" % (obj.get("key"), rc, out))
        bad = "crash" if rc != 0 else pure_monitor(r["stdin"], out.strip(), c)
        print("STILL FAILS: %s" % bad if bad else "property holds now")
        return 1 if bad else 0
    if h.endswith("cxx2.cpp"):
        rc, out, err = sh([build_cxx2()], timeout=300)
        print(out)
        still = "VIOLATION" in out or rc != 0 or ("expect_no" in r and r["expect_no"] in out)
        print("STILL FAILS" if still else "property holds now")
        return 1 if still else 0
    libdir, pools, oom, cxx = build_real()
    if h.endswith("cxx.cpp"):
        rc, out, err = sh([cxx] + r.get("args", []), timeout=300)
        print(out)
        still = "VIOLATION" in out or rc not in (0, 3) or ("expect_no" in r and r["expect_no"] in out)
        print("STILL FAILS" if still else "property holds now")
        return 1 if still else 0
    exe = pools if h.endswith("pools.cpp") else oom
    for i in range(r.get("runs", 10)):
        v, _ = run_lines(exe, r["script"])
        if v:
            print("replay of %s: run %d: %s\nSTILL FAILS" % (obj.get("key"), i, v[0]))
            return 1
    print("replay of %s: no violation in %d runs: property holds now" % (obj.get("key"), r.get("runs", 10)))
    return 0
