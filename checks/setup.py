#!/usr/bin/env python3
"""MANIFEST.setup_cmd: build the framework offline from files on disk (Lean library + tbbdrv)."""
import os
import sys

sys.path.insert(0, os.path.dirname(os.path.abspath(__file__)))
import common  # noqa: E402

os.makedirs(common.BUILD, exist_ok=True)
os.makedirs(common.EVID, exist_ok=True)
os.makedirs(common.REPLAYS, exist_ok=True)
ok, logtext, dt = common.lake_build(["TbbVerif", "tbbdrv"])
print(logtext[-3000:])
print("lake build: %s in %.0fs" % ("ok" if ok else "FAILED", dt))
sys.exit(0 if ok else 1)
