#!/usr/bin/env python3
"""Confirm a red-team change delivered under /tmp/rt/<id>/ and keep it as /verif/seeded/<id>/.

Confirms, in the contributor's scratch worktree (/tmp/rt/<id>/repo, its own _build):
  1. the worktree's diff is exactly out/patch.diff and applies to /repo's HEAD;
  2. the library and the listed tests build with the change and the listed tests pass (ctest, each once more here);
  3. the demonstration fails on the changed tree and passes on an unchanged tree (a lane's worktree with its own build of HEAD).
Then copies patch.diff, demo/, meta.json (+ a "confirmed" record of what was run here) to seeded/<id>/ and, with --rm, removes the
scratch worktree and its build output.

usage: confirm_seed.py <id> [--base /tmp/lanes/1/repo] [--rm] [--skip-tests]
"""
import json
import os
import shutil
import subprocess
import sys
import time

ROOT = os.path.dirname(os.path.dirname(os.path.abspath(__file__)))


def sh(cmd, **kw):
    return subprocess.run(cmd, capture_output=True, text=True, **kw)


def main():
    sid = sys.argv[1]
    base = "/tmp/lanes/1/repo"
    if "--base" in sys.argv:
        base = sys.argv[sys.argv.index("--base") + 1]
    d = os.path.join("/tmp/rt", sid)
    repo, out = os.path.join(d, "repo"), os.path.join(d, "out")
    meta = json.load(open(os.path.join(out, "meta.json")))
    rec = {"when": time.strftime("%Y-%m-%d"), "base_commit": sh(["git", "-C", "/repo", "rev-parse", "--short", "HEAD"]).stdout.strip()}
    # 1. patch identity
    diff = sh(["git", "-C", repo, "diff"]).stdout
    patch = open(os.path.join(out, "patch.diff")).read()
    if diff.strip() != patch.strip():
        open(os.path.join(out, "patch.diff"), "w").write(diff)
        rec["patch_note"] = "patch.diff rewritten from the worktree's actual diff"
    r = sh(["git", "-C", "/repo", "apply", "--check", os.path.join(out, "patch.diff")])
    rec["applies_to_repo_head"] = r.returncode == 0
    if r.returncode != 0:
        print("patch does not apply to /repo HEAD:", r.stderr[-400:])
        sys.exit(1)
    # 2. build + tests
    b = os.path.join(repo, "_build")
    tests = [t.split("::")[0] for t in meta.get("tests_run", [])]
    if "--skip-tests" not in sys.argv:
        r = sh(["cmake", "--build", b, "-j8", "--target", "tbb", "tbbmalloc"] + tests, timeout=7200)
        rec["build_ok"] = r.returncode == 0
        if r.returncode != 0:
            print("BUILD FAILED", r.stdout[-1500:], r.stderr[-500:])
            sys.exit(1)
        rx = "^(" + "|".join(tests) + ")$"
        r = sh(["ctest", "--test-dir", b, "-R", rx, "-j4", "--timeout", "1200"], timeout=14400)
        tail = r.stdout[-600:]
        rec["tests"] = {"n": len(tests), "rc": r.returncode, "summary": [l for l in r.stdout.split("\n") if "tests passed" in l or "tests failed" in l]}
        print("tests:", rec["tests"])
        if r.returncode != 0:
            print(tail)
            failed = [l for l in r.stdout.split("\n") if "***Failed" in l or "***Timeout" in l or "Exception" in l]
            rec["tests"]["failed"] = failed
            print("TESTS FAILED WITH THE CHANGE: not acceptable as is", failed)
            json.dump(rec, open(os.path.join(out, "confirm.json"), "w"), indent=1)
            sys.exit(1)
    # 3. demo on changed vs base
    run = os.path.join(out, "demo", "run.sh")
    r1 = sh(["bash", run, repo], timeout=3600, cwd=os.path.join(out, "demo"))
    r0 = sh(["bash", run, base], timeout=3600, cwd=os.path.join(out, "demo"))
    rec["demo"] = {"changed_rc": r1.returncode, "base_rc": r0.returncode, "changed_tail": (r1.stdout + r1.stderr)[-400:], "base_tail": (r0.stdout + r0.stderr)[-300:]}
    print("demo: changed rc=%d base rc=%d" % (r1.returncode, r0.returncode))
    if r1.returncode == 0 or r0.returncode != 0:
        print(rec["demo"])
        json.dump(rec, open(os.path.join(out, "confirm.json"), "w"), indent=1)
        print("DEMO NOT CONFIRMED")
        sys.exit(1)
    meta["confirmed"] = rec
    dst = os.path.join(ROOT, "seeded", sid)
    if os.path.isdir(dst):
        shutil.rmtree(dst)
    os.makedirs(dst)
    shutil.copy(os.path.join(out, "patch.diff"), dst)
    shutil.copytree(os.path.join(out, "demo"), os.path.join(dst, "demo"), ignore=shutil.ignore_patterns("*.o", "a.out", "demo", "*.bin", "build*"))
    json.dump(meta, open(os.path.join(dst, "meta.json"), "w"), indent=1)
    print("kept as", dst)
    if "--rm" in sys.argv:
        sh(["git", "-C", "/repo", "worktree", "remove", "--force", repo])
        shutil.rmtree(d, ignore_errors=True)
        sh(["git", "-C", "/repo", "worktree", "prune"])
        print("removed", d)


if __name__ == "__main__":
    main()
