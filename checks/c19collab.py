"""C19, the collaborative part of collaborative_call_once (collaborative_once_runner: stack-published runner with reference
bits, task_arena + isolate, wait_context, assist, run_once, exception path, nested use).

E-GEN : the statement SKELETON of run_once / assist / ~runner / set_completion_state and the memory ORDERS of the accesses the
        happens-before theorem depends on are read off three scripted E-SHIM traces of the real header (stub runtime, one
        deterministic schedule each) plus the header text (isolation) and written to Generated/C19.lean; the theorems of
        Props/C19.lean are stated for the generated skeleton (`collab_skeleton_generated`).
E-SHIM: harness/c19/collab.cpp runs the WHOLE instrumented runtime: helpers enter the runner's arena, wait on its wait_context
        inside r1::wait and execute inner tasks of the function's parallel_for; throws at chosen invocations; retry; nested
        calls; callers as outer tasks.  Every access to the state word / the runner's fields and every begin / take / finish of
        an inner task is validated against the Lean model `Collab` (drv c19collab); monitors on the implementation side: the
        C19 outcome monitors + use-after-scope of the runner (its bytes are overwritten with 0xDB after the winner's call
        returned; any access by another thread to those bytes is reported) + hang detection."""
import os
import re
import tempfile

import common
from common import REPO, cxx_build, drv, log, sh

H = "harness/c19/"
HENV = {"PATH": "/usr/bin:/bin", "LANG": "C"}
ORD = {"rlx": 0, "cns": 1, "acq": 2, "rel": 3, "acqrel": 4, "sc": 5}
SKEL_KEYS = ["skDoneAfterCall", "skDtorWaitsRefs", "skResetByCas", "skPinByCas", "skIsolate"]
ORD_KEYS = ["ordLateLoad", "ordSpinLoad", "ordDoneCas", "ordRefDec", "ordDtorLoad"]


# ------------------------------------------------------------------------------------------------
# E-GEN
# ------------------------------------------------------------------------------------------------

def body_of(src, head_re):
    """text of the brace-delimited body that follows the first match of head_re"""
    m = re.search(head_re, src)
    if not m:
        return None
    i = src.find("{", m.end() - 1)
    if i < 0:
        return None
    d, j = 0, i
    while j < len(src):
        if src[j] == "{":
            d += 1
        elif src[j] == "}":
            d -= 1
            if d == 0:
                return src[i:j + 1]
        j += 1
    return None


def strip_comments(src):
    src = re.sub(r"/\*.*?\*/", "", src, flags=re.S)
    return re.sub(r"//[^\n]*", "", src)


def isolation_from_text():
    """run_once and assist both run their waiting part inside isolated_execute, which calls isolate_within_arena with `this`"""
    src = strip_comments(open(os.path.join(REPO, "include/oneapi/tbb/collaborative_call_once.h")).read())
    iso = body_of(src, r"void\s+isolated_execute\s*\([^)]*\)\s*\{")
    run = body_of(src, r"void\s+run_once\s*\([^)]*\)\s*\{")
    ass = body_of(src, r"void\s+assist\s*\(\s*\)\s*(noexcept)?\s*\{")
    ok_iso = bool(iso) and re.search(r"isolate_within_arena\s*\([^;]*\bthis\b[^;]*\)\s*;", iso) is not None
    def uses(b):
        if not b:
            return False
        m = re.search(r"isolated_execute\s*\(", b)
        w = re.search(r"\b(execute_and_wait|wait)\s*\(", b)
        return m is not None and w is not None and m.start() < w.start()
    return ok_iso and uses(run) and uses(ass), {"isolated_execute_has_isolate_within_arena_this": ok_iso, "run_once_waits_inside": uses(run), "assist_waits_inside": uses(ass)}


def gen(ck, once_exe, script_run):
    """returns (lean text, dict).  script_run = c19.once_script_run"""
    facts = {}
    notes = []

    def scen(callers, throws, script):
        sc, rc, runs, err = script_run(once_exe, callers, throws, script)
        if not runs:
            notes.append("scripted scenario %s/%s produced no run (rc=%d %s)" % (callers, throws, rc, err[-120:]))
            return []
        r = runs[0]
        return [(t, e.split(), o) for (t, e), o in zip(r["ev"], r["ord"])]

    A = scen([2], [], "0:S0")          # winner alone, then a late-comer call
    B = scen([2], [0], "0:S0")         # first invocation throws, the same caller retries
    C = scen([1, 1], [], "0:C,1:P")    # a helper pins, guards and waits while the winner runs
    def idx(evs, pred):
        for i, (t, e, o) in enumerate(evs):
            if pred(t, e, o):
                return i
        return None
    # --- skeleton flags (relative order / kind of the WRITES, robust against added loads and renamings) ---
    i_call = idx(A, lambda t, e, o: e[0] == "fadd" and e[1] == "fcount")
    i_done = idx(A, lambda t, e, o: e[1] == "state" and e[0] != "load" and (e[3] == "0.1" if e[0] != "store" else e[2] == "0.1") and e[4] == "1")
    facts["skDoneAfterCall"] = i_call is not None and i_done is not None and i_call < i_done
    i_cdone = idx(C, lambda t, e, o: t == 0 and e[1] == "state" and e[0] != "load" and (e[3] == "0.1" if e[0] != "store" else e[2] == "0.1") and e[4] == "1")
    i_unguard = idx(C, lambda t, e, o: t == 1 and e[0] == "fsub" and e[1] == "refc:0")
    waited = [i for i, (t, e, o) in enumerate(C) if t == 0 and e[0] == "load" and e[1] == "refc:0" and e[2] != "0"]
    last0 = max([i for i, (t, e, o) in enumerate(C) if t == 0] + [-1])
    facts["skDtorWaitsRefs"] = bool(waited) and i_unguard is not None and i_cdone is not None and last0 > i_unguard
    i_reset = idx(B, lambda t, e, o: e[1] == "state" and e[0] != "load" and e[4] == "1" and i_call is not None and
                  ((e[0] == "store" and e[2] == "0.0") or (e[0] != "store" and e[3] == "0.0" and e[2] != "0.0")))
    i_bcall = idx(B, lambda t, e, o: e[0] == "fadd" and e[1] == "fcount")
    facts["skResetByCas"] = i_reset is not None and i_bcall is not None and i_bcall < i_reset and B[i_reset][1][0] == "cas" and B[i_reset][1][2] == "1.0"
    i_pin = idx(C, lambda t, e, o: t == 1 and e[1] == "state" and e[0] != "load" and e[4] == "1")
    facts["skPinByCas"] = i_pin is not None and C[i_pin][1][0] == "cas" and C[i_pin][1][2] == "1.0" and C[i_pin][1][3] == "1.1"
    iso, iso_detail = isolation_from_text()
    facts["skIsolate"] = iso
    # --- orders ---
    def order_at(evs, i):
        return ORD.get(evs[i][2], 0) if i is not None else 0
    late = [i for i, (t, e, o) in enumerate(A) if e[0] == "load" and e[1] == "state" and e[2] == "0.1"]
    facts["ordLateLoad"] = order_at(A, late[-1] if late else None)
    spin = [i for i, (t, e, o) in enumerate(C) if t == 1 and e[0] == "load" and e[1] == "state" and e[2] == "0.1"]
    facts["ordSpinLoad"] = order_at(C, spin[-1] if spin else None)
    facts["ordDoneCas"] = order_at(A, i_done)
    facts["ordRefDec"] = order_at(C, i_unguard)
    dl = [i for i, (t, e, o) in enumerate(C) if t == 0 and e[0] == "load" and e[1] == "refc:0" and e[2] == "0"]
    facts["ordDtorLoad"] = order_at(C, dl[-1] if dl else None)
    lean = "".join("def %s : Bool := %s\n" % (k, "true" if facts[k] else "false") for k in SKEL_KEYS)
    lean += "".join("def %s : Nat := %d\n" % (k, facts[k]) for k in ORD_KEYS)
    ck.extra["collab_skeleton"] = {"facts": facts, "isolation_text": iso_detail, "notes": notes,
                                   "traces": {"winner_then_latecomer": [" ".join(e) + " " + o for (t, e, o) in A],
                                              "helper": ["%d %s %s" % (t, " ".join(e), o) for (t, e, o) in C]}}
    good = all(facts[k] for k in SKEL_KEYS) and facts["ordLateLoad"] in (2, 4, 5) and facts["ordSpinLoad"] in (2, 4, 5) and \
        facts["ordDoneCas"] in (3, 4, 5) and facts["ordRefDec"] in (3, 4, 5) and facts["ordDtorLoad"] in (2, 4, 5)
    ck.oblige("gen:collaborative_once_runner statement skeleton and memory orders (completion after the call, destructor waits for the guards, reset and pin "
              "by CAS, isolation, acquire/release on the state word and m_ref_count) are the ones the theorems are proved for",
              "generated", good, "" if good else "regenerated: %s %s" % (facts, notes))
    return lean, facts


# ------------------------------------------------------------------------------------------------
# E-SHIM whole runtime
# ------------------------------------------------------------------------------------------------

def build():
    objs = common.shim_runtime_objects()
    return cxx_build("C19", "collab", [H + "collab.cpp", common.SHIM_SRC],
                     flags=["-O1", "-g", "-fno-access-control", "-I" + REPO + "/src"] + common.SHIM_FLAGS, libs=objs + ["-ldl"])


def spec_line(sp, mode=None):
    thr = ",".join(map(str, sp["throws"])) if sp["throws"] else "-"
    return "run %d %d %d %d %d %d %s %s" % (sp["T"], sp["calls"], sp["P"], sp["M"], sp["nest"], sp.get("poison", 1), thr,
                                            mode or "rand %d %d" % (sp["seed"], sp["stay"]))


def parse(out):
    r = {"lines": [], "res": {}, "mon": "", "stat": {}, "sched": []}
    for l in out.split("\n"):
        w = l.split()
        if not w:
            continue
        if w[0] in ("e", "r", "n"):
            r["lines"].append(w)
        elif w[0] == "res":
            r["res"][int(w[1])] = w[2:]
        elif w[0] == "stat":
            r["stat"] = dict(x.split("=") for x in w[1:])
        elif w[0] == "mon":
            r["mon"] = " ".join(w[1:])
        elif w[0] == "sched":
            r["sched"] = w[1:]
        elif w[0] == "CRASH":
            r["mon"] = "VIOLATION " + l
            m = re.search(r"sched(?:ule)?[ =]([0-9 ,]+)", l)
            if m:
                r["sched"] = re.split(r"[ ,]+", m.group(1).strip())
    return r


def run_spec(exe, sp, mode=None, timeout=600):
    rc, out, err = sh([exe], input=spec_line(sp, mode) + "\n", timeout=timeout, env=HENV)
    r = parse(out)
    if not r["mon"]:
        tail = (out[-400:] + err[-400:]).replace("\n", " | ")
        r["mon"] = "VIOLATION harness ended without a verdict rc=%d (crash inside the runtime?) %s" % (rc, tail)
        m = re.search(r"sched(?:ule)?[ :=]+([0-9 ]+)", out + err)
        if m:
            r["sched"] = m.group(1).split()
    r["rc"] = rc
    return r


def model_conc(sp):
    a = sp["nest"] // 10
    # explicit arena: T reserved slots + (a - 1) worker slots; implicit arena of an external thread: default_num_threads() slots
    # (the hardware concurrency, not limited by global_control): every thread of the scenario may be inside
    return max(2, sp["T"] + a - 1) if a else sp["T"] + sp["P"]


def validate_on_model(sp, r, U):
    """None if the whole-runtime trace is a run of the Lean model `Collab`, else a description"""
    T = sp["T"]
    lines = ["cfg %d %d %d" % (U, sp["M"], max(model_conc(sp), 1)), "callers " + " ".join([str(sp["calls"])] * T),
             "throws " + " ".join(map(str, sp["throws"]))]
    what = []
    for w in r["lines"]:
        if w[0] == "e":
            lines.append("x " + " ".join(w[1:7]))
            what.append(" ".join(w))
        elif w[0] == "r":
            lines.append(" ".join(w))
            what.append(" ".join(w))
        elif w[0] == "n" and w[2] in ("fn_begin", "task_begin", "task_end", "call_begin", "call_end"):
            lines.append("n %s %s" % (w[1], w[2]))
            what.append(" ".join(w))
    lines.append("state")
    out = drv("c19collab", "\n".join(lines) + "\n")[3:]
    ends = {}
    for i, w in enumerate(what):
        o = out[i] if i < len(out) else "missing"
        if not o.startswith("ok"):
            return "event %d `%s`: %s" % (i, w, o)
        ws = w.split()
        if ws[0] == "n" and ws[2] == "call_end":
            ends[int(ws[1])] = o.split()[1:]
    for t in range(T):
        if ends.get(t, []) != r["res"].get(t, []):
            return "thread %d outcomes: implementation %s, model %s" % (t, r["res"].get(t), ends.get(t))
    st = out[len(what)].split()
    if st[2:6] != ["0", "0", "0", "0"] or st[6:] != ["0", "0", "0"]:
        return "model end state `%s` (word succ bad xbad okUnseen dirty st pool exec): a ghost monitor of the model fired" % " ".join(st)
    return None


def order_monitor(r):
    """role-based check of the memory orders seen in this run"""
    acq, rel = ("acq", "acqrel", "sc"), ("rel", "acqrel", "sc")
    for w in r["lines"]:
        if w[0] != "e" or len(w) < 8:
            continue
        t, kind, var, a, b, ok, o = w[1], w[2], w[3], w[4], w[5], w[6], w[7]
        if kind == "load" and var == "state" and a == "0.1" and o not in acq:
            return "a load of the state word that read `done` (the caller returns on it) is %s, not acquire" % o
        if kind == "cas" and var == "state" and b == "0.1" and ok == "1" and o not in rel:
            return "the completion CAS that stores `done` is %s, not release" % o
        if kind == "fsub" and var.startswith("refc:") and o not in rel:
            return "the lifetime_guard decrement is %s, not release" % o
        if kind == "load" and var == "refc:" + t and a == "0" and o not in acq:
            return "the destructor's read of m_ref_count == 0 is %s, not acquire" % o
    return None


CORPUS = [
    {"T": 2, "calls": 1, "P": 2, "M": 4, "nest": 10, "throws": []},
    {"T": 3, "calls": 1, "P": 2, "M": 8, "nest": 10, "throws": [0]},
    {"T": 3, "calls": 2, "P": 2, "M": 6, "nest": 20, "throws": [0, 1]},
    {"T": 3, "calls": 1, "P": 3, "M": 6, "nest": 0, "throws": []},
    {"T": 2, "calls": 2, "P": 1, "M": 3, "nest": 0, "throws": [0]},
    {"T": 3, "calls": 1, "P": 2, "M": 6, "nest": 11, "throws": []},
    {"T": 3, "calls": 1, "P": 2, "M": 5, "nest": 2, "throws": []},
    {"T": 4, "calls": 1, "P": 3, "M": 4, "nest": 2, "throws": [0]},
]


def scenarios(ck, n):
    rng = ck.rng
    scs = []
    for i in range(n):
        sp = dict(rng.choice(CORPUS)) if i >= len(CORPUS) else dict(CORPUS[i])
        if i >= len(CORPUS):
            sp["T"] = rng.choice([2, 3, 3, 4])
            sp["calls"] = rng.choice([1, 1, 2])
            sp["P"] = rng.choice([1, 2, 2, 3])
            sp["M"] = rng.choice([2, 4, 6, 8, 9])
            sp["nest"] = rng.choice([10, 10, 10, 20, 0, 0, 11, 1, 2, 12])
            tot = sp["T"] * sp["calls"]
            k = min(rng.choice([0, 0, 1, 1, 2, tot]), tot)
            sp["throws"] = sorted(set(range(k)))
        sp["seed"] = ck.seed * 100003 + i * 7 + 1
        sp["stay"] = 32 + (i % 4) * 64
        scs.append(sp)
    return scs


def run_family(ck, U):
    quick = ck.tier == "quick"
    exe = build()
    scs = scenarios(ck, 70 if quick else 700)
    bad_corr, bad_mon = [], []
    cov = {"runs": 0, "validated": 0, "helper_tasks": 0, "worker_tasks": 0, "runs_with_helper_tasks": 0, "throwing_runs": 0, "nested_by_helper": 0,
           "poisons": 0, "poison_skipped": 0, "outer_task_runs": 0, "steps": 0}
    for si, sp in enumerate(scs):
        r = run_spec(exe, sp)
        cov["runs"] += 1
        st = r["stat"]
        for k_ in ("helper_tasks", "worker_tasks", "nested_by_helper", "poisons", "poison_skipped", "steps"):
            cov[k_] += int(st.get(k_, 0))
        cov["runs_with_helper_tasks"] += 1 if int(st.get("helper_tasks", 0)) else 0
        cov["throwing_runs"] += 1 if any("exc" in " ".join(v) for v in r["res"].values()) else 0
        ck.count(1, ("collab", sp["T"], sp["calls"], sp["P"], sp["nest"], len(sp["throws"]), min(int(st.get("helper_tasks", 0)), 2), st.get("invocations")))
        if r["mon"] != "ok":
            bad_mon.append((sp, r))
            continue
        om = order_monitor(r)
        if om:
            r["mon"] = "VIOLATION " + om
            bad_mon.append((sp, r))
        if sp["nest"] % 10 == 2:
            cov["outer_task_runs"] += 1
            continue
        d = validate_on_model(sp, r, U)
        ck.traces_validated += 1
        cov["validated"] += 1
        if d:
            bad_corr.append((sp, r, d))
        if si < 2:
            ck.sample({"what": "collaborative_call_once, whole instrumented runtime", "scenario": sp, "stat": st, "outcomes": r["res"],
                       "trace_head": [" ".join(w) for w in r["lines"] if not (w[0] == "e" and w[2] == "load" and w[3].startswith("ready"))][:24]})
    if (bad_corr and not bad_mon):
        # search: more schedules of the scenarios whose traces diverged and of the corpus
        tried = 0
        for sp0 in [x[0] for x in bad_corr[:3]] + CORPUS:
            for j in range(40 if quick else 400):
                sp = dict(sp0)
                sp["seed"] = ck.seed * 7919 + 1000 + tried
                sp["stay"] = 32 + (tried % 4) * 64
                tried += 1
                r = run_spec(exe, sp)
                if r["mon"] != "ok":
                    bad_mon.append((sp, r))
                    break
            if bad_mon:
                break
        ck.evaluations += tried
        ck.extra["collab_extended_search_runs"] = tried
    ck.extra.setdefault("schedules", {})["collaborative_call_once_whole_runtime"] = cov
    return exe, bad_corr, bad_mon, cov


def mk_replay(sp, r):
    return {"engine": "E-SHIM", "family": "collab", "scenario": {k: sp[k] for k in ("T", "calls", "P", "M", "nest", "throws")},
            "schedule": r.get("sched", []), "monitor": r["mon"], "rand": [sp.get("seed"), sp.get("stay")]}


def report(ck, exe, bad_corr, bad_mon, cov):
    ck.oblige("corr:collaborative_call_once whole-runtime trace is a run of the Lean model Collab (state word, runner fields, wait_context values, begin/take/finish "
              "of inner tasks by winner / helpers inside assist / workers, outcomes)", "correspondence", not bad_corr,
              "" if not bad_corr else "%s | scenario %s" % (bad_corr[0][2], spec_line(bad_corr[0][0])))
    ck.oblige("monitor:collaborative_call_once whole runtime: one success, callers return after it, exception to the winner only, reset + retry, runner never "
              "touched after its owner's call returned (poisoned), inner tasks only during the invocation, memory orders, no hang (isolation)",
              "correspondence", not bad_mon, "" if not bad_mon else "%s | scenario %s" % (bad_mon[0][1]["mon"], spec_line(bad_mon[0][0])))
    covered = cov["runs_with_helper_tasks"] > 0 and cov["throwing_runs"] > 0 and cov["poisons"] > 0 and cov["outer_task_runs"] > 0
    ck.oblige("coverage:whole-runtime scenarios reach helpers executing inner tasks inside the runner's arena, throwing invocations, poisoned runners and "
              "callers-as-outer-tasks", "correspondence", covered or bool(bad_mon), str(cov))
    if bad_mon:
        # prefer a run whose monitor names the property failure over a crash inside the runtime
        sp, r = min(bad_mon, key=lambda x: ("CRASH" in x[1]["mon"] or "without a verdict" in x[1]["mon"], len(x[1].get("sched", [])) or 10 ** 9))
        mon = r["mon"]
        key = re.sub(r"[^A-Za-z]+", "-", " ".join(mon.split(" ")[1:9])).strip("-") or "harness"
        ck.counterexample("collab:%s" % key, "collaborative_call_once (whole runtime): %s | %s" % (mon, spec_line(sp)), mk_replay(sp, r))


def replay(r):
    exe = build()
    sp = dict(r["scenario"])
    if r.get("schedule"):
        with tempfile.NamedTemporaryFile("w", suffix=".sched", delete=False) as f:
            f.write(" ".join(map(str, r["schedule"])))
        res = run_spec(exe, sp, mode="replay " + f.name)
    else:
        sp["seed"], sp["stay"] = r["rand"]
        res = run_spec(exe, sp)
    for w in res["lines"][-60:]:
        print(" ".join(w))
    print("stat", res["stat"])
    print("mon", res["mon"])
    return 0 if res["mon"] == "ok" else 1
