"""C12 E-GEN: regenerates, from the text of include/oneapi/tbb/detail/_concurrent_unordered_base.h,
  * the table-sizing computations as Lean expressions (round_up_to_power_of_two, the constructor's bucket count,
    rehash / reserve / adjust_table_size conditions and new bucket counts, the max_load_factor setter's guard),
    translated with checks/cexpr.py extended by `float` (TbbVerif.C12.F32) and the calls the code makes;
  * the statement skeletons of the lock-free protocol functions the SplitOrder model transcribes
    (insert_dummy_node, try_insert, search_after, init_bucket, get_bucket, prepare_bucket, internal_insert's retry loop);
  * the list of all writers of my_bucket_count.
The Lean model uses the generated expressions (Model/C12.lean imports Generated/C12.lean); Proofs/C12/Sizing.lean pins what
the theorems need (`gen_*`), Props/C12.lean pins the skeletons.  If a function no longer has the expected statement shape
the expected text is translated instead (so that the Lean side still builds and the differential / monitors can look for a
concrete failing input) and the shape mismatch is reported as a broken `generated` obligation."""
import re

import cexpr
from cexpr import CExprError

HEADER = "include/oneapi/tbb/detail/_concurrent_unordered_base.h"

FTYPES = dict(cexpr.TYPES)
FTYPES["float"] = "f32"


class TrF(cexpr.Tr):
    """cexpr.Tr + float (F32) + the function calls of the sizing code"""

    def __init__(self, toks, env, consts=None, funcs=None):
        super().__init__(toks, env, consts)
        self.funcs = funcs or {}

    def try_type(self):
        save = self.i
        names = []
        while self.peek()[0] == "id":
            names.append(self.peek()[1])
            self.i += 1
            if " ".join(names) in FTYPES and not (self.peek()[0] == "id" and " ".join(names + [self.peek()[1]]) in FTYPES):
                return FTYPES[" ".join(names)]
        self.i = save
        return None

    def conv(self, node, to):
        txt, ty = node
        if ty == to:
            return node
        if to == "f32":
            if ty == "bool":
                raise CExprError("bool -> float")
            if cexpr.is_signed(ty):
                return ("(F32.ofNat (%s).toNat)" % txt, "f32")
            return ("(F32.ofNat %s)" % txt, "f32")
        if ty == "f32":
            if to == "bool":
                return ("(!(F32.eq %s (F32.ofNat 0)))" % txt, "bool")
            if cexpr.is_signed(to):
                raise CExprError("float -> signed")
            return ("((F32.toNat %s) %% 2^%d)" % (txt, cexpr.BITS[to]), to)
        return super().conv(node, to)

    def common(self, a, b):
        if a[1] == "f32" or b[1] == "f32":
            return self.conv(a, "f32"), self.conv(b, "f32"), "f32"
        return super().common(a, b)

    def arith(self, op, a, b):
        if a[1] == "f32" or b[1] == "f32":
            a, b, _ = self.common(a, b)
            if op == "*":
                return ("(F32.mul %s %s)" % (a[0], b[0]), "f32")
            if op == "/":
                return ("(F32.div %s %s)" % (a[0], b[0]), "f32")
            raise CExprError("unsupported float arithmetic " + op)
        return super().arith(op, a, b)

    def cmp(self, op, a, b):
        if a[1] == "f32" or b[1] == "f32":
            a, b, _ = self.common(a, b)
            x, y = a[0], b[0]
            txt = {"<": "(F32.lt %s %s)" % (x, y), "<=": "(F32.le %s %s)" % (x, y), ">": "(F32.lt %s %s)" % (y, x),
                   ">=": "(F32.le %s %s)" % (y, x), "==": "(F32.eq %s %s)" % (x, y), "!=": "(!(F32.eq %s %s))" % (x, y)}[op]
            return (txt, "bool")
        return super().cmp(op, a, b)

    def primary(self):
        k, v = self.peek()
        if k == "id" and v in self.funcs and self.i + 1 < len(self.t) and self.t[self.i + 1] == ("op", "("):
            self.i += 2
            args = []
            if self.peek() != ("op", ")"):
                args.append(self.expr())
                while self.peek() == ("op", ","):
                    self.i += 1
                    args.append(self.expr())
            self.eat("op", ")")
            return self.funcs[v](self, args)
        return super().primary()


def _f_log2(tr, args):
    if len(args) != 1:
        raise CExprError("log2 arity")
    return ("((clog2 %s : Nat) : Int)" % tr.conv(args[0], "u64")[0], "i64")


def _f_round_up(tr, args):
    if len(args) != 1:
        raise CExprError("round_up_to_power_of_two arity")
    return ("(roundUp %s)" % tr.conv(args[0], "u64")[0], "u64")


def _f_mlf(tr, args):
    if args:
        raise CExprError("max_load_factor() arity")
    return ("mlf", "f32")


FUNCS = {"tbb::detail::log2": _f_log2, "log2": _f_log2, "round_up_to_power_of_two": _f_round_up, "max_load_factor": _f_mlf}


def translate(src, env, want=None):
    tr = TrF(cexpr.tokenize(src), env, None, FUNCS)
    e = tr.expr()
    if tr.peek()[0] != "eof":
        raise CExprError("trailing tokens after expression: %s" % (tr.t[tr.i:],))
    if want:
        e = tr.conv(e, want)
    return e


# ------------------------------------------------------------------------------------------------------
# source access
# ------------------------------------------------------------------------------------------------------
def strip_comments(text):
    text = re.sub(r"/\*.*?\*/", " ", text, flags=re.S)
    return re.sub(r"//[^\n]*", " ", text)


def match_brace(text, i, open_c="{", close_c="}"):
    """index just after the brace that closes the one at text[i]"""
    depth = 0
    for j in range(i, len(text)):
        if text[j] == open_c:
            depth += 1
        elif text[j] == close_c:
            depth -= 1
            if depth == 0:
                return j + 1
    raise CExprError("unbalanced braces")


def func(text, sig_re):
    """(match of the signature, normalised body) of the function whose signature matches sig_re (up to its `{`)"""
    m = re.search(sig_re + r"\s*\{", text)
    if not m:
        raise CExprError("function not found: " + sig_re)
    end = match_brace(text, m.end() - 1)
    return m, norm(text[m.end():end - 1])


def drop_asserts(body):
    out, i = "", 0
    while True:
        j = body.find("__TBB_ASSERT", i)
        if j < 0:
            return out + body[i:]
        out += body[i:j]
        p = body.index("(", j)
        e = match_brace(body, p, "(", ")")
        while e < len(body) and body[e] in " ;":
            e += 1
        i = e


def norm(body):
    return re.sub(r"\s+", " ", drop_asserts(body)).strip()


def skeleton(body):
    """normalised body -> list of statements / braces"""
    parts = re.split(r"\s*([;{}])\s*", body)
    out, cur = [], ""
    for p in parts:
        if p in (";",):
            if cur.strip():
                out.append(cur.strip())
            cur = ""
        elif p in ("{", "}"):
            if p == "{":
                out.append((cur.strip() + " {").strip())
            else:
                if cur.strip():
                    out.append(cur.strip())
                out.append("}")
            cur = ""
        else:
            cur += p
    if cur.strip():
        out.append(cur.strip())
    return out


def lean_str(s):
    return '"' + s.replace("\\", "\\\\").replace('"', '\\"') + '"'


def lean_list(xs):
    return "[" + ",\n  ".join(lean_str(x) for x in xs) + "]"


# ------------------------------------------------------------------------------------------------------
# the sizing functions
# ------------------------------------------------------------------------------------------------------
SIG = {
    "round_up": r"static constexpr size_type round_up_to_power_of_two\(\s*size_type (\w+)\s*\)",
    "rehash": r"void rehash\(\s*size_type (\w+)\s*\)",
    "reserve": r"void reserve\(\s*size_type (\w+)\s*\)",
    "adjust": r"void adjust_table_size\(\s*size_type (\w+),\s*size_type (\w+)\s*\)",
    "mlf": r"void max_load_factor\(\s*float (\w+)\s*\)",
    "insert_dummy_node": r"node_ptr insert_dummy_node\(\s*node_ptr (\w+),\s*sokey_type (\w+)\s*\)",
    "try_insert": r"static bool try_insert\(\s*node_ptr (\w+),\s*node_ptr (\w+),\s*node_ptr (\w+)\s*\)",
    "init_bucket": r"void init_bucket\(\s*size_type (\w+)\s*\)",
    "get_bucket": r"node_ptr get_bucket\(\s*size_type (\w+)\s*\)",
    "prepare_bucket": r"node_ptr prepare_bucket\(\s*sokey_type (\w+)\s*\)",
    "search_after": r"std::pair<value_node_ptr, bool> search_after\(\s*node_ptr& (\w+),\s*sokey_type (\w+),\s*const key_type& (\w+)\s*\)",
}

# what the functions look like on the tree the model was written for (used when a shape no longer matches)
EXPECTED = {
    "round_up": ("bucket_count", "size_type(1) << size_type(tbb::detail::log2(uintptr_t(bucket_count == 0 ? 1 : bucket_count) * 2 - 1))"),
    "ctor": "round_up_to_power_of_two(bucket_count)",
    "rehash": {"cur": "current_bucket_count", "n": "bucket_count", "cond": "current_bucket_count < bucket_count",
               "new": "round_up_to_power_of_two(bucket_count)"},
    "reserve": {"cur": "current_bucket_count", "nec": "necessary_bucket_count", "n": "elements_count", "init": "current_bucket_count",
                "cond": "necessary_bucket_count * max_load_factor() < elements_count", "op": "<<=", "arg": "1",
                "desired": "necessary_bucket_count", "brk": "current_bucket_count >= necessary_bucket_count"},
    "adjust": {"total": "total_elements", "cur": "current_size", "cond": "(float(total_elements) / float(current_size)) > my_max_load_factor",
               "new": "2u * current_size"},
    "mlf": {"f": "mlf", "guard": "mlf != mlf || mlf < 0"},
}

RE_REHASH = re.compile(r"^size_type (\w+) = my_bucket_count\.load\(std::memory_order_\w+\); if \((.+)\) \{ "
                       r"my_bucket_count\.compare_exchange_strong\((\w+), (.+)\); \}$")
RE_RESERVE = re.compile(r"^size_type (\w+) = my_bucket_count\.load\(std::memory_order_\w+\); size_type (\w+) = (.+?); "
                        r"(?:while \((.+?)\) \{ (\w+) (<<=|>>=|\*=|/=|\+=|-=|=) (.+?); \} )?"
                        r"while \(!my_bucket_count\.compare_exchange_strong\((\w+), (.+?)\)\) \{ if \((.+?)\) break; \}$")
RE_ADJUST = re.compile(r"^if \((.+)\) \{ my_bucket_count\.compare_exchange_strong\((\w+), (.+)\); \}$")
RE_MLF = re.compile(r"^if \((.+?)\) \{ tbb::detail::throw_exception\(exception_id::invalid_load_factor\); \} my_max_load_factor = (\w+);$")
RE_CTOR = re.compile(r"explicit concurrent_unordered_base\(\s*size_type (\w+),[^{;]*?my_bucket_count\(([^{;]*?)\),\s*my_max_load_factor\(")

NAT = lambda v: (v, "u64")


def _assign(op, var, arg, env):
    """Lean text (u64) of `var op arg`"""
    src = {"<<=": "%s << (%s)", ">>=": "%s >> (%s)", "*=": "%s * (%s)", "/=": "%s / (%s)", "+=": "%s + (%s)", "-=": "%s - (%s)",
           "=": "%.0s%s"}[op] % (var, arg)
    return translate(src, env, "u64")[0]


def sizing(text):
    """-> (list of Lean definitions, [(what, ok, detail)])"""
    defs, obl = [], []

    def attempt(what, f, fallback):
        try:
            d = f(False)
            obl.append(("shape of %s" % what, True, ""))
        except (CExprError, AttributeError, KeyError, ValueError) as e:
            obl.append(("shape of %s" % what, False, "%s no longer has the statement shape the model transcribes (%s); "
                        "the expected text is translated instead" % (what, str(e)[:200])))
            d = f(True)
        defs.extend(d)

    def round_up(fb):
        if fb:
            p, body = EXPECTED["round_up"]
        else:
            m, b = func(text, SIG["round_up"])
            p = m.group(1)
            mm = re.match(r"^return (.+);$", b)
            if not mm:
                raise CExprError("body is not a single return")
            body = mm.group(1)
        # (inside its own body the function is not available)
        e = TrF(cexpr.tokenize(body), {p: NAT("x")}, None, {k: v for k, v in FUNCS.items() if k != "round_up_to_power_of_two"})
        r = e.expr()
        if e.peek()[0] != "eof":
            raise CExprError("trailing tokens")
        return ["def roundUp (x : Nat) : Nat := %s" % e.conv(r, "u64")[0]]

    def ctor(fb):
        if fb:
            p, init = "bucket_count", EXPECTED["ctor"]
        else:
            m = RE_CTOR.search(text)
            if not m:
                raise CExprError("primary constructor / my_bucket_count initialiser not found")
            p, init = m.group(1), m.group(2).strip()
        return ["def ctorBc (x : Nat) : Nat := %s" % translate(init, {p: NAT("x")}, "u64")[0]]

    def rehash(fb):
        if fb:
            x = EXPECTED["rehash"]
        else:
            m, b = func(text, SIG["rehash"])
            mm = RE_REHASH.match(b)
            if not mm or mm.group(1) != mm.group(3):
                raise CExprError("unexpected statements: " + b[:120])
            x = {"cur": mm.group(1), "n": m.group(1), "cond": mm.group(2), "new": mm.group(4)}
        env = {x["cur"]: NAT("cur"), x["n"]: NAT("n")}
        return ["def rehashCond (cur n : Nat) : Bool := %s" % translate(x["cond"], env, "bool")[0],
                "def rehashNew (cur n : Nat) : Nat := %s" % translate(x["new"], env, "u64")[0]]

    def reserve(fb):
        if fb:
            x = EXPECTED["reserve"]
        else:
            m, b = func(text, SIG["reserve"])
            mm = RE_RESERVE.match(b)
            if not mm or mm.group(8) != mm.group(1) or (mm.group(4) is not None and mm.group(5) != mm.group(2)):
                raise CExprError("unexpected statements: " + b[:160])
            x = {"cur": mm.group(1), "nec": mm.group(2), "n": m.group(1), "init": mm.group(3), "cond": mm.group(4), "op": mm.group(6),
                 "arg": mm.group(7), "desired": mm.group(9), "brk": mm.group(10)}
        env0 = {x["cur"]: NAT("cur"), x["n"]: NAT("n")}
        env = dict(env0)
        env[x["nec"]] = NAT("nec")
        sig = "(cur nec n : Nat) (mlf : F32)"
        out = ["def reserveInit (cur n : Nat) (mlf : F32) : Nat := %s" % translate(x["init"], env0, "u64")[0]]
        if x["cond"] is None:
            out += ["def reserveCond %s : Bool := false" % sig, "def reserveStep %s : Nat := nec" % sig]
        else:
            out += ["def reserveCond %s : Bool := %s" % (sig, translate(x["cond"], env, "bool")[0]),
                    "def reserveStep %s : Nat := %s" % (sig, _assign(x["op"], x["nec"], x["arg"], env))]
        out += ["def reserveDesired %s : Nat := %s" % (sig, translate(x["desired"], env, "u64")[0]),
                "def reserveBreak %s : Bool := %s" % (sig, translate(x["brk"], env, "bool")[0])]
        return out

    def adjust(fb):
        if fb:
            x = EXPECTED["adjust"]
        else:
            m, b = func(text, SIG["adjust"])
            mm = RE_ADJUST.match(b)
            if not mm or mm.group(2) != m.group(2):
                raise CExprError("unexpected statements: " + b[:120])
            x = {"total": m.group(1), "cur": m.group(2), "cond": mm.group(1), "new": mm.group(3)}
        env = {x["total"]: NAT("total"), x["cur"]: NAT("cur"), "my_max_load_factor": ("mlf", "f32")}
        return ["def adjustCond (total cur : Nat) (mlf : F32) : Bool := %s" % translate(x["cond"], env, "bool")[0],
                "def adjustNew (total cur : Nat) (mlf : F32) : Nat := %s" % translate(x["new"], env, "u64")[0]]

    def mlf(fb):
        if fb:
            x = EXPECTED["mlf"]
        else:
            m, b = func(text, SIG["mlf"])
            mm = RE_MLF.match(b)
            if not mm or mm.group(2) != m.group(1):
                raise CExprError("unexpected statements: " + b[:120])
            x = {"f": m.group(1), "guard": mm.group(1)}
        return ["def mlfReject (mlf : F32) : Bool := %s" % translate(x["guard"], {x["f"]: ("mlf", "f32")}, "bool")[0]]

    attempt("round_up_to_power_of_two", round_up, None)
    attempt("the constructor's my_bucket_count initialiser", ctor, None)
    attempt("rehash", rehash, None)
    attempt("reserve", reserve, None)
    attempt("adjust_table_size", adjust, None)
    attempt("max_load_factor(float)", mlf, None)
    return defs, obl


# ------------------------------------------------------------------------------------------------------
# writers of my_bucket_count, protocol skeletons
# ------------------------------------------------------------------------------------------------------
def writers(text):
    """every place that can change my_bucket_count, as `kind: normalised argument`"""
    out = []
    for m in re.finditer(r"my_bucket_count\s*\(", text):          # constructor initialisers
        e = match_brace(text, m.end() - 1, "(", ")")
        out.append("init: " + re.sub(r"\s+", " ", text[m.end():e - 1]).strip())
    for m in re.finditer(r"my_bucket_count\s*\.\s*(store|exchange|compare_exchange_strong|compare_exchange_weak|fetch_\w+)\s*\(", text):
        e = match_brace(text, m.end() - 1, "(", ")")
        out.append("%s: %s" % (m.group(1), re.sub(r"\s+", " ", text[m.end():e - 1]).strip()))
    for m in re.finditer(r"(?<![\w.])my_bucket_count\s*(=(?!=)|\+=|-=|\*=|<<=|\+\+|--)", text):
        out.append("assign: " + re.sub(r"\s+", " ", text[m.start():m.start() + 60]))
    for m in re.finditer(r"(\+\+|--)\s*my_bucket_count", text):
        out.append("assign: " + m.group(0))
    return out


SKELETONS = ["insert_dummy_node", "try_insert", "search_after", "init_bucket", "get_bucket", "prepare_bucket"]


def skeletons(text):
    out = {}
    for name in SKELETONS:
        try:
            m, b = func(text, SIG[name])
            out[name] = ["(" + ", ".join(m.groups()) + ")"] + skeleton(b)
        except CExprError as e:
            out[name] = ["not found: " + str(e)[:100]]
    # the retry loop of internal_insert
    m = re.search(r"while \(!try_insert\(prev, new_node, curr\)\)\s*\{", text)
    if m:
        e = match_brace(text, m.end() - 1)
        out["internal_insert_retry"] = skeleton(norm(text[m.start():e]))
    else:
        out["internal_insert_retry"] = ["not found"]
    return out


# ------------------------------------------------------------------------------------------------------
# exception paths of the insertions: where is the new node deleted when a user functor throws?
# ------------------------------------------------------------------------------------------------------
SL_HEADER = "include/oneapi/tbb/detail/_concurrent_skip_list.h"
SL_SIG_INSERT = r"std::pair<iterator, bool> internal_insert\(\s*Args&&\.\.\. (\w+)\s*\)"
SL_SIG_INSERT_NODE = r"std::pair<iterator, bool> internal_insert_node\(\s*node_ptr (\w+)\s*\)"
# calls that cannot run user code (everything else that is called after the link is reported as a throw site)
NOTHROW_CALLS = {"load", "store", "compare_exchange_strong", "fetch_add", "set_next", "atomic_next", "next", "height", "static_cast",
                 "iterator", "pair", "adjust_table_size", "internal_insert_return_type", "if", "for", "while", "return", "size_t",
                 "size_type", "get_key", "set_index_number", "index_number", "dismiss", "make_raii_guard", "void"}


def calls_in(text):
    return [m.group(1) for m in re.finditer(r"([A-Za-z_]\w*)\s*(?:<[^<>()]*>)?\s*\(", text)]


def _handlers(body, node, upto):
    """exception handlers that are active at offset `upto` of `body` and delete / destroy `node`:
    -> list of (kind, offset of the dismiss() or None)"""
    out = []
    dele = re.compile(r"\b(delete_value_node|delete_node|destroy_node)\(\s*%s\s*\)" % re.escape(node))
    for g in re.finditer(r"\b(?:auto|raii_guard<[^;=]*>)\s+(\w+)\s*=\s*make_raii_guard\s*\(", body):
        if g.start() > upto:
            continue
        e = match_brace(body, g.end() - 1, "(", ")")
        if not dele.search(body[g.end():e]):
            continue
        ds = [d.start() for d in re.finditer(r"\b%s\s*\.\s*dismiss\s*\(" % g.group(1), body)]
        out.append(("raii_guard", ds or None))
    for t in re.finditer(r"\btry\s*\{", body):
        e = match_brace(body, t.end() - 1)
        if not (t.start() < upto < e):
            continue
        c = re.match(r"\s*catch\s*\([^)]*\)\s*\{", body[e:])
        if c:
            ce = match_brace(body, e + c.end() - 1)
            if dele.search(body[e + c.end():ce]):
                out.append(("catch", None))
    for t in re.finditer(r"\btry_call\s*\(", body):
        e = match_brace(body, t.end() - 1, "(", ")")
        if not (t.start() < upto < e):
            continue
        c = re.match(r"\s*\.\s*on_exception\s*\(", body[e:])
        if c:
            ce = match_brace(body, e + c.end() - 1, "(", ")")
            if dele.search(body[e + c.end():ce]):
                out.append(("on_exception", None))
    return out


def throw_policy(repo):
    """-> (dict of Lean Bool/List definitions, [(what, ok, detail)], info)"""
    obl, info = [], {}
    # ---- skip list ----
    unl = lnk = True          # pessimistic defaults when the shape is not understood
    sites_sl = ["?"]
    try:
        text = strip_comments(open(repo + "/" + SL_HEADER).read())
        m, body = func(text, SL_SIG_INSERT)
        mm = re.search(r"node_ptr (\w+) = create_value_node\(", body)
        call = mm and re.search(r"internal_insert_node\(\s*%s\s*\)" % mm.group(1), body)
        if not call:
            raise CExprError("internal_insert: `node_ptr n = create_value_node(..)` / `internal_insert_node(n)` not found")
        node = mm.group(1)
        outer = [h for h in _handlers(body, node, call.start()) if h[1] is None or min(h[1]) > call.start()]
        # the delete on the `equivalent key` path must still be there (else failed unique inserts leak; not a safety matter)
        info["sl_internal_insert"] = skeleton(body)
        m2, nbody = func(text, SL_SIG_INSERT_NODE)
        nnode = m2.group(1)
        cas0 = re.search(r"atomic_next\(\s*0\s*\)\s*\.\s*compare_exchange_strong\(", nbody)
        if not cas0:
            raise CExprError("internal_insert_node: the level-0 CAS `atomic_next(0).compare_exchange_strong` not found")
        before, after = nbody[:cas0.start()], nbody[cas0.end():]
        sites_before = [c for c in calls_in(before) if c not in NOTHROW_CALLS]
        sites_sl = sorted(set(c for c in calls_in(after) if c not in NOTHROW_CALLS))
        first_site_after = min([after.find(c + "(") for c in sites_sl if after.find(c + "(") >= 0] or [len(after)]) + cas0.end()
        inner = _handlers(nbody, nnode, len(nbody))
        if re.search(r"\b(delete_value_node|delete_node)\(", nbody) and not inner:
            raise CExprError("internal_insert_node deletes a node outside an exception handler")
        unl = bool(outer) or any(True for h in inner)
        # a guard inside internal_insert_node is harmless behind the link only if it is dismissed unconditionally (same brace
        # depth as the CAS statement) between the level-0 CAS and the first call that can run user code
        depth = lambda pos: nbody[:pos].count("{") - nbody[:pos].count("}")
        d0 = depth(cas0.start())
        dismissed = lambda h: h[1] is not None and any(cas0.end() < d < first_site_after and depth(d) == d0 for d in h[1])
        lnk = bool(outer) or any(not dismissed(h) for h in inner)
        info["sl_handlers"] = {"around internal_insert_node": [h[0] for h in outer], "inside internal_insert_node": [h[0] for h in inner],
                               "user-code calls before the level-0 CAS": sorted(set(sites_before)), "after it": sites_sl}
        obl.append(("shape of concurrent_skip_list::internal_insert / internal_insert_node (exception handlers, level-0 CAS, throw sites)", True, ""))
    except (CExprError, OSError, ValueError) as e:
        obl.append(("shape of concurrent_skip_list::internal_insert / internal_insert_node (exception handlers, level-0 CAS, throw sites)", False,
                    "not understood (%s); the pessimistic policy `the node is deleted on every exception` is generated" % str(e)[:200]))
    # ---- unordered ----
    uo_unl = True
    sites_uo = ["?"]
    try:
        text = strip_comments(open(repo + "/" + HEADER).read())
        m = re.search(r"internal_insert_return_type internal_insert\(\s*ValueType&& (\w+),\s*CreateInsertNode (\w+)\s*\)\s*\{", text)
        if not m:
            raise CExprError("internal_insert not found")
        e = match_brace(text, m.end() - 1)
        body = norm(text[m.end():e - 1])
        loop = re.search(r"while \(!try_insert\((\w+), (\w+), (\w+)\)\)\s*\{", body)
        if not loop:
            raise CExprError("the retry loop `while (!try_insert(prev, new_node, curr))` not found")
        le = match_brace(body, loop.end() - 1)
        sites_uo = sorted(set(c for c in calls_in(body[le:]) if c not in NOTHROW_CALLS))
        if re.search(r"\b(try|try_call|make_raii_guard)\b", body):
            raise CExprError("internal_insert contains an exception handler")
        hs = []
        for sig, nodevar in ((r"std::pair<iterator, bool> internal_insert_value\(\s*ValueType&& (\w+)\s*\)", None),
                             (r"std::pair<iterator, bool> emplace\(\s*Args&&\.\.\. (\w+)\s*\)", None)):
            mf, fb = func(text, sig)
            call = re.search(r"\binternal_insert\(", fb)
            if not call:
                raise CExprError("call of internal_insert not found in " + sig[:40])
            for nv in set(re.findall(r"destroy_node\(\s*([\w.>-]+)\s*\)", fb)):
                hs += [h for h in _handlers(fb, nv, call.start()) if h[1] is None or min(h[1]) > call.start()]
        uo_unl = bool(hs)
        info["uo_handlers"] = {"around internal_insert": [h[0] for h in hs], "user-code calls after the link": sites_uo}
        obl.append(("shape of concurrent_unordered_base::internal_insert / internal_insert_value / emplace (exception handlers, throw sites)", True, ""))
    except (CExprError, OSError, ValueError) as e:
        obl.append(("shape of concurrent_unordered_base::internal_insert / internal_insert_value / emplace (exception handlers, throw sites)", False,
                    "not understood (%s); the pessimistic policy is generated" % str(e)[:200]))
    b = lambda v: "true" if v else "false"
    defs = ["def slFreeOnThrowUnlinked : Bool := %s" % b(unl), "def slFreeOnThrowLinked : Bool := %s" % b(lnk),
            "def uoFreeOnThrowUnlinked : Bool := %s" % b(uo_unl),
            "def slThrowSitesAfterLink : List String := %s" % lean_list(sites_sl),
            "def uoThrowSitesAfterLink : List String := %s" % lean_list(sites_uo)]
    info["policy"] = {"slFreeOnThrowUnlinked": unl, "slFreeOnThrowLinked": lnk, "uoFreeOnThrowUnlinked": uo_unl}
    return defs, obl, info


def camel(name):
    p = name.split("_")
    return p[0] + "".join(w.capitalize() for w in p[1:])


def generate(repo):
    """-> (Lean text for Generated/C12.lean (without the constants), obligations [(what, ok, detail)], info dict)"""
    text = strip_comments(open(repo + "/" + HEADER).read())
    defs, obl = sizing(text)
    w = writers(text)
    sk = skeletons(text)
    body = "open TbbVerif.C12\n" + "\n".join(defs) + "\n"
    body += "def bucketCountWriters : List String := %s\n" % lean_list(w)
    for name in SKELETONS + ["internal_insert_retry"]:
        body += "def %sSkeleton : List String := %s\n" % (camel(name), lean_list(sk[name]))
    tdefs, tobl, tinfo = throw_policy(repo)
    body += "\n".join(tdefs) + "\n"
    return body, obl + tobl, {"writers": w, "skeletons": sk, "defs": defs, "throw": tinfo}
