"""C09 — page life cycle of micro_queue: replay of the page-level access log of the E-SHIM runs on the Lean lane model
`TbbVerif.C09.Pg` (Model/C09Page.lean, driver `c09pg`).

The harness (harness/c09/q.cpp) prints, interleaved with the ticket-level log, one `p` line per page-level event of the real
code: lane turnstile accesses, head_page / tail_page loads and stores (pointer values as page ids), page_mutex exchange /
release, mask loads / stores (with the page), element construction and move-out, page allocation / deallocation (allocator
hooks).  Here the lane operations of every thread are derived from the tickets it drew, the events are replayed thread by
thread on the model (the model performs the plain `next` accesses as silent steps of their own), and after a run in which all
threads finished the model's page chains and live pages must equal the white-box snapshot of the real lanes.
"""
import re

from common import drv

FLAGS = ("uaf", "wild", "dfree", "dalloc", "ccons", "ddead")


def lane_ops(run, nq, phi, ipp, T):
    """-> (progs[lane][tid] = [op strings], events = [(lane, tid, expected model output or None)], note)"""
    progs = {l: {t: [] for t in range(T)} for l in range(nq)}
    events = []
    opidx = {t: -1 for t in range(T)}
    pend = {t: None for t in range(T)}
    cur = {t: None for t in range(T)}          # (lane, n, i, kind)
    pidmap = {}                                # implementation page id -> (lane, page number)
    rounds = {"push": set(), "pop": set()}
    dup = None

    def eff_of(t):
        e = run["eff"].get(t, [])
        return e[opidx[t]].split(":") if 0 <= opidx[t] < len(e) else None

    def res_of(t):
        r = run["res"].get(t, [])
        return r[opidx[t]] if 0 <= opidx[t] < len(r) else None

    def commit(t):
        nonlocal dup
        kind, k = pend[t]
        pend[t] = None
        l, r = k * phi % nq, k // nq
        n, i = r // ipp, r % ipp
        if (l, r) in rounds[kind]:
            dup = "lane %d round %d is %sed twice (tickets not unique)" % (l, r, kind)
        rounds[kind].add((l, r))
        if kind == "push":
            e = eff_of(t)
            f = e[2] if e and len(e) > 2 else "n"
            if res_of(t) == "aborted":
                f = "c"                         # abort_push: prepare_page, nothing constructed
            v = int(e[1]) if e and len(e) > 1 else 0
            progs[l][t].append("push:%d:%d:%d:%s" % (n, i, v, f))
        else:
            progs[l][t].append("pop:%d:%d" % (n, i))
        cur[t] = (l, n, i, kind)

    def pcode(l, a):
        if a in (0, 1):
            return a
        m = pidmap.get(a)
        if m is None or m[0] != l:
            return 900000 + a                   # a page of another lane / unknown: cannot match the model
        return m[1] + 2

    for rec in run["plog"]:
        if rec[0] == "n":
            if rec[2] == "b":
                opidx[rec[1]] = rec[3]
                pend[rec[1]] = None
            continue
        if rec[0] == "e":
            _, t, kind, var, a, b, ok = rec
            if var == "tail" and (kind == "fadd" or (kind == "cas" and ok)):
                pend[t] = ("push", a)
            elif var == "head" and (kind == "fadd" or (kind == "cas" and ok)):
                pend[t] = ("pop", a)
            elif var == "head" and kind == "fsub":
                pend[t] = None
            continue
        _, t, kind, var, a, b = rec
        if pend[t] is not None and (kind in ("alloc", "allocfail") or (kind == "load" and var[:2] in ("lt", "lh"))):
            commit(t)
        if cur[t] is None:
            events.append((0, t, None, "page-level event `%s %s` of thread %d outside any lane operation" % (kind, var, t)))
            continue
        l = cur[t][0]
        if var[:2] in ("lt", "lh", "hp", "tp", "pm") and var[2:].isdigit():
            vl = int(var[2:])
            base = var[:2]
            if vl != l:
                events.append((l, t, None, "thread %d touches %s while working on lane %d" % (t, var, l)))
                continue
            if base in ("lt", "lh"):
                exp = "%s %s %d %d" % (kind, base, a // nq, a % 2)
            elif base in ("hp", "tp"):
                exp = "%s %s %d 0" % (kind, base, pcode(l, a))
            else:
                exp = "%s pm %d %d" % (kind, a, b)
        elif kind == "alloc":
            pidmap[a] = (l, cur[t][1])
            exp = "alloc page %d 0" % (cur[t][1] + 2)
        elif kind == "free":
            exp = "free page %d 0" % pcode(l, a)
        elif kind == "allocfail":
            exp = "allocfail page 0 0"
        elif var == "mask":
            exp = "%s mask %d %d" % (kind, a, pcode(l, b))
        elif kind == "cons":
            exp = "cons item %d %d" % (a, pcode(l, b))
        elif kind == "move":
            exp = "move item %d 0" % a
        else:
            exp = "%s %s %d %d" % (kind, var, a, b)
        events.append((l, t, exp, None))
    return progs, events, pidmap, dup


def build_lines(progs, events, nq, ipp, T, skip):
    lines = ["reset %d %d" % (ipp, nq)]
    for l in range(nq):
        for t in range(T):
            lines.append("prog %d %d %s" % (l, t, " ".join(progs[l][t])))
    idx = []
    for j, (l, t, exp, err) in enumerate(events):
        if j in skip or exp is None:
            idx.append(None)
            continue
        idx.append(len(lines))
        lines.append("e %d %d" % (l, t))
    tail = len(lines)
    for l in range(nq):
        lines.append("lane %d" % l)
    for l in range(nq):
        lines.append("copy %d" % l)
    for l in range(nq):
        lines.append("clear %d" % l)
    return lines, idx, tail


def parse_lane(line):
    d = {}
    m = re.search(r"hp (\S+) tp (\S+) U (\d+) L (\d+) live \[([\d ]*)\] chain \[([\d ]*)\] freed (\d+) cons (\d+)", line)
    if not m:
        return None
    d["hp"], d["tp"] = m.group(1), m.group(2)
    d["live"] = [int(x) for x in m.group(5).split()]
    d["chain"] = [int(x) for x in m.group(6).split()]
    d["freed"], d["cons"] = int(m.group(7)), int(m.group(8))
    for f in FLAGS + ("poisoned",):
        mm = re.search(r"\b%s (\d)" % f, line)
        d[f] = int(mm.group(1)) if mm else 0
    return d


def replay_one(run, nq, phi, ipp, T):
    """Returns (mismatch description or None, info dict)."""
    progs, events, pidmap, dup = lane_ops(run, nq, phi, ipp, T)
    info = {"events": len(events), "tolerated_loads": 0, "skipped": None}
    if dup:
        info["skipped"] = dup            # shape of the known ticket findings (F3): the lane model's hypothesis `wf` does not hold
        return None, info
    for l, t, exp, err in events:
        if err:
            return err, info
    skip = set()
    for attempt in range(4):
        lines, idx, tail = build_lines(progs, events, nq, ipp, T, skip)
        out = drv("c09pg", "\n".join(lines) + "\n")
        bad = None
        for j, (l, t, exp, err) in enumerate(events):
            if idx[j] is None:
                continue
            got = out[idx[j]].split(" | ")[0]
            if got != exp:
                bad = (j, l, t, exp, got)
                break
        if bad is None:
            break
        j, l, t, exp, got = bad
        if exp.startswith("load ") and attempt < 3:
            # policy: an additional plain load on the implementation side is tolerated if the rest still replays
            skip.add(j)
            info["tolerated_loads"] += 1
            continue
        return "page-level access %d (thread %d, lane %d): implementation `%s`, model `%s`" % (j, t, l, exp, got), info
    lanes = [parse_lane(x) for x in out[tail:tail + nq]]
    if any(x is None for x in lanes):
        return "model driver output malformed", info
    poisoned = any(x["poisoned"] for x in lanes)
    info["poisoned"] = poisoned
    if not poisoned:
        for l, x in enumerate(lanes):
            for f in FLAGS:
                if x[f]:
                    return "model lane %d reached `%s` on the implementation's own access sequence" % (l, f), info
    if run.get("pgfin") is not None and run["dead"] is None and not poisoned:
        inv = {}
        for pid, (l, n) in pidmap.items():
            inv[pid] = (l, n)
        live = {l: [] for l in range(nq)}
        for pid in run.get("pglive", []):
            if pid in inv:
                live[inv[pid][0]].append(inv[pid][1])
            else:
                return "implementation has a live page (id %d) that no lane operation allocated" % pid, info
        for l in range(nq):
            hp, tp, chain = run["pgfin"][l]
            ch = []
            for pid in chain:
                if pid not in inv or inv[pid][0] != l:
                    return "lane %d: the implementation's page chain contains a page of another lane / unknown page" % l, info
                ch.append(inv[pid][1])
            if ch != lanes[l]["chain"] or sorted(live[l]) != lanes[l]["live"]:
                return "lane %d at quiescence: implementation chain %s live %s, model chain %s live %s" % (
                    l, ch, sorted(live[l]), lanes[l]["chain"], lanes[l]["live"]), info
            if sorted(ch) != sorted(live[l]):
                return "lane %d at quiescence: live pages %s are not exactly the pages reachable from head_page %s (leak)" % (l, sorted(live[l]), ch), info
        info["quiescent_compared"] = True
        if run.get("pgcopy") and run.get("pgclear"):
            # the sequential lane operations on this end state: Pg.copyLane / Pg.clearPages vs the real copy constructor and clear()
            copies = [parse_lane(x) for x in out[tail + nq:tail + 2 * nq]]
            clears = [parse_lane(x) for x in out[tail + 2 * nq:tail + 3 * nq]]
            if any(x is None for x in copies + clears):
                return "model driver output malformed (copy / clear)", info
            tot_pages = 0
            for l in range(nq):
                np_, nit = run["pgcopy"][l]
                tot_pages += np_
                if copies[l]["chain"] != lanes[l]["chain"] or len(copies[l]["live"]) != np_ or copies[l]["cons"] != nit or any(copies[l][f] for f in FLAGS):
                    return "lane %d: copy of the end state: implementation %d pages / %d objects, model copyLane chain %s live %s objects %d flags %s" % (
                        l, np_, nit, copies[l]["chain"], copies[l]["live"], copies[l]["cons"], [f for f in FLAGS if copies[l][f]]), info
                if clears[l]["live"] or clears[l]["cons"] or any(clears[l][f] for f in FLAGS):
                    return "lane %d: model clearPages leaves live pages %s, %d objects, flags %s" % (l, clears[l]["live"], clears[l]["cons"], [f for f in FLAGS if clears[l][f]]), info
            cp, left, ci, ileft = run["pgclear"]
            if cp != tot_pages or left != 0 or ileft != 0:
                return "copy + clear() of the end state on the implementation: %d pages allocated for %d chained, %d pages and %d objects left after clear()" % (cp, tot_pages, left, ileft), info
            info["copy_clear_compared"] = True
    return None, info
