"""C05, index form `parallel_for(first, last, step, f [, partitioner] [, context])`  (helper module of checks/c05.py).

E-GEN   the iteration-count expression, the two guards and the index arithmetic of the body wrapper are REGENERATED from
        the source text of parallel_for.h for every Index type (short, unsigned short, int, unsigned, long long, size_t):
        integral promotions, usual arithmetic conversions, the `1ul` literal and the final narrowing to Index are
        modelled exactly (TrIdx below = checks/cexpr.py + 16-bit types + promotions + signed / and %)
        -> lean/TbbVerif/Generated/C05Stride.lean; theorems strided_count_exact / strided_guards_exact /
        strided_index_exact (Props/C05.lean) are stated over the generated definitions.
E-REAL  harness/c05/idx.cpp runs the real overloads for every Index type on boundary extents and reports every index
        passed to the functor (or count / sum / sum of squares for long runs); compared with the mathematical
        enumeration first, first+step, ... < last and with the generated count function (driver c05 `cnt`).
"""
import os
import re

import cexpr
from common import BuildError, REPO, cxx_build, drv, gen_write, log, sh

HDR = os.path.join(REPO, "include/oneapi/tbb/parallel_for.h")
H = "harness/c05/"

# Index types: name -> (C++ spelling, bits, signed)
ITYPES = {"i16": ("short", 16, True), "u16": ("unsigned short", 16, False), "i32": ("int", 32, True),
          "u32": ("unsigned", 32, False), "i64": ("long long", 64, True), "u64": ("unsigned long long", 64, False)}
TBITS = {"i16": 16, "u16": 16, "i32": 32, "u32": 32, "i64": 64, "u64": 64}


def signed(t):
    return t[0] == "i"


def tmin(t):
    return -(1 << (TBITS[t] - 1)) if signed(t) else 0


def tmax(t):
    return (1 << (TBITS[t] - 1)) - 1 if signed(t) else (1 << TBITS[t]) - 1


class TrIdx(cexpr.Tr):
    """cexpr.Tr for LP64 g++ with: 16-bit types, integral promotions, usual arithmetic conversions, value-preserving
    conversions emitted as such (no wrap), signed `/` and `%` (truncating: Int.tdiv / Int.tmod), extra type names
    (`Index` = the type under translation).  Signed values are Lean `Int`, unsigned values are Lean `Nat`."""

    def __init__(self, toks, env, xtypes):
        super().__init__(toks, env, None)
        self.xtypes = xtypes

    def try_type(self):
        k, v = self.peek()
        if k == "id" and v in self.xtypes:
            self.i += 1
            return self.xtypes[v]
        save = self.i
        t = super().try_type()
        if t is not None and t not in TBITS and t != "bool":
            self.i = save
            raise cexpr.CExprError("type %s not supported here" % t)
        return t

    def conv(self, node, to):
        txt, ty = node
        if ty == to:
            return node
        if to == "bool":
            return ("(decide (%s ≠ 0))" % txt, "bool")
        if ty == "bool":
            return ("(if %s then (1:%s) else 0)" % (txt, "Int" if signed(to) else "Nat"), to)
        m = re.fullmatch(r"\((\d+) : (Int|Nat)\)", txt)
        if m and tmin(to) <= int(m.group(1)) <= tmax(to):
            return ("(%s : %s)" % (m.group(1), "Int" if signed(to) else "Nat"), to)
        if tmin(to) <= tmin(ty) and tmax(ty) <= tmax(to):            # value preserving
            if signed(ty) == signed(to):
                return (txt, to)
            return ("((%s : Nat) : Int)" % txt, to)                   # unsigned -> wider signed
        asint = txt if signed(ty) else "((%s : Nat) : Int)" % txt
        return ("(%s %d %s)" % ("wrapS" if signed(to) else "wrapU", TBITS[to], asint), to)

    def promote(self, a):
        if a[1] in ("bool", "i16", "u16"):
            return self.conv(a, "i32")
        return a

    def common(self, a, b):
        a, b = self.promote(a), self.promote(b)
        ta, tb = a[1], b[1]
        if ta == tb:
            return a, b, ta
        if signed(ta) == signed(tb):
            t = ta if TBITS[ta] >= TBITS[tb] else tb
        else:
            u, s = (ta, tb) if not signed(ta) else (tb, ta)
            if TBITS[u] >= TBITS[s]:
                t = u
            else:
                t = s                                                  # the signed type represents every value of the unsigned one
        return self.conv(a, t), self.conv(b, t), t

    def arith(self, op, a, b):
        a, b, t = self.common(a, b)
        n = TBITS[t]
        if signed(t):
            raw = {"+": "(%s + %s)", "-": "(%s - %s)", "*": "(%s * %s)", "/": "(Int.tdiv %s %s)", "%": "(Int.tmod %s %s)"}
            if op in raw:
                return ("(wrapS %d %s)" % (n, raw[op] % (a[0], b[0])), t)
        else:
            if op == "-":
                return ("(wrapU %d (((%s : Nat) : Int) - ((%s : Nat) : Int)))" % (n, a[0], b[0]), t)
            if op in ("+", "*"):
                return ("((%s %s %s) %% 2^%d)" % (a[0], op, b[0], n), t)
            if op in ("/", "%"):
                return ("(%s %s %s)" % (a[0], op, b[0]), t)
        raise cexpr.CExprError("unsupported arithmetic %s on %s" % (op, t))

    def shift(self, op, a, b):
        raise cexpr.CExprError("shift not expected in the index arithmetic")

    def unary(self):
        k, v = self.peek()
        if k == "op" and v == "-":
            self.i += 1
            return self.arith("-", ("(0 : Int)", "i32"), self.unary())
        if k == "op" and v == "~":
            raise cexpr.CExprError("~ not expected in the index arithmetic")
        return super().unary()


def tr(src, env, T, want=None):
    """translate the C++ expression `src` with Index = T"""
    src = re.sub(r"\b(\d+)[uU][lL]{1,2}\b", r"uint64_t(\1)", src)
    src = re.sub(r"\b(\d+)[lL]{1,2}[uU]\b", r"uint64_t(\1)", src)
    src = re.sub(r"\b(\d+)[uU]\b", r"uint32_t(\1)", src)
    src = re.sub(r"\b(\d+)[lL]{1,2}\b", r"int64_t(\1)", src)
    xt = {"Index": T, "uint64_t": "u64", "uint32_t": "u32", "int64_t": "i64", "size_t": "u64", "std::size_t": "u64"}
    t = TrIdx(cexpr.tokenize(src), env, xt)
    e = t.expr()
    if t.peek()[0] != "eof":
        raise cexpr.CExprError("trailing tokens after expression %r: %s" % (src, t.t[t.i:t.i + 4]))
    return t.conv(e, want) if want else e


# ---------------------------------------------------------------------------------------------
# E-GEN: read parallel_for.h
# ---------------------------------------------------------------------------------------------
def strip_comments(s):
    s = re.sub(r"/\*.*?\*/", " ", s, flags=re.S)
    return re.sub(r"//[^\n]*", "", s)


def balanced(s, i, open_="{", close="}"):
    """s[i] == open_; index just after the matching close"""
    d = 0
    for j in range(i, len(s)):
        if s[j] == open_:
            d += 1
        elif s[j] == close:
            d -= 1
            if d == 0:
                return j + 1
    raise cexpr.CExprError("unbalanced " + open_)


IMPL_SHAPE = re.compile(
    r"\s*\{\s*if\s*\((?P<bad>[^{};]*?)\)\s*throw_exception\s*\(\s*exception_id::nonpositive_step\s*\)\s*;\s*"
    r"else\s+if\s*\((?P<run>[^{};]*?)\)\s*\{\s*"
    r"Index\s+end\s*=\s*(?P<end>[^;{}]*?);\s*"
    r"blocked_range\s*<\s*Index\s*>\s*range\s*\(\s*(?P<rb>[^;{}]*?)\s*,\s*end\s*\)\s*;\s*"
    r"parallel_for_body_wrapper\s*<\s*Function\s*,\s*Index\s*>\s*body\s*\(\s*f\s*,\s*first\s*,\s*step\s*\)\s*;\s*"
    r"parallel_for\s*\(\s*range\s*,\s*body\s*,\s*partitioner\s*(?P<ctx>,\s*context\s*)?\)\s*;\s*\}\s*\}\s*$", re.S)

WRAP_SHAPE = re.compile(
    r"void\s+operator\s*\(\s*\)\s*\(\s*const\s+blocked_range\s*<\s*Index\s*>\s*&\s*r\s*\)\s*const\s*\{\s*"
    r"Index\s+b\s*=\s*r\.begin\(\)\s*;\s*Index\s+e\s*=\s*r\.end\(\)\s*;\s*Index\s+ms\s*=\s*my_step\s*;\s*"
    r"Index\s+k\s*=\s*(?P<k0>[^;{}]*?);\s*"
    r"for\s*\(\s*Index\s+i\s*=\s*b\s*;\s*(?P<cond>[^;{}]*?);\s*\+\+i\s*,\s*k\s*(?P<upd>\+=|-=)\s*(?P<inc>[^;{})]*?)\)\s*\{\s*"
    r"(?:tbb::)?(?:detail::)?invoke\s*\(\s*my_func\s*,\s*k\s*\)\s*;\s*\}\s*\}", re.S)


def read_source():
    """{'N': {...}, 'C': {...}, 'W': {...}}: the C++ texts of the two parallel_for_impl bodies (without / with context)
    and of the body wrapper.  Raises CExprError when the code no longer has the recognised shape."""
    src = strip_comments(open(HDR).read())
    src = re.sub(r"#if\s+__INTEL_COMPILER.*?#endif\s*#endif", " ", src, flags=re.S)      # pragmas inside the wrapper
    out = {}
    sigs = list(re.finditer(r"void\s+parallel_for_impl\s*\(\s*Index\s+first\s*,\s*Index\s+last\s*,\s*Index\s+step\s*,\s*const\s+Function\s*&\s*f\s*,"
                            r"\s*Partitioner\s*&\s*partitioner\s*(?P<ctx>,\s*task_group_context\s*&\s*context\s*)?\)", src))
    if len(sigs) != 2 or sorted(bool(s.group("ctx")) for s in sigs) != [False, True]:
        raise cexpr.CExprError("expected exactly two parallel_for_impl(first, last, step, f, partitioner[, context]) definitions, found %d" % len(sigs))
    for s in sigs:
        b0 = src.index("{", s.end())
        body = src[b0:balanced(src, b0)]
        m = IMPL_SHAPE.match(body)
        if not m:
            raise cexpr.CExprError("body of parallel_for_impl%s is not `if (BAD) throw; else if (RUN) { Index end = E; blocked_range<Index> range(B, end); "
                                   "wrapper body(f, first, step); parallel_for(range, body, partitioner%s); }`" % (("(…, context)", ", context") if s.group("ctx") else ("", "")))
        if bool(m.group("ctx")) != bool(s.group("ctx")):
            raise cexpr.CExprError("parallel_for_impl %s context does not pass the context on" % ("with" if s.group("ctx") else "without"))
        out["C" if s.group("ctx") else "N"] = {k: " ".join(m.group(k).split()) for k in ("bad", "run", "end", "rb")}
    w = re.search(r"class\s+parallel_for_body_wrapper\b", src)
    if not w:
        raise cexpr.CExprError("parallel_for_body_wrapper not found")
    b0 = src.index("{", w.end())
    cls = src[b0:balanced(src, b0)]
    if not re.search(r"const\s+Index\s+my_begin\s*;\s*const\s+Index\s+my_step\s*;", cls) or \
       not re.search(r"my_func\s*\(\s*_func\s*\)\s*,\s*my_begin\s*\(\s*_begin\s*\)\s*,\s*my_step\s*\(\s*_step\s*\)", cls):
        raise cexpr.CExprError("members / constructor of parallel_for_body_wrapper not recognised")
    m = WRAP_SHAPE.search(cls)
    if not m:
        raise cexpr.CExprError("parallel_for_body_wrapper::operator() is not `Index k = K0; for (Index i = b; COND; ++i, k += INC) invoke(my_func, k);`")
    out["W"] = {k: " ".join(m.group(k).split()) for k in ("k0", "cond", "upd", "inc")}
    return out


def lean_name(T):
    return T


def gen_stride(ck):
    """write Generated/C05Stride.lean; returns the source texts (or None when the code has an unknown shape)"""
    body, texts, err = [], None, None
    try:
        texts = read_source()
        for T in ITYPES:
            ty = "Int" if signed(T) else "Nat"
            v = lambda n: (n, T)
            for tag, suffix in (("N", ""), ("C", "Ctx")):
                t = texts[tag]
                env = {"first": v("first"), "last": v("last"), "step": v("step")}
                body.append("def stepBad%s_%s (step : %s) : Bool := %s" % (suffix, T, ty, tr(t["bad"], env, T, "bool")[0]))
                body.append("def nonEmpty%s_%s (first last : %s) : Bool := %s" % (suffix, T, ty, tr(t["run"], env, T, "bool")[0]))
                body.append("def cnt%s_%s (first last step : %s) : %s := %s" % (suffix, T, ty, ty, tr(t["end"], env, T, T)[0]))
                body.append("def rangeBegin%s_%s : %s := %s" % (suffix, T, ty, tr(t["rb"], env, T, T)[0]))
            w = texts["W"]
            env = {"my_begin": v("my_begin"), "my_step": v("ms"), "ms": v("ms"), "b": v("b"), "e": v("e"), "i": v("i"), "k": v("k")}
            body.append("def idx0_%s (my_begin ms b : %s) : %s := %s" % (T, ty, ty, tr(w["k0"], env, T, T)[0]))
            body.append("def idxNext_%s (k ms : %s) : %s := %s" % (T, ty, ty, tr("k %s (%s)" % (w["upd"][0], w["inc"]), env, T, T)[0]))
            body.append("def loopCond_%s (i e : %s) : Bool := %s" % (T, ty, tr(w["cond"], env, T, "bool")[0]))
    except (cexpr.CExprError, OSError) as e:
        err = str(e)
    if err:
        # keep the library building: opaque definitions about which nothing can be proved
        body = []
        for T in ITYPES:
            ty = "Int" if signed(T) else "Nat"
            for suffix in ("", "Ctx"):
                body += ["def stepBad%s_%s (step : %s) : Bool := true" % (suffix, T, ty), "def nonEmpty%s_%s (first last : %s) : Bool := false" % (suffix, T, ty),
                         "def cnt%s_%s (first last step : %s) : %s := 0" % (suffix, T, ty, ty), "def rangeBegin%s_%s : %s := 0" % (suffix, T, ty)]
            body += ["def idx0_%s (my_begin ms b : %s) : %s := 0" % (T, ty, ty), "def idxNext_%s (k ms : %s) : %s := 0" % (T, ty, ty),
                     "def loopCond_%s (i e : %s) : Bool := false" % (T, ty)]
    gen_write("C05Stride", "\n".join(body) + "\n")
    ck.oblige("gen:index-form parallel_for read from parallel_for.h (guards, iteration count, blocked_range bounds, body-wrapper index arithmetic; "
              "both parallel_for_impl overloads) and translated for %s" % "/".join(ITYPES[T][0] for T in ITYPES), "generated", err is None,
              err or {k: v for k, v in texts.items()})
    if texts:
        ck.extra["index_form_cxx"] = texts
    return texts


# ---------------------------------------------------------------------------------------------
# E-REAL: the real overloads on boundary extents
# ---------------------------------------------------------------------------------------------
U64 = 1 << 64
FORMS = [p + c + s for p in "dsatf" for c in "nc" for s in "s1"]


def trip(first, last, step):
    return (last - first - 1) // step + 1 if (step > 0 and first < last) else 0


def admissible(T, first, last, step):
    """arguments for which the property promises something: representable, and for signed types an extent that is
    representable in Index (last - first is itself evaluated in Index, or in int for the 16-bit types)"""
    lo, hi = tmin(T), tmax(T)
    if not (lo <= first <= hi and lo <= last <= hi and lo <= step <= hi):
        return False
    return not (signed(T) and first < last and last - first > hi)


def expected(first, last, step):
    n = trip(first, last, step)
    s1 = n * (n - 1) // 2
    s2 = (n - 1) * n * (2 * n - 1) // 6
    return n, (n * first + step * s1) % U64, (n * first * first + 2 * first * step * s1 + step * step * s2) % U64


def line_of(T, first, last, step, form, P):
    return "idx %s %d %d %d %s %d" % (T, first, last, step, form, P)


def boundary_cases(T, rng, dense):
    """(first, last, step) triples at the edges of T: extents and steps near the maximum, step 1, step > extent, extents
    for which last-first+step-1 does not fit, first at the minimum / last at the maximum"""
    lo, hi = tmin(T), tmax(T)
    big = [hi, hi - 1, hi - 2, hi // 2, hi // 2 + 1, hi // 2 + 2, hi // 3, hi // 3 + 1, (hi + 1) // 4, (hi + 1) // 4 + 1, hi - hi // 4, hi - 1000 if hi > 5000 else hi - 7]
    small = [1, 2, 3, 4, 5, 7, 10, 63, 64, 1000]
    exts = sorted(set(big + small + [rng.randrange(1, hi + 1) for _ in range(dense)] + [hi - rng.randrange(0, 70) for _ in range(dense)]))
    out = []
    for ext in exts:
        if ext < 1 or ext > hi - lo:
            continue
        if signed(T) and ext > hi:
            continue
        firsts = {lo, hi - ext, 0 if lo <= 0 <= hi - ext else lo, lo + 1 if lo + 1 + ext <= hi else lo, -1 if lo <= -1 and -1 + ext <= hi else lo, 1 if 1 + ext <= hi else lo,
                  rng.randrange(lo, hi - ext + 1)}
        steps = {1, 2, 3, 7, ext - 1, ext, ext + 1, ext // 2, ext // 2 + 1, ext // 3, ext // 3 + 1, hi, hi - 1, hi // 2, hi // 2 + 1, hi - ext, hi - ext + 1, hi - ext + 2,
                 (hi + 1) // 4, rng.randrange(1, hi + 1), rng.randrange(1, ext + 1), max(1, ext // rng.randrange(1, 5000))}
        for first in firsts:
            if not (lo <= first and first + ext <= hi):
                continue
            for step in steps:
                if 1 <= step <= hi:
                    out.append((first, first + ext, step))
    return out


def idx_lines(ck, dense=None):
    rng = ck.rng
    quick = ck.tier == "quick"
    dense = dense if dense is not None else (6 if quick else 60)
    lines, seen = [], set()
    budget_long = {T: (3 if quick else 12) for T in ITYPES}
    for T in ITYPES:
        cases = boundary_cases(T, rng, dense)
        rng.shuffle(cases)
        for (first, last, step) in cases:
            n = trip(first, last, step)
            form = rng.choice(FORMS)
            if form[2] == "1" and step != 1:
                form = form[:2] + "s"
            cap_small = 1 << 12
            if n > cap_small:
                # long runs: a few per type, never with simple_partitioner grain 1 beyond 2^18 leaves
                if budget_long[T] <= 0 or n > (1 << 26) or (form[0] == "s" and n > (1 << 18)):
                    continue
                budget_long[T] -= 1
            key = (T, first, last, step, form[1])
            if key in seen:
                continue
            seen.add(key)
            lines.append(line_of(T, first, last, step, form, rng.choice([1, 2, 3, 4, 8, 16])))
        # step 1 at full 16-bit extent, every form once
        lo, hi = tmin(T), tmax(T)
        for form in FORMS:
            ext = rng.choice([1, 2, 5, 100, 4000]) if TBITS[T] > 16 else (hi if signed(T) else hi - rng.randrange(0, 3))
            first = rng.choice([lo, hi - ext, 0 if lo <= 0 <= hi - ext else lo])
            step = 1 if form[2] == "1" else rng.choice([1, 1, 3, ext, hi])
            lines.append(line_of(T, first, first + ext, step, form, rng.choice([1, 2, 5, 16])))
        # non-positive steps (throw) and empty iteration spaces (nothing happens)
        for form in ("dns", "dcs", "sns", "fcs"):
            lines.append(line_of(T, lo, hi, 0, form, 2))
            if signed(T):
                lines.append(line_of(T, -5, 100, rng.choice([-1, lo, -1000]), form, 2))
            a = rng.randrange(lo, hi + 1)
            lines.append(line_of(T, a, a, rng.choice([1, hi]), form, 2))
            lines.append(line_of(T, hi, lo, rng.choice([1, 2, hi]), form, 2))
    return lines


def build_idx(libdir):
    return cxx_build("C05", "idx", [H + "idx.cpp"], flags=["-O1", "-g", "-pthread"], libs=["-L" + libdir, "-ltbb", "-Wl,-rpath," + libdir])


def parse_x(o):
    if not o.startswith("X "):
        return None
    try:
        return dict(kv.split("=", 1) for kv in o.split()[1:] if "=" in kv)
    except ValueError:
        return None


def judge(line, o):
    """implementation-side property monitor for one index-form call (independent of the model and of the library's own
    arithmetic): None if fine, else text"""
    w = line.split()
    T, first, last, step = w[1], int(w[2]), int(w[3]), int(w[4])
    f = parse_x(o)
    if f is None:
        return "no result (%r)" % o[:80]
    if f.get("runaway") == "1":
        return "the loop does not end (more functor calls than iterations, or timeout)"
    if step <= 0:
        return None if (f["thrown"] == "1" and f["calls"] == "0") else "step %d: thrown=%s calls=%s (nonpositive_step must be thrown, nothing may run)" % (step, f["thrown"], f["calls"])
    n, s, q = expected(first, last, step)
    if f["thrown"] != "0":
        return "an exception was thrown for a positive step"
    if int(f["calls"]) != n:
        return "functor called %s times for %d iterations%s" % (f["calls"], n, "" if f["vals"] == "-" else " (indices seen: %s)" % f["vals"][:200])
    if f["outside"] != "0" or f["dup"] != "0" or f["miss"] != "0":
        return "outside=%s dup=%s miss=%s first offending index %s" % (f["outside"], f["dup"], f["miss"], f["bad"])
    if int(f["sum"]) != s or int(f["sq"]) != q:
        return "sum/sum-of-squares of the indices %s/%s differ from the enumeration's %d/%d" % (f["sum"], f["sq"], s, q)
    if f["vals"] not in ("-", "none") and [int(x) for x in f["vals"].split(",")] != [first + k * step for k in range(n)]:
        return "indices seen %s" % f["vals"][:200]
    return None


def run_lines(exe, lines, timeout=1800, limit_s=60):
    """run the harness; returns one output line per input line (a crash / runaway fills the rest with its last word)"""
    rc, out, err = sh(["bash", "-c", "ulimit -v 16000000; exec \"$@\"", "x", exe, str(limit_s)], input="\n".join(lines) + "\n", timeout=timeout)
    outs = out.split("\n")[:-1]
    if len(outs) < len(lines) or rc != 0:
        tail = outs[-1] if outs and outs[-1].startswith("X runaway=1") else "X runaway=1 crashed-rc=%d" % rc
        outs = [o for o in outs if not o.startswith("X runaway=1 ")]
        outs += [tail] + ["skipped"] * (len(lines) - len(outs) - 1)
    return outs


def model_cross(lines, outs):
    """the regenerated expressions evaluated by the Lean driver vs what the real call did"""
    q, where = [], []
    for i, (l, o) in enumerate(zip(lines, outs)):
        w = l.split()
        f = parse_x(o)
        if f is None or "calls" not in f or not admissible(w[1], int(w[2]), int(w[3]), int(w[4])):
            continue
        q.append("cnt %s %s %s %s %s" % (w[1], "C" if w[5][1] == "c" else "N", w[2], w[3], w[4]))
        where.append((i, "cnt", f))
        n = int(f["calls"])
        if 0 < n <= 64 and f["vals"] not in ("-", "none") and int(w[4]) > 0:
            q.append("val %s %s %s 0 %d" % (w[1], w[2], w[4], n - 1))
            where.append((i, "val", f))
            if n >= 3:
                q.append("val %s %s %s %d %d" % (w[1], w[2], w[4], n // 2, n - 1 - n // 2))
                where.append((i, "val", f))
    res = drv("c05", "\n".join(q) + "\n", timeout=1200) if q else []
    for (i, what, f), ql, r in zip(where, q, res):
        if what == "cnt":
            bad, run, cnt = r.split()[:3] if len(r.split()) >= 3 else ("?", "?", "?")
            model = "throws" if bad == "1" else "0" if run == "0" else cnt
            impl = "throws" if f["thrown"] == "1" else f["calls"]
            if model != impl:
                return "%s: the real call %s, the regenerated guards/count give %s" % (lines[i], impl if impl == "throws" else "calls the functor %s times" % impl, model)
        else:
            if r != f["vals"].split(",")[-1]:
                return "%s: last index seen %s, regenerated body-wrapper arithmetic (%s) gives %s" % (lines[i], f["vals"].split(",")[-1], ql, r)
    if len(res) != len(q):
        return "driver answered %d of %d queries" % (len(res), len(q))
    return None


SIGNED_EXTENT_PROBES = ["idx i32 -2000000000 2000000000 1000000000 dns 2", "idx i16 -32768 32767 13107 dns 2", "idx i16 -32768 32767 13107 dcs 2",
                        "idx i64 -9000000000000000000 9000000000000000000 4500000000000000000 dns 2"]


def run_idx(ck, libdir):
    exe = build_idx(libdir)
    lines = idx_lines(ck)
    outs = run_lines(exe, lines)
    bad = []
    for l, o in zip(lines, outs):
        if o == "skipped":
            continue
        m = judge(l, o)
        w = l.split()
        n = trip(int(w[2]), int(w[3]), int(w[4]))
        ck.count(1, ("idx", w[1], w[5], min(n, 3) if n < 3 else n.bit_length() + 3, int(w[4]) <= 0,
                     int(w[3]) - int(w[2]) + int(w[4]) - 1 > tmax(w[1])))
        if m:
            bad.append((n, l, m))
    bad.sort()
    ck.extra["index_form_runs"] = {"calls": len(lines), "overflow_prone(last-first+step-1 > max)": sum(1 for l in lines if int(l.split()[3]) - int(l.split()[2]) + int(l.split()[4]) - 1 > tmax(l.split()[1])),
                                    "per_type": {T: sum(1 for l in lines if l.split()[1] == T) for T in ITYPES}}
    for i in (0, len(lines) // 2):
        ck.sample({"index_form": lines[i], "result": outs[i][:200]})
    ck.oblige("monitor:index-form parallel_for, real library: for every Index type (short/ushort/int/unsigned/long long/size_t), every overload (5 partitioner forms x "
              "with/without context x with/without step) on boundary extents: the functor gets exactly first, first+step, ... < last, each once; a non-positive step throws",
              "correspondence", not bad, "" if not bad else "%s -> %s" % (bad[0][1], bad[0][2]))
    cross = model_cross(lines, outs)
    ck.oblige("corr:index-form parallel_for: regenerated guards / count / body-wrapper arithmetic (evaluated in Lean) = what the real call did", "correspondence", cross is None, cross or "")
    # information only: signed extents beyond the maximum of Index (outside the theorem's hypothesis; the sequential loop is well defined)
    po = run_lines(exe, SIGNED_EXTENT_PROBES, limit_s=20)
    ck.extra["index_form_signed_extent_beyond_max"] = [{"call": l, "result": o[:160], "judgement": judge(l, o) or "as the sequential loop"} for l, o in zip(SIGNED_EXTENT_PROBES, po)]
    return exe, bad, cross


def report(ck, n, l, m):
    w = l.split()
    ck.counterexample("index-form:%s:first=%s:last=%s:step=%s:%s" % (ITYPES[w[1]][0].replace(" ", "-"), w[2], w[3], w[4], w[5]),
                      "tbb::parallel_for<%s>(first=%s, last=%s, step=%s, f%s%s)%s: %s (%d iterations expected)" %
                      (ITYPES[w[1]][0], w[2], w[3], w[4], {"d": "", "s": ", simple_partitioner", "a": ", auto_partitioner", "t": ", static_partitioner", "f": ", affinity_partitioner"}[w[5][0]],
                       ", context" if w[5][1] == "c" else "", " [overload without step]" if w[5][2] == "1" else "", m, n),
                      {"engine": "E-REAL", "harness": H + "idx.cpp", "stdin": l + "\n", "monitor": "idx"})


def search_idx(ck, exe, bad):
    """failing-input search for the index form: the smallest failing case of the standard run, else a much denser sweep
    (all Index types, both overload families, every boundary extent x step) with small trip counts"""
    if not bad:
        log("index form: searching for a failing (Index type, first, last, step)")
        rng = ck.rng
        lines = []
        for T in ITYPES:
            for (first, last, step) in boundary_cases(T, rng, 40):
                if trip(first, last, step) <= 2048:
                    for form in ("dns", "dcs"):
                        lines.append(line_of(T, first, last, step, form, 2))
        lines = lines[:60000]
        outs = run_lines(exe, lines)
        for l, o in zip(lines, outs):
            m = judge(l, o) if o != "skipped" else None
            if m:
                w = l.split()
                bad.append((trip(int(w[2]), int(w[3]), int(w[4])), l, m))
        ck.extra["index_form_search_calls"] = len(lines)
        bad.sort()
    if bad:
        report(ck, *bad[0])
    return bad


def replay_line(libdir, stdin):
    exe = build_idx(libdir)
    lines = stdin.strip().split("\n")
    outs = run_lines(exe, lines, limit_s=60)
    still = None
    for l, o in zip(lines, outs):
        print(l, "->", o[:300])
        still = still or judge(l, o)
    return still
