"""C07, token life cycle under faults (part of the C07 plug-in; see checks/c07.py).

Tie between lean/TbbVerif/Model/C07Life.lean (+ Props `token_objects_destroyed_once`, `flow_control_stop_value_dropped`,
`live_tokens_bounded_cancel`, `pipeline_returns_after_drain_cancel`, `cancel_preserves_safety`) and the current tree:
  E-GEN   `bufferCleanup`: does pipeline::~pipeline / input_buffer::~input_buffer finalize the items parked in the buffers?
  E-SHIM  harness/c07/life.cpp -DLIFE_SHIM: the real parallel_pipeline on the whole instrumented runtime with a fault
          (k-th filter invocation throws / k-th invocation cancels the context / another controlled thread cancels after k
          scheduling points) for EVERY k of the program and every stage kind; items travel as a non-trivial 32-byte value so
          that every token is a library-owned object; per-object ledger (constructed / destroyed per identity)
  E-REAL  the same harness on real threads with libtbb of the current tree
  every log is (a) checked by python monitors of the property (ledger: never destroyed twice, never leaked, stop value
  destroyed once and never forwarded; at most once / stage order / serial overlap / common order / live<=limit / nothing
  runs after the return) and (b) validated event by event against the Lean model (driver c07life), including the exact set
  of objects alive after the return (= the model's parked set when bufferCleanup=false, empty otherwise).
"""
import hashlib
import os
import re
from concurrent.futures import ThreadPoolExecutor

import common
from common import BuildError, REPO, cxx_build, drv, gen_write, sh

H = "harness/c07/"
STOP = 999
KNOWN_LEAK_KEY = "life:cancel-leaks-parked-tokens"

LIFE_CLAUSES = {
    "twice": "no token object is destroyed twice / destroyed without having been made / used after its destruction",
    "leak": "every token object the library made is destroyed by the time parallel_pipeline returns",
    "stop-value": "the value returned by the invocation that called fc.stop() is destroyed once and never reaches a later filter",
    "once": "no item enters a filter twice or out of stage order",
    "serial-overlap": "a serial filter never runs two invocations at once",
    "order": "serial_in_order filters take items in one common order",
    "live>limit": "never more than max_number_of_live_tokens items in flight",
    "return": "parallel_pipeline returns only when no filter invocation runs or can start",
    "hb": "hand-overs of an item (to the next filter, to the clean-up of a cancelled task) and successive invocations of a serial filter are "
          "ordered by happens-before computed from the memory orders the code passes (E-SHIM runs)",
    "harness": "crash / deadlock / unparsable log",
}


# ---------------------------------------------------------------------------------------------
# E-GEN: does the pipeline's clean-up finalize parked items?
# ---------------------------------------------------------------------------------------------
def _body_after(src, header_re):
    m = re.search(header_re, src)
    if not m:
        return None
    i = src.index("{", m.end() - 1)
    depth, j = 0, i
    while j < len(src):
        if src[j] == "{":
            depth += 1
        elif src[j] == "}":
            depth -= 1
            if depth == 0:
                return src[i:j + 1]
        j += 1
    return None


def gen_flags(ck, root=None):
    """bufferCleanup := the destructor path of the pipeline (pipeline::~pipeline, ~input_buffer and what they call inside
    parallel_pipeline.cpp) contains a call of `finalize(` — i.e. parked task_infos are handed to base_filter::finalize."""
    src = open(os.path.join(root or REPO, "src", "tbb", "parallel_pipeline.cpp")).read()
    src = re.sub(r"//[^\n]*", "", src)
    src = re.sub(r"/\*.*?\*/", "", src, flags=re.S)
    d1 = _body_after(src, r"pipeline::~pipeline\s*\(\s*\)\s*\{")
    d2 = _body_after(src, r"~input_buffer\s*\(\s*\)\s*\{")
    ok = d1 is not None and d2 is not None
    text = (d1 or "") + (d2 or "")
    # one level of calls into member functions of input_buffer / pipeline defined in the same file
    for name in set(re.findall(r"\b([A-Za-z_]\w*)\s*\(", text)):
        if name in ("if", "while", "for", "deallocate", "deallocate_memory", "poison_pointer", "__TBB_ASSERT"):
            continue
        b = _body_after(src, r"\bvoid\s+(?:\w+::)?" + re.escape(name) + r"\s*\([^)]*\)\s*\{")
        if b:
            text += b
    cleanup = "finalize(" in text or "finalize (" in text
    if root is None:
        ck.oblige("gen:pipeline clean-up path found (pipeline::~pipeline, input_buffer::~input_buffer)", "generated", ok,
                  "could not locate the destructors in parallel_pipeline.cpp")
        ck.extra["generated_flags"] = {"bufferCleanup": cleanup}
    return cleanup


# ---------------------------------------------------------------------------------------------
# builds
# ---------------------------------------------------------------------------------------------
def build_life_shim():
    objs = common.shim_runtime_objects()
    hh = hashlib.sha1("".join(common._sha(o) for o in objs).encode()).hexdigest()[:16]
    return cxx_build("C07", "life_shim", [H + "life.cpp", common.SHIM_SRC],
                     flags=["-O1", "-g", "-DLIFE_SHIM", "-fno-access-control", "-I" + REPO + "/src"] + common.SHIM_FLAGS,
                     libs=objs + ["-ldl", "-Wl,--build-id=0x" + hh])


def build_life_real(libs):
    return cxx_build("C07", "life_real", [H + "life.cpp"], flags=["-O1", "-g", "-pthread"], libs=libs)


# ---------------------------------------------------------------------------------------------
# running
# ---------------------------------------------------------------------------------------------
def parse_life(out):
    """-> list of dicts {cfg, ev, alive, mons, sched, stat, complete}"""
    res, cur = [], None
    for l in out.split("\n"):
        try:
            if l.startswith("begin "):
                w = l.split()
                cur = {"cfg": (w[1], int(w[2]), int(w[3]), int(w[4]), int(w[5]), w[6]), "ev": [], "alive": [], "mons": [], "sched": None,
                       "stat": {}, "complete": False}
            elif cur is None:
                continue
            elif l == "end":
                cur["complete"] = True
                res.append(cur)
                cur = None
            elif l.startswith("MON "):
                cur["mons"].append(l)
            elif l.startswith("alive "):
                w = l.split()
                cur["alive"].append((int(w[1]), int(w[2])))
            elif l.startswith("sched "):
                cur["sched"] = l[6:]
            elif l.startswith("stat "):
                cur["stat"] = dict(kv.split("=") for kv in l.split()[1:])
            elif l:
                w = l.split()
                ok = ((w[0] in ("ib", "ix") and len(w) == 2 and w[1].isdigit()) or (w[0] == "ie" and len(w) == 3 and w[1].isdigit() and (w[2] == "-" or w[2].isdigit()))
                      or (w[0] in ("b", "e", "x", "d") and len(w) == 3 and w[1].isdigit() and w[2].isdigit()) or (w[0] in ("cq", "ret") and len(w) == 1))
                if ok:
                    cur["ev"].append(l)
                else:
                    cur["mons"].append("MON crash unparsable output line %r (memory of the harness was corrupted?)" % l[:60])
        except (ValueError, IndexError):
            if cur is not None:
                cur["mons"].append("MON crash unparsable output line %r" % l[:60])
    if cur is not None:
        res.append(cur)
    return res


def shim_args(c):
    """c = (modes, limit, items, P, bodyseed, fault, schedseed, stay)"""
    return [c[0], str(c[1]), str(c[2]), str(c[3]), str(c[4]), c[5], "rand", str(c[6]), str(c[7])]


def run_life_shim_one(exe, c, schedule=None):
    args = shim_args(c) if schedule is None else [c[0], str(c[1]), str(c[2]), str(c[3]), str(c[4]), c[5], "replay", schedule]
    rc, out = -1, ""
    for attempt in range(4):
        try:
            rc, out, err = sh([exe] + args, timeout=180)
        except Exception as e:      # undecodable output of a harness whose memory was corrupted, or a run that never ends
            rc, out, err = -99, "", repr(e)[:200]
        if rc in (0, 3, 4):
            break
    got = parse_life(out)
    r = got[0] if got else {"cfg": tuple(c[:6]), "ev": [], "alive": [], "mons": [], "sched": None, "stat": {}, "complete": False}
    r["term"] = "ret" if (rc == 0 and r["complete"] and "ret" in r["ev"]) else ("deadlock" if rc == 3 else "crash")
    if rc == 3:
        r["mons"].append("MON deadlock every controlled thread is parked / step limit: parallel_pipeline never returns, stat %s" % r["stat"])
    elif r["term"] == "crash":
        r["mons"].append("MON crash harness rc=%d" % rc)
    return r


def run_life_real_batch(exe, cfgs):
    """cfgs: (modes, limit, items, threads, seed, fault)"""
    res, i = [], 0
    while i < len(cfgs):
        text = "".join("run %s %d %d %d %d %s\n" % tuple(c) for c in cfgs[i:])
        try:
            rc, out, err = sh([exe], input=text, timeout=120 + 20 * len(cfgs[i:]))
        except Exception as e:
            rc, out, err = -99, "", repr(e)[:200]
        got = [g for g in parse_life(out) if g["complete"]]
        for g in got:
            g["term"] = "ret" if "ret" in g["ev"] else "crash"
            res.append(g)
        i += len(got)
        if rc == 0 and len(res) >= len(cfgs):
            break
        if i < len(cfgs):
            res.append({"cfg": tuple(cfgs[i]), "ev": [], "alive": [], "mons": ["MON crash harness rc=%d on this config: %s" % (rc, err.strip()[-200:])],
                        "sched": None, "stat": {}, "complete": False, "term": "crash"})
            i += 1
    return res[:len(cfgs)]


# ---------------------------------------------------------------------------------------------
# implementation-side monitors (independent of the model)
# ---------------------------------------------------------------------------------------------
MON_CLAUSE = {"dead-object-used": "twice", "dead-object-destroyed": "twice", "token-destroyed-twice": "twice", "token-made-twice": "twice",
              "token-destroyed-never-made": "twice", "wrong-object": "once", "stop-value-forwarded": "stop-value",
              "stop-value-not-destroyed": "stop-value", "event-after-return": "return", "deadlock": "return", "crash": "harness", "hb-race": "hb"}


def monitor_life(r):
    modes, limit, items = r["cfg"][0], r["cfg"][1], r["cfg"][2]
    nf = len(modes)
    bad = []

    def flag(cl, det):
        if not any(b[0] == cl for b in bad):
            bad.append((cl, det))
    for m in r["mons"]:
        w = m.split(None, 2)
        flag(MON_CLAUSE.get(w[1] if len(w) > 1 else "?", "harness"), m)
    if r["term"] != "ret":
        flag("harness" if r["term"] == "crash" else "return", "run ended with %r" % r["term"])
    made, dead = set(), {}
    stage = {}
    inside = [0] * nf
    open_inv = set()
    seqs = [[] for _ in range(nf)]
    ordered = [k for k in range(nf) if modes[k] == "i"]
    first_ord = ordered[0] if ordered else None
    emitted = 0
    live = 0
    stops = []
    seen_ret = False
    for pos, l in enumerate(r["ev"]):
        w = l.split()
        if seen_ret:
            if w[0] != "cq":
                flag("return", "event %r logged after the return" % l)
            continue
        if w[0] == "ib":
            if modes[0] != "p" and inside[0] > 0:
                flag("serial-overlap", "input filter invocation %s began while another is running (log position %d)" % (w[1], pos))
            inside[0] += 1
            open_inv.add(w[1])
        elif w[0] in ("ie", "ix"):
            if w[1] not in open_inv:
                flag("once", "%s of unknown invocation" % l)
            else:
                open_inv.discard(w[1])
                inside[0] -= 1
            if w[0] == "ie" and w[2] == "-":
                if nf > 1:
                    stops.append(int(w[1]))
                    made.add((int(w[1]), STOP))
            elif w[0] == "ie":
                it = int(w[2])
                if it != emitted:
                    flag("once", "input emitted id %d as its %d-th item" % (it, emitted))
                emitted += 1
                seqs[0].append(it)
                stage[it] = (0, "e")
                if nf > 1:
                    made.add((it, 0))
                    live += 1
                    if live > limit:
                        flag("live>limit", "%d items in flight (limit %d) when item %d was emitted" % (live, limit, it))
        elif w[0] in ("b", "e", "x"):
            k, it = int(w[1]), int(w[2])
            prev = stage.get(it)
            if prev is None or not (1 <= k < nf):
                flag("once", "%s for an item never emitted / a filter that does not exist" % l)
                continue
            if w[0] == "b":
                if prev != (k - 1, "e"):
                    flag("once", "item %d enters filter %d at log position %d but its previous event is %s%d" % (it, k, pos, prev[1], prev[0]))
                if (it, k - 1) in dead:
                    flag("twice", "filter %d is invoked on token object (%d,%d) after its destruction" % (k, it, k - 1))
                if modes[k] != "p" and inside[k] > 0:
                    flag("serial-overlap", "filter %d (%s) began item %d at log position %d while another invocation is inside" % (k, modes[k], it, pos))
                inside[k] += 1
                seqs[k].append(it)
                if modes[k] == "i" and k != first_ord:
                    ref = seqs[first_ord]
                    j = len(seqs[k]) - 1
                    if j >= len(ref) or ref[j] != it:
                        flag("order", "serial_in_order filter %d takes item %d as its %d-th, filter %d took %s" % (k, it, j, first_ord, ref[:j + 1][-8:]))
            else:
                if prev != (k, "b"):
                    flag("once", "item %d leaves filter %d at log position %d but its previous event is %s%d" % (it, k, pos, prev[1], prev[0]))
                inside[k] -= 1
                if w[0] == "e":
                    if k + 1 < nf:
                        made.add((it, k))
                    else:
                        live -= 1
            stage[it] = (k, w[0])
        elif w[0] == "d":
            o = (int(w[1]), int(w[2]))
            if o in dead:
                flag("twice", "token object (%d,%d) destroyed twice (log positions %d and %d)" % (o[0], o[1], dead[o], pos))
            elif o not in made:
                flag("twice", "token object (%d,%d) destroyed at log position %d before the invocation that makes it returned" % (o[0], o[1], pos))
            dead[o] = pos
        elif w[0] == "cq":
            pass
        elif w[0] == "ret":
            seen_ret = True
            if open_inv or any(inside):
                flag("return", "returned while filter invocations are still running (input %s, inside %s)" % (sorted(open_inv), inside))
        else:
            flag("harness", "unparsable log line %r" % l)
    if r["term"] == "ret":
        left = sorted(o for o in made if o not in dead)
        alive = sorted(r["alive"])
        stopleft = [o for o in left if o[1] == STOP]
        if stopleft:
            flag("stop-value", "stop value(s) %s never destroyed" % stopleft)
        left = [o for o in left if o[1] != STOP]
        if left != alive:
            flag("harness", "ledger disagrees with the log: alive %s vs made-and-not-destroyed %s" % (alive, left))
        if alive:
            flag("leak", "%d token object(s) never destroyed: %s" % (len(alive), alive[:10]))
        cancelled_run = any(l.split()[0] in ("cq", "x", "ix") for l in r["ev"])
        if not cancelled_run:
            if emitted != items:
                flag("return", "input emitted %d of %d items in a run without fault" % (emitted, items))
            for k in range(1, nf):
                if sorted(seqs[k]) != list(range(emitted)):
                    flag("once", "filter %d processed %s of %d emitted items in a run without fault" % (k, sorted(seqs[k])[:20], emitted))
    return bad


# ---------------------------------------------------------------------------------------------
# model validation (c07life)
# ---------------------------------------------------------------------------------------------
def life_text(r, cleanup):
    modes, limit, items = r["cfg"][0], r["cfg"][1], r["cfg"][2]
    ev = [e for e in r["ev"] if not (e.startswith("d ") and e.endswith(" %d" % STOP))]
    if modes[0] == "p":
        ibs = [i for i, e in enumerate(ev) if e.startswith("ib ")]
        if ibs:
            last = ibs[-1]
            early = [e for e in ev[:last] if e.startswith("ie ") and e.endswith(" -")]
            if early:
                ev = [e for e in ev[:last + 1] if not (e.startswith("ie ") and e.endswith(" -"))] + early + ev[last + 1:]
    # nothing may follow the return except the (late) cq of an external canceller
    if "ret" in ev:
        i = ev.index("ret")
        ev = ev[:i + 1]
    # hints: in front of every `d` that is a clean-up (not the consuming invocation's destroy_token), name the invocations
    # that begin LATER in the log: their tasks passed the dispatcher check before the flag was stored (the log cannot show
    # the check itself); per serial filter only the next one can have been dispatched
    out = []
    ended = set()
    fault_seen = False
    for pos, e in enumerate(ev):
        w = e.split()
        if w[0] in ("cq", "x", "ix"):
            fault_seen = True
        if w[0] == "e":
            ended.add((int(w[2]), int(w[1])))
        if w[0] == "d" and fault_seen and (int(w[1]), int(w[2]) + 1) not in ended:
            seen_serial = set()
            for f in ev[pos + 1:]:
                fw = f.split()
                if fw[0] == "b":
                    k = int(fw[1])
                    if modes[k] != "p":
                        if k in seen_serial:
                            continue
                        seen_serial.add(k)
                    out.append("pass b %d %d" % (k, int(fw[2])))
                elif fw[0] == "ib":
                    if modes[0] != "p":
                        if 0 in seen_serial:
                            continue
                        seen_serial.add(0)
                    out.append("pass ib")
        out.append(e)
    return ["cfg %d %d %s %d" % (limit, items, modes, 1 if cleanup else 0)] + out + ["alive %d %d" % o for o in r["alive"]] + ["fin"]


def validate_life(runs, cleanup):
    """-> list aligned with runs: None | (line, answer, index)"""
    texts = [life_text(r, cleanup) for r in runs]
    flat = [l for t in texts for l in t]
    if not flat:
        return []
    outs = drv("c07life", "\n".join(flat) + "\n", timeout=3600)
    res, pos = [], 0
    for t in texts:
        o = outs[pos:pos + len(t)]
        pos += len(t)
        rr = None
        for j, (l, a) in enumerate(zip(t, o)):
            if a != "ok" and not a.startswith("ok "):
                rr = (l, a, j)
                break
        if rr is None and len(o) < len(t):
            rr = (t[len(o)], "no answer from the model driver", len(o))
        res.append(rr)
    return res


# ---------------------------------------------------------------------------------------------
# the fault-schedule campaign
# ---------------------------------------------------------------------------------------------
def all_modes(maxlen):
    res = []
    for n in range(1, maxlen + 1):
        cur = [""]
        for _ in range(n):
            cur = [c + x for c in cur for x in "pio"]
        res += cur
    return res


def fault_configs(ck):
    """-> (shim configs, real configs).  For every filter-mode sequence (all of length 1..3, a sample of longer ones) one or
    more base configurations (limit, items, P); for each, EVERY k in 0..#invocations-1: 'T<k>' (the k-th filter invocation
    throws) and 'C<k>' (the k-th invocation cancels the context), plus external cancellations at seeded scheduling points
    and one run without fault."""
    rng = ck.rng
    quick = ck.tier == "quick"
    seqs = all_modes(3) + (["ipoi", "oppi", "piio", "iooi", "ppip"] if quick else all_modes(4)[39:] + ["iopio", "pipip", "oiiopi"])
    reps = 3 if quick else 12
    shim, real = [], []
    for modes in seqs:
        for rep in range(reps):
            limit = rng.choice([1, 2, 2, 3, 4])
            items = rng.choice([1, 2, 3, 4, 5]) if len(modes) < 4 else rng.choice([2, 3, 4])
            P = rng.choice([1, 2, 3, 4])
            bs = rng.randrange(1, 1 << 30)
            ninv = items * len(modes) + min(P, limit) + 1
            for k in range(ninv):
                for kind in "TC":
                    shim.append((modes, limit, items, P, bs, "%s%d" % (kind, k), rng.randrange(1, 1 << 30), rng.choice([96, 32, 0, 160, 224])))
                    real.append((modes, limit, items, max(P, 2), rng.randrange(1, 1 << 30), "%s%d" % (kind, k)))
            for j in range(4):
                shim.append((modes, limit, items, P, bs, "E%d" % rng.randrange(0, 3500), rng.randrange(1, 1 << 30), 96))
                real.append((modes, limit, items, max(P, 2), rng.randrange(1, 1 << 30), "E%d" % rng.randrange(0, 2 * ninv + 4)))
            shim.append((modes, limit, items, P, bs, "N", rng.randrange(1, 1 << 30), 96))
            real.append((modes, limit, items, max(P, 2), rng.randrange(1, 1 << 30), "N"))
    return shim, real


def _size(r):
    c = r["cfg"]
    return (len(c[0]), c[2], c[1], len(r["ev"]))


def run_life(ck, libs, cleanup):
    exe_s = build_life_shim()
    exe_r = build_life_real(libs)
    shim_cfgs, real_cfgs = fault_configs(ck)
    with ThreadPoolExecutor(max_workers=min(8, common.NCPU)) as ex:
        sres = list(ex.map(lambda c: run_life_shim_one(exe_s, c), shim_cfgs))
    nshard = 4
    shards = [real_cfgs[i::nshard] for i in range(nshard)]
    with ThreadPoolExecutor(max_workers=nshard) as ex:
        parts = list(ex.map(lambda sh_: run_life_real_batch(exe_r, sh_), shards))
    rres = [None] * len(real_cfgs)
    for si, part in enumerate(parts):
        for j, r in enumerate(part):
            rres[si + j * nshard] = r
    runs = [("E-SHIM", c, r) for c, r in zip(shim_cfgs, sres)] + [("E-REAL", c, r) for c, r in zip(real_cfgs, rres) if r is not None]
    # the real-thread harness links the libtbb built from REPO; a scratch tree without _build falls back to /repo's library
    # (common.find_tbb_lib), whose clean-up behaviour is that of /repo's source
    cleanup_real = cleanup if os.path.isdir(os.path.join(REPO, "_build")) else gen_flags(ck, "/repo")
    CH = 500
    chunks = [runs[i:i + CH] for i in range(0, len(runs), CH)]
    with ThreadPoolExecutor(max_workers=4) as ex:
        vparts = list(ex.map(lambda ch: [validate_life([r], cleanup if eng == "E-SHIM" else cleanup_real)[0] for eng, _, r in ch] if cleanup != cleanup_real
                             else validate_life([r for _, _, r in ch], cleanup), chunks))
    vals = [v for part in vparts for v in part]
    fails = {k: [] for k in LIFE_CLAUSES}
    corr_bad = []
    leaks_explained = []
    nfault = {"T": 0, "C": 0, "E": 0, "N": 0}
    cancelled_runs = 0
    steps = 0
    for (eng, c, r), v in zip(runs, vals):
        bad = monitor_life(r)
        nfault[r["cfg"][5][0]] = nfault.get(r["cfg"][5][0], 0) + 1
        if any(l.split()[0] in ("cq", "x", "ix") for l in r["ev"]):
            cancelled_runs += 1
        steps += int(r["stat"].get("steps", 0) or 0)
        ck.count(1, ("life", eng, r["cfg"][0], r["cfg"][5][0], min(r["cfg"][2], 3)))
        if v is not None and r["term"] == "ret":
            corr_bad.append((eng, c, r, v))
        elif v is None:
            ck.traces_validated += 1
        for cl, det in bad:
            if cl == "leak" and v is None and not (cleanup if eng == "E-SHIM" else cleanup_real):
                # the model (with the clean-up flag read off the current source) predicts exactly this set: the objects
                # parked in the buffers of a cancelled pipeline -- the recorded finding
                leaks_explained.append((eng, c, r, det))
            else:
                fails[cl].append((eng, c, r, det))
    ck.extra["life_runs"] = {"E-SHIM": len(shim_cfgs), "E-REAL": len(real_cfgs), "by_fault_kind": nfault, "runs_with_a_fault_taking_effect": cancelled_runs,
                             "shim_scheduling_points": steps, "runs_leaking_parked_tokens": len(leaks_explained)}
    if runs:
        eng, c, r = runs[len(runs) // 3]
        ck.sample({"engine": eng, "life_config": list(r["cfg"]), "log": r["ev"][:24], "alive_after_return": r["alive"]})

    def describe(eng, c, r):
        if eng == "E-SHIM":
            return "life_shim " + " ".join(shim_args(c))
        return "life_real: run %s %d %d %d %d %s" % tuple(c)
    # Real-thread logs are written by user callbacks under a harness mutex: their ORDER is not exact with respect to the library's own actions
    # (a token can be handed back before the destructor of its object has logged).  An isolated real-thread log that the model cannot order is
    # therefore recorded, not counted (E-SHIM logs, whose order is exact, are never excused; nor are the order-independent monitors below)
    n_real = sum(1 for eng, _, _ in runs if eng == "E-REAL")
    real_rej = [x for x in corr_bad if x[0] == "E-REAL"]
    if real_rej and len(real_rej) <= 2 and len(real_rej) * 5000 <= n_real and len(real_rej) == len(corr_bad):
        ck.extra["real_thread_logs_not_ordered_by_the_model"] = [{"config": list(x[1]), "line": x[3][2], "event": x[3][0], "why": x[3][1], "log": x[2]["ev"][:40]} for x in real_rej]
        corr_bad = []
    ck.oblige("corr:fault-schedule logs (k-th invocation throws / cancels, external cancellation; E-SHIM and real threads) are traces of the "
              "life-cycle model incl. the exact set of token objects alive after the return", "correspondence", not corr_bad,
              "" if not corr_bad else "%d of %d logs rejected; first: %s: line #%d %r -> %s; log: %s; alive %s" % (
                  len(corr_bad), len(runs), describe(*corr_bad[0][:3]), corr_bad[0][3][2], corr_bad[0][3][0], corr_bad[0][3][1],
                  " / ".join(corr_bad[0][2]["ev"])[:1000], corr_bad[0][2]["alive"]))
    for cl, desc in LIFE_CLAUSES.items():
        f = fails[cl]
        if cl == "leak":
            continue
        ck.oblige("monitor:life:" + desc, "correspondence", not f,
                  "" if not f else "%d run(s); first: %s: %s; log: %s" % (len(f), describe(*f[0][:3]), f[0][3], " / ".join(f[0][2]["ev"])[:800]))
    # leaks
    unexplained = fails["leak"]
    keys = []
    if leaks_explained and not unexplained:
        keys = [KNOWN_LEAK_KEY]
    ck.oblige("monitor:life:" + LIFE_CLAUSES["leak"], "correspondence", not leaks_explained and not unexplained,
              "" if not (leaks_explained or unexplained) else
              ("%d run(s) leak objects that the model does not leave parked; first: %s: %s" % (len(unexplained), describe(*unexplained[0][:3]), unexplained[0][3])
               if unexplained else
               "%d cancelled run(s) leave token objects parked in serial filters' buffers (exactly the model's `leaked` set; bufferCleanup=false): first %s: %s"
               % (len(leaks_explained), describe(*leaks_explained[0][:3]), leaks_explained[0][3])), cex_keys=keys)
    if leaks_explained:
        eng, c, r, det = min(leaks_explained, key=lambda x: (x[0] != "E-SHIM",) + _size(x[2]))
        ck.counterexample(KNOWN_LEAK_KEY,
                          "parallel_pipeline(modes=%s, max_number_of_live_tokens=%d, %d items) fault %s: %s (log: %s)" % (
                              r["cfg"][0], r["cfg"][1], r["cfg"][2], r["cfg"][5], det, " / ".join(r["ev"])[:400]),
                          {"engine": "LIFE-" + eng, "harness": H + "life.cpp", "config": list(c), "schedule": r.get("sched"), "monitor": "leak",
                           "observed_log": r["ev"][:400], "alive": r["alive"]})
    # failing-input reports for everything else: the smallest failing run of each clause
    done = set()
    for cl in LIFE_CLAUSES:
        f = fails[cl]
        if not f:
            continue
        eng, c, r, det = min(f, key=lambda x: (x[0] != "E-SHIM",) + _size(x[2]))
        key = "life:%s:%s:%s" % (r["cfg"][0], r["cfg"][5][0], cl)
        if key in done:
            continue
        done.add(key)
        ck.counterexample(key, "parallel_pipeline(modes=%s, max_number_of_live_tokens=%d, %d items) with fault %s (%s): %s: %s" % (
            r["cfg"][0], r["cfg"][1], r["cfg"][2], r["cfg"][5], eng, LIFE_CLAUSES[cl], det),
            {"engine": "LIFE-" + eng, "harness": H + "life.cpp", "config": list(c), "schedule": r.get("sched"), "monitor": cl,
             "observed_log": r["ev"][:400], "alive": r["alive"], "detail": det})
    if corr_bad and not any(fails.values()):
        # the model rejects a log although no monitor fired: report the smallest such run as what the search found
        eng, c, r, v = min(corr_bad, key=lambda x: (x[0] != "E-SHIM",) + _size(x[2]))
        if r["alive"]:
            ck.counterexample("life:%s:%s:leak" % (r["cfg"][0], r["cfg"][5][0]),
                              "parallel_pipeline(modes=%s, max_number_of_live_tokens=%d, %d items) with fault %s (%s): token objects %s are never destroyed and the "
                              "life-cycle model does not leave them parked (%s)" % (r["cfg"][0], r["cfg"][1], r["cfg"][2], r["cfg"][5], eng, r["alive"][:8], v[1]),
                              {"engine": "LIFE-" + eng, "harness": H + "life.cpp", "config": list(c), "schedule": r.get("sched"), "monitor": "leak",
                               "observed_log": r["ev"][:400], "alive": r["alive"], "detail": v[1]})


def replay_life(ck, obj, libs, cleanup):
    r0 = obj["replay"]
    eng = r0["engine"]
    c = tuple(r0["config"])
    clause = r0.get("monitor")
    if eng == "LIFE-E-SHIM":
        exe = build_life_shim()
        print("replay of %s on %s: life_shim %s under the recorded schedule" % (obj.get("key"), REPO, " ".join(shim_args(c)[:6])))
        tries = [run_life_shim_one(exe, c, schedule=r0.get("schedule") or "0*1")]
        for t in range(100):
            tries.append(run_life_shim_one(exe, c[:6] + (c[6] + t + 1, [96, 0, 200, 32][t % 4])))
    else:
        exe = build_life_real(libs)
        print("replay of %s on %s: life_real, 200 runs of %s" % (obj.get("key"), REPO, list(c)))
        tries = run_life_real_batch(exe, [c[:4] + (c[4] + t,) + c[5:] for t in range(200)])
    for r in tries:
        bad = monitor_life(r)
        hit = [b for b in bad if clause is None or b[0] == clause] or [b for b in bad if b[0] != "leak"]
        if hit:
            print("STILL FAILS on %s: %s: %s" % (list(r["cfg"]), LIFE_CLAUSES.get(hit[0][0], hit[0][0]), hit[0][1]))
            print("observed log: " + " / ".join(r["ev"])[:3000] + " | alive " + str(r["alive"]))
            return 1
    print("property holds now: %d runs, all life-cycle monitors quiet" % len(tries))
    return 0
