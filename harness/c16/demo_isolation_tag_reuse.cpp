// Demonstration on the REAL (uninstrumented) library of the C16 known finding `isolation-tag-reuse-foreign-task-in-later-region`
// (not built by the check; the check demonstrates the same behaviour deterministically under E-SHIM, harness/c16/rt.cpp, and on a
// real arena with the real isolate_within_arena in the `nest` puppet):
//   L=$(ls -d /repo/_build/*relwithdebinfo* | head -1)
//   g++ -std=c++17 -O1 harness/c16/demo_isolation_tag_reuse.cpp -I/repo/include -L$L -ltbb -Wl,-rpath,$L -pthread -o /tmp/demo_tag && /tmp/demo_tag
//
// r1::isolate_within_arena() uses the ADDRESS of the delegate object as the isolation tag.  The delegate lives in the frame of
// this_task_arena::isolate(), so two isolate() calls made at the same stack depth (a loop, a helper function called twice, two
// library calls in sequence) get the SAME tag although they are two different isolation scopes.  A task that was spawned inside
// scope 1 and is still pending when scope 1 has ended (task_group::run without a wait inside the scope) carries that tag; a
// thread that later waits inside scope 2 passes it through every isolation filter (get_task / steal_task / mailbox /
// critical stream compare tags only) and executes it, although it was not spawned within scope 2:
//     "A thread that waits inside this_task_arena::isolate executes only tasks spawned within the same isolation scope."
//
// Set-up (public API only, max_allowed_parallelism = 2: the main thread M and one worker W):
//   1. W is parked inside a blocker task (so it cannot steal anything).
//   2. M:  isolate([&]{ g1.run(A); });            scope 1 ends, A (tag t1) stays in M's pool
//   3. W (inside the blocker, not isolated): g2.run(D) -> D carries tag 0 and sits in W's pool: M cannot take it while isolated
//   4. M:  isolate([&]{ g2.wait(); });            scope 2, same stack depth -> tag t2 == t1; the only task M may take is A
//   5. A runs on M inside scope 2 (violation); it releases the blocker, W runs D, g2.wait() returns.
// A control run with the second isolate() made one frame deeper (different address) shows that A is then NOT taken in scope 2
// (the blocker is released by a timeout instead).
// exit code 0 = isolation held in both runs, 1 = A was executed by the thread waiting inside scope 2, 2 = watchdog.
#include <oneapi/tbb/global_control.h>
#include <oneapi/tbb/task_arena.h>
#include <oneapi/tbb/task_group.h>
#include <atomic>
#include <chrono>
#include <cstdio>
#include <cstdlib>
#include <thread>

static std::atomic<bool> blocker_started, go, d_spawned, a_ran, in_scope2, a_ran_in_scope2;
static std::thread::id main_id, a_thread;

template <class F> __attribute__((noinline)) static void scope(F f) { tbb::this_task_arena::isolate(f); }
template <class F> __attribute__((noinline)) static void deeper(F f) { volatile char pad[256]; pad[0] = 0; scope(f); (void)pad[0]; }

static bool scenario(bool same_depth) {
    blocker_started = go = d_spawned = a_ran = in_scope2 = a_ran_in_scope2 = false;
    tbb::task_group g0, g1, g2;
    g0.run([&] {                                   // the blocker: taken by the worker
        blocker_started = true;
        while (!go) std::this_thread::yield();
        g2.run([] {});                             // D: spawned by a thread that is not isolated -> tag 0
        d_spawned = true;
        auto t0 = std::chrono::steady_clock::now();
        while (!a_ran && std::chrono::steady_clock::now() - t0 < std::chrono::seconds(2)) std::this_thread::yield();
    });
    while (!blocker_started) std::this_thread::yield();            // (M does not wait inside TBB: it takes no task here)
    scope([&] { g1.run([&] {                       // ---- scope 1: A is spawned and NOT waited for
        a_thread = std::this_thread::get_id();
        if (in_scope2 && a_thread == main_id) a_ran_in_scope2 = true;
        a_ran = true; }); });
    go = true;
    while (!d_spawned) std::this_thread::yield();
    auto second = [&] { in_scope2 = true; g2.wait(); in_scope2 = false; };   // ---- scope 2: waits for D, which it cannot take
    if (same_depth) scope(second); else deeper(second);
    g1.wait(); g0.wait();
    return a_ran_in_scope2;
}

int main() {
    std::thread([] { std::this_thread::sleep_for(std::chrono::seconds(60)); std::printf("WATCHDOG\n"); std::_Exit(2); }).detach();
    tbb::global_control gc(tbb::global_control::max_allowed_parallelism, 2);
    main_id = std::this_thread::get_id();
    bool control = scenario(false);
    std::printf("control (second isolate() one frame deeper, different tag): task of scope 1 executed by the waiter of scope 2: %s\n", control ? "YES" : "no");
    bool reuse = scenario(true);
    std::printf("same stack depth (tag re-used):                             task of scope 1 executed by the waiter of scope 2: %s\n", reuse ? "YES" : "no");
    if (reuse) std::printf("VIOLATION: a thread waiting inside this_task_arena::isolate executed a task that was spawned in an earlier, already finished isolation scope\n");
    return (control || reuse) ? 1 : 0;
}
