// C16 white-box harness.  This translation unit *includes* /repo/src/tbb/arena.cpp (so that the member templates
// arena::occupy_free_slot<bool> can be instantiated here) and is linked with every other /repo/src/tbb/*.cpp,
// all compiled from the current tree with -fno-access-control and the E-SHIM prelude.  Nothing of /repo is edited.
//
//   wb consts                 constants as JSON (E-GEN)
//   wb pure    < lines        update_allotment / limit_delta / pending word / update_request on white-box inputs
//   wb world   < lines        real market + real thread_request_serializer_proxy wired by a real threading_control_impl
//                             (fake rml server records adjust_job_count_estimate), driven op by op
//   wb gc      < lines        real global_control create/destroy -> real threading_control::set_active_num_workers -> world
//   wb slots <rand seed n | dfs bound max | replay s,c,h,e,d> < scenario     E-SHIM: arena::occupy_free_slot / release
//   wb pend  <rand seed n | dfs bound max | replay ...>      < scenario     E-SHIM: thread_request_serializer::update
//   wb mand  <rand seed n | dfs bound max | replay ...>      < scenario     E-SHIM: arena::advertise_new_work / out_of_work (mandatory concurrency)
#include "tbb/arena.cpp"
#include "tbb/market.h"
#include "tbb/threading_control.h"
#include "tbb/thread_dispatcher.h"
#include "tbb/thread_request_serializer.h"
#include "tbb/thread_data.h"
#include "oneapi/tbb/global_control.h"
#include <cstdio>
#include <cstring>
#include <map>
#include <sstream>
#include <string>
#include <vector>

using namespace tbb::detail;
using namespace tbb::detail::r1;

namespace tbb { namespace detail { namespace r1 {
class control_storage;
// file-local in global_control.cpp (external linkage, no header)
std::size_t global_control_active_value_unsafe(d1::global_control::parameter);
}}}

struct fake_server : tbb::detail::r1::rml::tbb_server {
    long long sum = 0; long calls = 0; int last = 0;
    version_type version() const override { return 0; }
    void request_close_connection(bool) override {}
    void yield() override {}
    void independent_thread_number_changed(int) override {}
    unsigned default_concurrency() const override { return 0; }
    void adjust_job_count_estimate(int d) override { sum += d; last = d; ++calls; }
};

// ------------------------------------------------------------------------------------------------------------
// the world: threading_control_impl with a real market and a real serializer proxy, no threads
// ------------------------------------------------------------------------------------------------------------
struct world_t {
    fake_server srv;
    thread_dispatcher* td = nullptr;
    threading_control_impl* impl = nullptr;
    threading_control* tc = nullptr;
    market* mkt = nullptr;
    thread_request_serializer_proxy* prox = nullptr;
    struct cl { int id; unsigned level; arena* a; pm_client* c; };
    std::vector<cl> cls;

    void build(unsigned soft, unsigned hard) {
        td = (thread_dispatcher*)cache_aligned_allocate(sizeof(thread_dispatcher));
        std::memset((void*)td, 0, sizeof(thread_dispatcher));
        td->my_server = &srv;
        td->my_num_workers_hard_limit = hard;
        impl = (threading_control_impl*)cache_aligned_allocate(sizeof(threading_control_impl));
        std::memset((void*)impl, 0, sizeof(*impl));
        mkt = new (cache_aligned_allocate(sizeof(market))) market(soft);
        impl->my_permit_manager.reset(mkt);
        impl->my_thread_dispatcher.reset(td);
        impl->my_thread_request_serializer = make_cache_aligned_unique<thread_request_serializer_proxy>(*td, (int)soft);
        prox = impl->my_thread_request_serializer.get();
        impl->my_permit_manager->set_thread_request_observer(*prox);
        tc = new (cache_aligned_allocate(sizeof(threading_control))) threading_control(1, 1);
        tc->my_pimpl.reset(impl);
    }
    cl* find(int id) { for (auto& c : cls) if (c.id == id) return &c; return nullptr; }
    int id_of(pm_client* p) { for (auto& c : cls) if (c.c == p) return c.id; return -1; }

    std::string show() {
        std::ostringstream o;
        o << "soft=" << mkt->my_num_workers_soft_limit << " total=" << mkt->my_total_demand << " mand=" << mkt->my_mandatory_num_requested << " D=";
        for (unsigned l = 0; l < market::num_priority_levels; ++l) o << (l ? "," : "") << mkt->my_priority_level_demand[l];
        o << " C=";
        for (unsigned l = 0; l < market::num_priority_levels; ++l) {
            if (l) o << " | ";
            bool first = true;
            for (pm_client* p : mkt->my_clients[l]) {
                cl* c = nullptr; for (auto& x : cls) if (x.c == p) c = &x;
                if (!first) o << " ";
                first = false;
                o << (c ? c->id : -1) << ":" << p->my_min_workers << ":" << p->my_max_workers << ":"
                  << c->a->my_num_workers_allotted.load(std::memory_order_relaxed) << ":" << (c->a->my_is_top_priority.load(std::memory_order_relaxed) ? 1 : 0);
            }
        }
        thread_request_serializer& s = prox->my_serializer;
        o << " ser=" << s.my_soft_limit << "," << s.my_total_request.load(std::memory_order_relaxed) << "," << s.my_pending_delta.load(std::memory_order_relaxed)
          << "," << srv.sum << " prox=" << prox->my_num_mandatory_requests.load(std::memory_order_relaxed) << "," << (prox->my_is_mandatory_concurrency_enabled ? 1 : 0);
        return o.str();
    }
};

static world_t* g_w = nullptr;

static arena& make_arena(unsigned level, unsigned max_num_workers) {
    // a two-slot arena whose my_max_num_workers word is then set to the requested value (the only arena word
    // arena::update_request reads besides its two request counters); avoids allocating 10^5 slots.
    arena& a = arena::allocate_arena(nullptr, 2, 1, level);
    a.my_max_num_workers = max_num_workers;
    return a;
}

static bool world_line(std::vector<std::string>& w, std::string& out) {
    auto num = [](const std::string& s, long long& v) { char* e; errno = 0; v = strtoll(s.c_str(), &e, 10); return !s.empty() && !*e && !errno; };
    long long a, b, c;
    if (w[0] == "reset" && w.size() == 2 && num(w[1], a) && a >= 0) {
        g_w = new world_t(); g_w->build((unsigned)a, 1u << 20);
        threading_control::g_threading_control = g_w->tc;
        out = g_w->show(); return true;
    }
    if (!g_w) return false;
    world_t& W = *g_w;
    if (w[0] == "reg" && w.size() == 4 && num(w[1], a) && num(w[2], b) && num(w[3], c) && a >= 0 && b >= 0 && c >= 0) {
        if (W.find((int)a) || b >= (long long)market::num_priority_levels) return false;
        arena& ar = make_arena((unsigned)b, (unsigned)c);
        pm_client* pc = W.mkt->create_client(ar);
        d1::constraints cs;
        W.impl->my_permit_manager->register_client(pc, cs);
        W.cls.push_back({(int)a, (unsigned)b, &ar, pc});
        out = W.show(); return true;
    }
    if (w[0] == "unreg" && w.size() == 2 && num(w[1], a)) {
        world_t::cl* c0 = W.find((int)a);
        if (!c0 || c0->c->my_max_workers != 0 || c0->a->my_mandatory_requests != 0) return false;
        W.impl->my_permit_manager->unregister_and_destroy_client(*c0->c);
        for (size_t i = 0; i < W.cls.size(); ++i) if (W.cls[i].id == (int)a) { W.cls.erase(W.cls.begin() + i); break; }
        out = W.show(); return true;
    }
    if (w[0] == "adj" && w.size() == 4 && num(w[1], a) && num(w[2], b) && num(w[3], c)) {
        world_t::cl* c0 = W.find((int)a);
        if (!c0 || b < -1 || b > 1) return false;
        W.impl->adjust_demand(threading_control_client(c0->c, (thread_dispatcher_client*)1), (int)b, (int)c);
        out = W.show(); return true;
    }
    if (w[0] == "lim" && w.size() == 2 && num(w[1], a) && a >= 0) {
        W.impl->set_active_num_workers((unsigned)a);
        out = W.show(); return true;
    }
    return false;
}

// ------------------------------------------------------------------------------------------------------------
// pure lines
// ------------------------------------------------------------------------------------------------------------
struct pool_t {
    struct ent { arena* a; pm_client* c; };
    std::vector<ent> v; size_t used = 0;
    market* maker = nullptr;
    ent& get(unsigned level) {
        if (!maker) maker = new (cache_aligned_allocate(sizeof(market))) market(0);
        if (used == v.size()) { arena& a = arena::allocate_arena(nullptr, 2, 1, 0); v.push_back({&a, maker->create_client(a)}); }
        ent& e = v[used++];
        e.a->my_priority_level = level;
        e.a->my_num_workers_allotted.store(0, std::memory_order_relaxed);
        e.a->my_is_top_priority.store(false, std::memory_order_relaxed);
        return e;
    }
};
static pool_t g_pool;

static bool pure_line(std::vector<std::string>& w, std::string& out) {
    auto num = [](const std::string& s, long long& v) { char* e; errno = 0; v = strtoll(s.c_str(), &e, 10); return !s.empty() && !*e && !errno; };
    std::ostringstream o;
    if (w[0] == "allot" && w.size() >= 4) {
        long long soft, total, mand;
        if (!num(w[1], soft) || !num(w[2], total) || !num(w[3], mand)) return false;
        market* m = new (cache_aligned_allocate(sizeof(market))) market((unsigned)soft);
        m->my_total_demand = (int)total; m->my_mandatory_num_requested = (int)mand;
        g_pool.used = 0;
        std::vector<std::vector<pool_t::ent>> lv;
        size_t i = 4;
        while (i < w.size()) {
            if (w[i] != "L" || i + 1 >= w.size() || lv.size() >= market::num_priority_levels) return false;
            long long D; if (!num(w[i + 1], D)) return false;
            unsigned l = (unsigned)lv.size(); lv.emplace_back();
            m->my_priority_level_demand[l] = (int)D;
            i += 2;
            while (i < w.size() && w[i] != "L") {
                size_t k = w[i].find(':'); long long mn, mx;
                if (k == std::string::npos || !num(w[i].substr(0, k), mn) || !num(w[i].substr(k + 1), mx)) return false;
                pool_t::ent e = g_pool.get(l);
                e.c->my_min_workers = (int)mn; e.c->my_max_workers = (int)mx;
                m->my_clients[l].push_back(e.c);
                lv.back().push_back(e);
                ++i;
            }
        }
        m->update_allotment();
        long long sum = 0;
        for (size_t l = 0; l < lv.size(); ++l) {
            if (l) o << " | ";
            for (size_t k = 0; k < lv[l].size(); ++k) {
                unsigned al = lv[l][k].a->my_num_workers_allotted.load(std::memory_order_relaxed);
                sum += (int)al;
                o << (k ? " " : "") << (int)al << ":" << (lv[l][k].a->my_is_top_priority.load(std::memory_order_relaxed) ? 1 : 0);
            }
        }
        o << " # " << sum;
        for (unsigned l = 0; l < market::num_priority_levels; ++l) m->my_clients[l].clear();
        m->~market(); cache_aligned_deallocate(m);
        out = o.str(); return true;
    }
    if (w[0] == "ld" && w.size() == 4) {
        long long d, l, n; if (!num(w[1], d) || !num(w[2], l) || !num(w[3], n)) return false;
        o << thread_request_serializer::limit_delta((int)d, (int)l, (int)n); out = o.str(); return true;
    }
    static fake_server srv; static thread_dispatcher* td = nullptr;
    if (!td) { td = (thread_dispatcher*)cache_aligned_allocate(sizeof(thread_dispatcher)); std::memset((void*)td, 0, sizeof(thread_dispatcher)); td->my_server = &srv; }
    if (w[0] == "add" && w.size() == 3) {
        // the packing arithmetic of update(): fetch_add on a word preset to w[1]; a non-drainer leaves it there
        unsigned long long word = strtoull(w[1].c_str(), nullptr, 10); long long d; if (!num(w[2], d)) return false;
        thread_request_serializer s(*td, 0);
        s.my_pending_delta.store(word, std::memory_order_relaxed);
        long c0 = srv.calls;
        s.update((int)d);
        bool drained = srv.calls != c0;
        // drainer: the word is back at the base and my_total_request holds the extracted delta
        if (drained) o << "D " << 1 << " " << s.my_total_request.load(std::memory_order_relaxed);
        else o << s.my_pending_delta.load(std::memory_order_relaxed) << " " << 0;
        out = o.str(); return true;
    }
    if (w[0] == "upd" && w.size() == 5) {
        long long soft, total, d; if (!num(w[1], soft) || !num(w[2], total) || !num(w[4], d)) return false;
        unsigned long long word = strtoull(w[3].c_str(), nullptr, 10);
        thread_request_serializer s(*td, (int)soft);
        s.my_total_request.store((int)total, std::memory_order_relaxed);
        s.my_pending_delta.store(word, std::memory_order_relaxed);
        long c0 = srv.calls;
        s.update((int)d);
        o << s.my_pending_delta.load(std::memory_order_relaxed) << " " << s.my_total_request.load(std::memory_order_relaxed) << " ";
        if (srv.calls != c0) o << srv.last; else o << "-";
        out = o.str(); return true;
    }
    if (w[0] == "ur" && w.size() == 6) {
        long long mnw, mand, tot, md, wd;
        if (!num(w[1], mnw) || !num(w[2], mand) || !num(w[3], tot) || !num(w[4], md) || !num(w[5], wd) || md < -1 || md > 1) return false;
        static arena* a = &arena::allocate_arena(nullptr, 2, 1, 0);
        a->my_max_num_workers = (unsigned)mnw; a->my_mandatory_requests = (int)mand; a->my_total_num_workers_requested = (int)tot;
        auto r = a->update_request((int)md, (int)wd);
        o << r.first << " " << r.second; out = o.str(); return true;
    }
    return false;
}

// ------------------------------------------------------------------------------------------------------------
// global_control lines
// ------------------------------------------------------------------------------------------------------------
static std::map<long long, tbb::global_control*> g_gcs;
static int g_gc_param = 0;

namespace tbb { namespace detail { namespace r1 {
struct gc_peek;   // controls[] is a file-static of global_control.cpp: reach the storage through a live object
}}}

static bool gc_line(std::vector<std::string>& w, std::string& out) {
    auto num = [](const std::string& s, long long& v) { char* e; errno = 0; v = strtoll(s.c_str(), &e, 10); return !s.empty() && !*e && !errno; };
    long long a, b;
    std::ostringstream o;
    auto show = [&] {
        auto p = (tbb::global_control::parameter)g_gc_param;
        o << "value=" << global_control_active_value_unsafe(p);
        if (g_gc_param == 0) o << " soft=" << g_w->mkt->my_num_workers_soft_limit << " ser=" << g_w->prox->my_serializer.my_soft_limit;
        else o << " soft=- ser=-";
        out = o.str();
    };
    if (w[0] == "reset" && w.size() == 3 && num(w[1], a) && num(w[2], b)) {
        if (!g_gcs.empty()) return false;
        g_gc_param = a ? 0 : 1;     // preferMin=1: max_allowed_parallelism; 0: thread_stack_size
        g_w = new world_t();
        g_w->build((unsigned)(global_control_active_value_unsafe(tbb::global_control::max_allowed_parallelism) - 1), 1u << 20);
        threading_control::g_threading_control = g_w->tc;
        show(); return true;
    }
    if (!g_w) return false;
    if (w[0] == "create" && w.size() == 3 && num(w[1], a) && num(w[2], b) && b >= 1) {
        if (g_gcs.count(a)) return false;
        g_gcs[a] = new tbb::global_control((tbb::global_control::parameter)g_gc_param, (std::size_t)b);
        show(); return true;
    }
    if (w[0] == "destroy" && w.size() == 2 && num(w[1], a)) {
        auto it = g_gcs.find(a);
        if (it == g_gcs.end()) return false;
        delete it->second; g_gcs.erase(it);
        show(); return true;
    }
    return false;
}

static int line_loop(bool (*f)(std::vector<std::string>&, std::string&)) {
    char* line = nullptr; size_t cap = 0;
    while (getline(&line, &cap, stdin) > 0) {
        std::istringstream is(line); std::vector<std::string> w; std::string t;
        while (is >> t) w.push_back(t);
        if (w.empty()) continue;
        std::string out;
        if (f(w, out)) std::puts(out.c_str()); else std::puts("bad-op");
    }
    std::fflush(stdout);
    return 0;
}

// ------------------------------------------------------------------------------------------------------------
// E-SHIM scenarios
// ------------------------------------------------------------------------------------------------------------
struct sched_args { std::string mode; std::string arg; long maxruns; };

template <class RunOnce>
static int drive_schedules(const sched_args& sa, RunOnce run_once) {
    long runs = 0, bad = 0;
    if (sa.mode == "rand") {
        unsigned long long seed = strtoull(sa.arg.c_str(), 0, 10);
        for (long i = 0; i < sa.maxruns; ++i) { verif::RandomSchedule s(seed * 7919 + i, 32 + (int)(i % 4) * 56); if (!run_once(s, (int)i, true)) bad++; runs++; }
    } else if (sa.mode == "dfs") {
        verif::DfsSchedule d(atoi(sa.arg.c_str()));
        do { if (!run_once(d, (int)runs, false)) { bad++; break; } runs++; } while (runs < sa.maxruns && d.next());
    } else if (sa.mode == "replay") {
        verif::ReplaySchedule s; std::stringstream ss(sa.arg); std::string tok;
        while (std::getline(ss, tok, ',')) if (!tok.empty()) s.tids.push_back(atoi(tok.c_str()));
        if (!run_once(s, 0, true)) bad++;
        runs++;
    } else return 2;
    std::printf("summary runs=%ld bad=%ld\n", runs, bad);
    std::fflush(stdout);
    return bad ? 1 : 0;
}

static void print_event(const verif::Event& e, const char* var) {
    std::printf("e %d %s %s %s %llu %llu %d\n", e.tid, verif::kind_name(e.kind), var, verif::order_name(e.order),
                (unsigned long long)e.a, (unsigned long long)e.b, e.ok);
}

// --- slots ---------------------------------------------------------------------------------------------------
struct slot_thread { bool worker; int rounds; unsigned short first_index; };
static unsigned g_maxc = 2, g_reserved = 1;
static std::atomic<int> g_inside_point{0};   // instrumented: a scheduling point while a thread is inside its slot
static std::vector<slot_thread> g_sth;

static bool slots_run_once(verif::Schedule& sch, int run_idx, bool print) {
    arena& a = arena::allocate_arena(nullptr, g_maxc, g_reserved, 0);
    const unsigned ns = a.my_num_slots, rs = a.my_num_reserved_slots;
    size_t T = g_sth.size();
    std::vector<thread_data*> tds;
    for (size_t t = 0; t < T; ++t) {
        thread_data* td = new (cache_aligned_allocate(sizeof(thread_data))) thread_data(g_sth[t].first_index, g_sth[t].worker);
        td->my_random.init((unsigned)(0x9E37u * (t + 1) + 17u * (unsigned)run_idx + 1u));      // deterministic (the constructor seeds from `this`)
        tds.push_back(td);
    }
    std::vector<int> owner(ns, -1);
    int inside = 0; std::string gerr;
    std::vector<std::function<void()>> bodies;
    for (size_t t = 0; t < T; ++t) bodies.push_back([&, t] {
        thread_data& td = *tds[t];
        for (int r = 0; r < g_sth[t].rounds; ++r) {
            std::size_t idx = g_sth[t].worker ? a.occupy_free_slot<true>(td) : a.occupy_free_slot<false>(td);
            verif::note("res", idx == arena::out_of_arena ? (uint64_t)-1 : (uint64_t)idx, 0);
            if (idx == arena::out_of_arena) continue;
            // implementation-side monitor of the property (plain variables: one controlled thread runs at a time)
            char buf[160];
            if (idx >= ns) { snprintf(buf, sizeof buf, "thread %zu got index %zu >= num_slots %u", t, idx, ns); gerr = buf; continue; }
            if (owner[idx] != -1) { snprintf(buf, sizeof buf, "threads %d and %zu both occupy slot %zu", owner[idx], t, idx); gerr = buf; }
            if (g_sth[t].worker && idx < rs) { snprintf(buf, sizeof buf, "worker thread %zu occupies reserved slot %zu (reserved=%u)", t, idx, rs); gerr = buf; }
            owner[idx] = (int)t; ++inside;
            if (inside > (int)ns) { snprintf(buf, sizeof buf, "%d threads inside an arena of %u slots", inside, ns); gerr = buf; }
            for (unsigned k = 0; k < ns; ++k) if (owner[k] != -1 && a.my_limit.a.load(std::memory_order_relaxed) < k + 1) {
                snprintf(buf, sizeof buf, "my_limit %u does not cover occupied slot %u (owner thread %d)", a.my_limit.a.load(std::memory_order_relaxed), k, owner[k]); gerr = buf; }
            td.my_arena_index = (unsigned short)idx;       // what attach_arena() records; next attempt starts from here
            verif::note("in", idx, 0);
            (void)g_inside_point.load(std::memory_order_relaxed);    // other threads may run while this one is inside
            if (owner[idx] == (int)t) owner[idx] = -1;
            --inside;
            a.my_slots[idx].release();
        }
    });
    verif::Result res = verif::run(bodies, sch);
    bool ok = gerr.empty() && !res.deadlock;
    if (print || !ok) {
        std::printf("run %d\ncfg %u %u", run_idx, ns, rs);
        for (size_t t = 0; t < T; ++t) std::printf(" %d", g_sth[t].worker ? 1 : 0);
        std::printf("\n");
        for (auto& e : res.log) {
            if (e.kind == verif::K_NOTE) { if (e.tag && !strcmp(e.tag, "res")) std::printf("r %d res %lld\n", e.tid, (long long)e.a); continue; }
            if (e.kind > verif::K_FXOR) continue;
            if (e.addr == (const void*)&a.my_limit) { print_event(e, "limit"); continue; }
            for (unsigned i = 0; i < ns; ++i) if (e.addr == (const void*)&a.my_slots[i].my_is_occupied) {
                char nm[32]; snprintf(nm, sizeof nm, "occ%u", i); print_event(e, nm); break;
            }
        }
        std::printf("mon %s%s\n", gerr.empty() ? (res.deadlock ? "DEADLOCK" : "ok") : "VIOLATION ", gerr.c_str());
        std::printf("sched"); for (int s : res.schedule) std::printf(" %d", s);
        std::printf("\nend\n");
        std::fflush(stdout);
    }
    if (res.deadlock) { std::fflush(stdout); _exit(3); }
    for (auto td : tds) { td->~thread_data(); cache_aligned_deallocate(td); }
    a.my_references = 0;
    a.free_arena();
    return ok;
}

// --- pending delta --------------------------------------------------------------------------------------------
static int g_psoft = 0;
static std::vector<int> g_pdeltas;

static bool pend_run_once(verif::Schedule& sch, int run_idx, bool print) {
    fake_server srv;
    thread_dispatcher* td = (thread_dispatcher*)cache_aligned_allocate(sizeof(thread_dispatcher));
    std::memset((void*)td, 0, sizeof(thread_dispatcher)); td->my_server = &srv;
    thread_request_serializer* s = new (cache_aligned_allocate(sizeof(thread_request_serializer))) thread_request_serializer(*td, g_psoft);
    size_t T = g_pdeltas.size();
    std::vector<std::function<void()>> bodies;
    for (size_t t = 0; t < T; ++t) bodies.push_back([&, t] { s->update(g_pdeltas[t]); });
    verif::Result res = verif::run(bodies, sch);
    long long sum = 0; for (int d : g_pdeltas) sum += d;
    int total = s->my_total_request.load(std::memory_order_relaxed);
    unsigned long long pend = s->my_pending_delta.load(std::memory_order_relaxed);
    long long expect_handed = std::min<long long>(g_psoft, sum) - std::min<long long>(g_psoft, 0);
    std::string gerr; char buf[200];
    if (!res.deadlock) {
        if (total != sum) { snprintf(buf, sizeof buf, "my_total_request=%d but the deltas sum to %lld (a delta was lost or counted twice)", total, sum); gerr = buf; }
        else if (pend != thread_request_serializer::pending_delta_base) { snprintf(buf, sizeof buf, "my_pending_delta=%llu at quiescence", pend); gerr = buf; }
        else if (srv.sum != expect_handed) { snprintf(buf, sizeof buf, "thread dispatcher was asked for %lld workers in total, expected min(limit,total)=%lld", srv.sum, expect_handed); gerr = buf; }
    }
    bool ok = gerr.empty() && !res.deadlock;
    if (print || !ok) {
        std::printf("run %d\ncfg %d", run_idx, g_psoft);
        for (int d : g_pdeltas) std::printf(" %d", d);
        std::printf("\n");
        for (auto& e : res.log) {
            if (e.kind > verif::K_FXOR) continue;
            if (e.addr == (const void*)&s->my_pending_delta) print_event(e, "pending");
            else if (e.addr == (const void*)&s->my_total_request && e.kind != verif::K_LOAD) print_event(e, "total");
        }
        std::printf("fin total=%d handed=%lld pending=%llu\n", total, srv.sum, pend);
        std::printf("mon %s%s\n", gerr.empty() ? (res.deadlock ? "DEADLOCK" : "ok") : "VIOLATION ", gerr.c_str());
        std::printf("sched"); for (int x : res.schedule) std::printf(" %d", x);
        std::printf("\nend\n");
        std::fflush(stdout);
    }
    if (res.deadlock) { std::fflush(stdout); _exit(3); }
    s->~thread_request_serializer(); cache_aligned_deallocate(s); cache_aligned_deallocate(td);
    return ok;
}

// --- mandatory concurrency: advertise_new_work / out_of_work on a real arena of the white-box world -----------------
//   cfg <max_concurrency> <reserved> <soft limit>        th <actions>   (e enqueue, s "spawn": critical-stream push + advertise<work_spawned>,
//   o out_of_work, p pop one enqueued task, g pop one "spawned" task)
// Every access to my_mandatory_concurrency / my_pool_state / the fifo population word is printed (busy values as 2+tid); after the
// controlled run a sequential tail drains the fifo stream and calls out_of_work() once more: the mandatory request must be gone.
struct mtask : d1::task {
    d1::task* execute(d1::execution_data&) override { return nullptr; }
    d1::task* cancel(d1::execution_data&) override { return nullptr; }
};
static unsigned g_mmaxc = 1, g_mres = 1, g_msoft = 0;
static std::vector<std::string> g_mprog;

static bool mand_run_once(verif::Schedule& sch, int run_idx, bool print) {
    world_t W; W.build(g_msoft, 1u << 20);
    W.impl->my_waiting_threads_monitor = make_cache_aligned_unique<thread_control_monitor>();
    arena& a = arena::allocate_arena(nullptr, g_mmaxc, g_mres, 0);
    pm_client* pc = W.mkt->create_client(a);
    d1::constraints cs;
    W.impl->my_permit_manager->register_client(pc, cs);
    a.my_threading_control = W.tc;
    a.my_tc_client = threading_control_client(pc, (thread_dispatcher_client*)1);
    size_t T = g_mprog.size();
    std::vector<std::function<void()>> bodies;
    for (size_t t = 0; t < T; ++t) bodies.push_back([&, t] {
        FastRandom rnd((void*)(uintptr_t)(0x1000u * (t + 1) + 16u * (unsigned)run_idx));
        unsigned hint = (unsigned)t, chint = (unsigned)t;
        for (char c : g_mprog[t]) {
            if (c == 'e') {
                verif::note("act", 1, 0);
                a.my_fifo_task_stream.push(new mtask, random_lane_selector(rnd));
                a.advertise_new_work<arena::work_enqueued>();
            } else if (c == 's') {
                verif::note("act", 2, 0);
                a.my_critical_task_stream.push(new mtask, random_lane_selector(rnd));
                a.advertise_new_work<arena::work_spawned>();
            } else if (c == 'o') {
                verif::note("act", 3, 0);
                a.out_of_work();
            } else if (c == 'p') {
                verif::note("act", 4, 0);
                if (!a.my_fifo_task_stream.empty()) delete a.my_fifo_task_stream.pop(subsequent_lane_selector(hint));
            } else if (c == 'g') {
                if (!a.my_critical_task_stream.empty()) delete a.my_critical_task_stream.pop(preceding_lane_selector(chint));
            }
        }
    });
    verif::Result res = verif::run(bodies, sch);
    auto words = [&](const char* tag) {
        thread_request_serializer& sr = W.prox->my_serializer;
        std::printf("%s mand=%d pool=%d hasEnq=%d mandReq=%d totalReq=%d minW=%d maxW=%d marketMand=%d proxyMand=%d allotted=%u serTotal=%d handed=%lld\n", tag,
                    a.my_mandatory_concurrency.test() ? 1 : 0, a.my_pool_state.test() ? 1 : 0, a.my_fifo_task_stream.empty() ? 0 : 1,
                    a.my_mandatory_requests, a.my_total_num_workers_requested, pc->my_min_workers, pc->my_max_workers, W.mkt->my_mandatory_num_requested,
                    W.prox->my_num_mandatory_requests.load(std::memory_order_relaxed), a.my_num_workers_allotted.load(std::memory_order_relaxed),
                    sr.my_total_request.load(std::memory_order_relaxed), W.srv.sum);
    };
    std::string gerr; char buf[240];
    auto monitor = [&](const char* when) {
        int flag = a.my_mandatory_concurrency.test() ? 1 : 0, req = a.my_mandatory_requests, mm = W.mkt->my_mandatory_num_requested;
        int pm = W.prox->my_num_mandatory_requests.load(std::memory_order_relaxed);
        if (gerr.empty() && !(req == flag && mm == flag && pm == flag && pc->my_min_workers == flag)) {
            snprintf(buf, sizeof buf, "%s: mandatory flag %d but my_mandatory_requests %d, market my_mandatory_num_requested %d, serializer proxy %d, min_workers %d",
                     when, flag, req, mm, pm, pc->my_min_workers);
            gerr = buf;
        }
    };
    bool ok = true;
    if (!res.deadlock) {
        if (print) {
            std::printf("run %d\ncfg %u %u %u %zu\n", run_idx, a.my_num_slots, a.my_num_reserved_slots, a.my_max_num_workers, T);
            std::map<uint64_t, int> busy;
            auto val = [&](uint64_t v) -> unsigned long long { if (v <= 1) return v; auto it = busy.find(v); return it == busy.end() ? 99 : 2 + it->second; };
            for (auto& e : res.log) {
                if (e.kind == verif::K_NOTE) { if (e.tag && !strcmp(e.tag, "act")) std::printf("e %d act %llu\n", e.tid, (unsigned long long)e.a); continue; }
                if (e.kind > verif::K_FXOR) continue;
                const char* var = e.addr == (const void*)&a.my_mandatory_concurrency.my_state ? "mand" : e.addr == (const void*)&a.my_pool_state.my_state ? "pool"
                                : e.addr == (const void*)&a.my_fifo_task_stream.population ? "fifo" : nullptr;
                if (!var) continue;
                if (var[0] == 'f') {
                    if (e.kind == verif::K_LOAD) std::printf("e %d load fifo %d\n", e.tid, e.a ? 1 : 0);
                    else if (e.kind == verif::K_FOR) std::printf("e %d or fifo\n", e.tid);
                    else if (e.kind == verif::K_FAND) std::printf("e %d and fifo %d\n", e.tid, e.b ? 1 : 0);
                    else std::printf("e %d other fifo\n", e.tid);
                    continue;
                }
                if (e.kind == verif::K_CAS && e.ok && e.a == 1 && e.b > 1) busy[e.b] = e.tid;
                if (e.kind == verif::K_LOAD) std::printf("e %d load %s %llu\n", e.tid, var, val(e.a));
                else if (e.kind == verif::K_CAS) std::printf("e %d cas %s %llu %llu %d\n", e.tid, var, val(e.a), val(e.b), e.ok);
                else std::printf("e %d other %s\n", e.tid, var);
            }
            words("fin");
        }
        monitor("at rest after the concurrent phase");
        // sequential tail: the enqueued work is taken, then an idle thread polls out_of_work()
        unsigned hint = 0; int pops = 0;
        while (!a.my_fifo_task_stream.empty()) { delete a.my_fifo_task_stream.pop(subsequent_lane_selector(hint)); ++pops; }
        bool ht = a.has_tasks();
        a.out_of_work();
        if (print) { std::printf("tail %d %d\n", pops, ht ? 1 : 0); words("fin2"); }
        monitor("after the fifo stream was drained and out_of_work() returned");
        if (gerr.empty() && (a.my_mandatory_concurrency.test() || a.my_mandatory_requests != 0 || pc->my_min_workers != 0)) {
            snprintf(buf, sizeof buf, "no enqueued task is left and out_of_work() returned, but the mandatory request is not withdrawn (flag %d, my_mandatory_requests %d, has_tasks %d)",
                     a.my_mandatory_concurrency.test() ? 1 : 0, a.my_mandatory_requests, ht ? 1 : 0);
            gerr = buf;
        }
        if (gerr.empty() && g_msoft == 0 && a.my_num_workers_allotted.load(std::memory_order_relaxed) != 0) {
            snprintf(buf, sizeof buf, "soft limit 0, no enqueued work, but %u worker(s) stay allotted to the arena", a.my_num_workers_allotted.load(std::memory_order_relaxed));
            gerr = buf;
        }
    }
    ok = gerr.empty() && !res.deadlock;
    if (print || !ok) {
        if (!print) std::printf("run %d\n", run_idx);
        std::printf("mon %s%s\n", gerr.empty() ? (res.deadlock ? "DEADLOCK" : "ok") : "VIOLATION ", gerr.c_str());
        std::printf("sched"); for (int x : res.schedule) std::printf(" %d", x);
        std::printf("\nend\n");
        std::fflush(stdout);
    }
    if (res.deadlock) { std::fflush(stdout); _exit(3); }
    return ok;
}

int main(int argc, char** argv) {
    if (argc < 2) return 2;
    std::string mode = argv[1];
    if (mode == "consts") {
        std::printf("{\"pendingDeltaBase\": %llu, \"numPriorityLevels\": %u, \"refExternalBits\": %u, \"intBits\": %zu, \"pendingWordBits\": %zu, "
                    "\"defaultNumThreads\": %zu, \"threadStackSize\": %zu, \"outOfArenaIsAllOnes\": %d}\n",
                    (unsigned long long)thread_request_serializer::pending_delta_base, market::num_priority_levels, arena::ref_external_bits,
                    sizeof(int) * 8, sizeof(thread_request_serializer::my_pending_delta) * 8,
                    (std::size_t)global_control_active_value_unsafe(tbb::global_control::max_allowed_parallelism),
                    (std::size_t)global_control_active_value_unsafe(tbb::global_control::thread_stack_size),
                    arena::out_of_arena == ~std::size_t(0) ? 1 : 0);
        return 0;
    }
    if (mode == "pure") return line_loop(pure_line);
    if (mode == "world") return line_loop(world_line);
    if (mode == "gc") return line_loop(gc_line);
    if ((mode == "slots" || mode == "pend" || mode == "mand") && argc >= 4) {
        sched_args sa{argv[2], argv[3], argc > 4 ? atol(argv[4]) : 1};
        char line[4096];
        while (fgets(line, sizeof line, stdin)) {
            std::istringstream is(line); std::string w; is >> w;
            if (mode == "slots") {
                if (w == "cfg") is >> g_maxc >> g_reserved;
                else if (w == "th") { std::string k; int r; unsigned fi; is >> k >> r >> fi; g_sth.push_back({k == "w", r, (unsigned short)fi}); }
            } else if (mode == "mand") {
                if (w == "cfg") is >> g_mmaxc >> g_mres >> g_msoft;
                else if (w == "th") { std::string pr; is >> pr; g_mprog.push_back(pr); }
            } else {
                if (w == "cfg") { is >> g_psoft; int d; while (is >> d) g_pdeltas.push_back(d); }
            }
        }
        if (mode == "slots") return drive_schedules(sa, slots_run_once);
        if (mode == "mand") return drive_schedules(sa, mand_run_once);
        return drive_schedules(sa, pend_run_once);
    }
    return 2;
}
