// Demonstration on the REAL (uninstrumented) library of the C16 known finding `emptied-proxy-keeps-arena-nonempty-finalize-hangs`
// (not built by the check; the check demonstrates the same state deterministically under E-SHIM, harness/c16/rt.cpp, monitor STUCK):
//   L=$(ls -d /repo/_build/*relwithdebinfo* | head -1)
//   g++ -std=c++17 -O1 harness/c16/demo_finalize_hang.cpp -I/repo/include -L$L -ltbb -Wl,-rpath,$L -pthread -o /tmp/demo && /tmp/demo
// max_allowed_parallelism = 1, task_arena(2, 1), two application threads.  Thread A runs a static_partitioner parallel_for: one half is
// mailed to thread B's slot (a task_proxy in A's pool + in B's mailbox).  B takes it through its mailbox, finishes and leaves the arena
// before A has finished its own half; A's wait is then complete, so A leaves without looking at its pool again: the emptied proxy stays
// in A's slot.  arena::has_tasks() counts it (head < tail), out_of_work() can never clear my_pool_state, the arena keeps its worker request,
// is not destroyed by task_arena::terminate, and tbb::finalize() spins in threading_control::wait_last_reference for ever (no worker may
// come and steal the dead proxy because the soft limit is 0).
#include <oneapi/tbb/task_arena.h>
#include <oneapi/tbb/task_group.h>
#include <oneapi/tbb/parallel_for.h>
#include <oneapi/tbb/global_control.h>
#include <atomic>
#include <thread>
#include <cstdio>
#include <chrono>
#include <unistd.h>
int main() {
    tbb::task_scheduler_handle handle{tbb::attach{}};
    tbb::global_control gc(tbb::global_control::max_allowed_parallelism, 1);     // no worker threads
    std::atomic<int> ready{0}, bdone{0}, once{0};
    std::thread::id bid;
    {
        tbb::task_arena a(2, 1);
        tbb::task_group* gp = nullptr; tbb::task_handle hB;
        std::thread B([&] {
            bid = std::this_thread::get_id();
            a.execute([&] { tbb::task_group g; gp = &g; hB = g.defer([] {}); ready = 1; g.wait(); });   // idles in the arena until hB is run
            bdone = 1;
        });
        while (!ready) std::this_thread::yield();
        a.execute([&] {
            tbb::parallel_for(tbb::blocked_range<int>(0, 8, 1), [&](const tbb::blocked_range<int>&) {
                if (std::this_thread::get_id() == bid) { if (!once.exchange(1)) gp->run(std::move(hB)); }      // B got the mailed half: let it leave afterwards
                else while (!bdone) std::this_thread::yield();                                                   // A finishes its half after B has left
            }, tbb::static_partitioner{});
        });
        B.join();
        std::printf("parallel_for done, both threads left the arena; destroying the task_arena\n");
    }
    std::thread watchdog([] { std::this_thread::sleep_for(std::chrono::seconds(5)); std::printf("tbb::finalize did not return within 5 s: HANG\n"); std::fflush(stdout); _exit(7); });
    watchdog.detach();
    tbb::finalize(handle);
    std::printf("finalize returned\n");
    return 0;
}
