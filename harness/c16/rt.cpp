// C16 harness on the WHOLE instrumented runtime (every /repo/src/tbb/*.cpp compiled with the E-SHIM prelude).
//
//   rt scen <file> rand <seed> [stay]     run the scenario program of <file> under a seeded random schedule
//   rt scen <file> replay <rle>           ... under an explicit schedule (tid*count,tid*count,...)
//   rt iso  < ops                         "puppet": one thread plays every slot of a real arena, one line per operation
//   rt nest < ops                         the same with REAL nested isolate_within_arena / task_arena::execute calls (see below)
//
// Scenario program (text):
//   L <max_allowed_parallelism>
//   arena <max_concurrency> <reserved>        (repeated: arena 0, 1, ...; created by the main thread before the scripts start)
//   thread { stmts }                          (repeated: thread 0 = the main thread, the others are additional external threads)
// stmts:
//   exec A { .. }      arenas[A].execute                         iso { .. }        this_task_arena::isolate   (isot { .. }: the functor throws at its end)
//   tg { .. }          task_group g; ..; g.wait()                 run { .. }        g.run(body) on the innermost tg
//   pfor N P { .. }    parallel_for over N indices, grain 1, partitioner P (0 simple, 1 static, 2 affinity, 3 auto); body per index
//   enq A { .. }       arenas[A].enqueue(body); inside a tg the task belongs to the group, otherwise it is counted as pending
//   crit { .. }        a critical task (d1::submit(.., as_critical)) of the innermost tg, submitted to the current arena
//   byp { .. }         a task of the innermost tg whose execute() returns a fresh task running the block (bypass: no take, no filter)
//   spin V / set V     wait for / raise event V                   waitenq           spin until every enqueued task has finished
//   ifthread T { .. }  only when executed by controlled thread T (0 = main, 1.. = the other script threads, then the workers)
//   idle V / wake V    wait inside the current arena's dispatch loop (stealing, mailbox, streams) until another thread executes `wake V`
//   spinmand A B       spin until arena A's mandatory flag reads B (white-box)
//   obs K A / unobs K  activate observer K on arena A (A = -1: global, i.e. the calling thread's arena) / observe(false)
//   lim N A K { .. }   lower max_allowed_parallelism to N for the block; the block (and the BUDGET monitor for N) starts when arena A has <= N-1
//                      active workers or its enqueued backlog has drained to K;   spinworkers A n   spin until arena A has >= n active workers
//   quiesce A          wait until arena A is at rest and check the white-box request counters
//   mk A n r / rm A    create / destroy arena A                   work              a few scheduling points
//
// Implementation-side monitors (independent of the Lean models; only the baton holder runs, so the ghost state is plain):
//   ISO     every body records the isolation region it was created in; a thread whose innermost ghost region is R != 0
//           (it waits inside isolate region R, or inside a task of R) must only start bodies of region R
//   BUDGET  worker threads simultaneously inside bodies <= L-1; with L = 1 one worker, and only in an arena whose
//           "mandatory window" is open (an enqueue since the arena's last quiescent checkpoint)
//   BOUND   threads simultaneously inside bodies of one arena <= max_concurrency (+1: the mandatory worker of a one-thread
//           arena), pairwise distinct current_thread_index below that bound, workers never in reserved slots
//   OBS     per (observer, thread): entry / exit alternate starting with entry; nothing after observe(false) returned;
//           at the end every observer that is still active has had an exit for every entry
//   STUCK   quiesce: out_of_work() can clear the pool-state flag once no task is left (leftover emptied proxies / holes in a slot)
//   REST    quiesce: mandatory flag clear <=> my_mandatory_requests == 0, no request left; at the end the market's and the
//           serializer's mandatory counters and total demand are 0
// exit code: 0 ok, 1 a monitor failed, 3 deadlock / step limit.   RT_TRACE=1 in the environment prints the harness notes and every
// access to the arenas' flag / allotment / reference words after the run (naming happens after the run: the run itself is unchanged).
// Runs are reproducible from (binary, program file, seed, stay): object addresses seed oneTBB's FastRandom, so a rebuilt binary may
// behave differently under the same seed; replays therefore fall back to a fresh search when the recorded seed no longer fails.
#include "oneapi/tbb/global_control.h"
#include "oneapi/tbb/task_arena.h"
#include "oneapi/tbb/task_group.h"
#include "oneapi/tbb/parallel_for.h"
#include "oneapi/tbb/partitioner.h"
#include "oneapi/tbb/blocked_range.h"
#include "oneapi/tbb/task_scheduler_observer.h"
#include "tbb/governor.h"
#include "tbb/arena.h"
#include "tbb/thread_data.h"
#include "tbb/task_dispatcher.h"
#include "tbb/market.h"
#include "tbb/threading_control.h"
#include "tbb/thread_request_serializer.h"
#include <cstdio>
#include <cstring>
#include <fstream>
#include <iostream>
#include <map>
#include <set>
#include <sstream>
#include <string>
#include <vector>

using namespace tbb::detail::r1;
namespace d1 = tbb::detail::d1;
namespace r1 = tbb::detail::r1;

static const int MAXT = 64, MAXA = 8, MAXK = 8, MAXV = 16;
static const size_t MAX_STEPS = 3000000;

// ---------------------------------------------------------------------------------------------------------------------
// program
// ---------------------------------------------------------------------------------------------------------------------
struct Node { std::string op; std::vector<long> a; std::vector<Node*> kids; };
struct Prog { int L = 2; std::vector<std::pair<int, int>> arenas; std::vector<std::vector<Node*>> threads; };
static Prog P;

static std::vector<std::string> g_toks; static size_t g_tp = 0;
static bool is_num(const std::string& s) { return !s.empty() && (isdigit((unsigned char)s[0]) || (s[0] == '-' && s.size() > 1)); }
static std::vector<Node*> parse_block() {       // after '{' up to the matching '}'
    std::vector<Node*> out;
    while (g_tp < g_toks.size() && g_toks[g_tp] != "}") {
        Node* n = new Node; n->op = g_toks[g_tp++];
        while (g_tp < g_toks.size() && is_num(g_toks[g_tp])) n->a.push_back(atol(g_toks[g_tp++].c_str()));
        if (g_tp < g_toks.size() && g_toks[g_tp] == "{") { ++g_tp; n->kids = parse_block(); }
        out.push_back(n);
    }
    if (g_tp < g_toks.size()) ++g_tp;
    return out;
}
static bool parse_program(std::istream& in) {
    std::string t;
    while (in >> t) g_toks.push_back(t);
    for (Node* n : parse_block()) {
        if (n->op == "L" && n->a.size() == 1) P.L = (int)n->a[0];
        else if (n->op == "arena" && n->a.size() == 2) P.arenas.push_back({(int)n->a[0], (int)n->a[1]});
        else if (n->op == "thread") P.threads.push_back(n->kids);
        else return false;
    }
    return !P.threads.empty() && P.L >= 1 && P.arenas.size() <= (size_t)MAXA && P.threads.size() < 16;
}

// ---------------------------------------------------------------------------------------------------------------------
// ghost state and monitors
// ---------------------------------------------------------------------------------------------------------------------
static std::vector<std::string> g_viol;
static void viol(const std::string& s) { if (g_viol.size() < 20) g_viol.push_back(s); verif::note("viol", g_viol.size(), 0); }

struct ArenaRec { tbb::task_arena* ta = nullptr; int maxc = 0, reserved = 0; bool window = false; long enq_total = 0; };
static ArenaRec A_[MAXA];
static int arena_id(arena* a) {
    for (int i = 0; i < MAXA; ++i) if (A_[i].ta && A_[i].ta->my_arena.load(std::memory_order_relaxed) == a) return i;
    return -1;
}
struct Ghost {
    std::vector<long> regions;                 // innermost isolation region last
    std::map<arena*, int> depth;               // bodies in progress per arena
    int body_depth = 0;
};
static Ghost G_[MAXT];
static Ghost& me() { int t = verif::self(); return G_[t < 0 || t >= MAXT ? 0 : t]; }
static long g_next_region = 1;
static std::map<long, std::intptr_t> g_region_tag;      // ghost region -> the isolation word isolate_within_arena installed for it
static int g_workers_in_bodies = 0, g_max_workers_in_bodies = 0;
static int g_cur_limit = 0;                 // a limit lowered in mid-run by `lim` (0: none): BUDGET then also checks it for bodies started since
static int g_budget_epoch = 0;              // bumped when the lowered limit has had time to take effect
static int g_workers_in_new_bodies = 0;     // workers inside bodies that started in the current budget epoch
static std::map<arena*, std::map<int, int>> g_idx;      // arena -> current_thread_index -> thread id, for threads inside bodies
static long g_bodies = 0, g_iso_checked = 0, g_worker_bodies = 0, g_pending = 0, g_enq_done = 0;
static std::atomic<int> g_ev[MAXV];
static std::atomic<int> g_ready{0}, g_done{0};

static int arena_bound(arena* a, int aid) {
    if (aid >= 0) return A_[aid].maxc + ((A_[aid].maxc == 1 && A_[aid].reserved == 1 && A_[aid].window) ? 1 : 0);
    return (int)(a->my_num_reserved_slots + a->my_max_num_workers);
}

template <class F> static void body(long region, F&& f) {
    thread_data* td = governor::get_thread_data();
    arena* a = td->my_arena;
    int aid = arena_id(a), tid = verif::self();
    int idx = tbb::this_task_arena::current_thread_index();
    bool worker = td->my_is_worker;
    Ghost& g = me();
    ++g_bodies;
    // ISO
    long R = g.regions.empty() ? 0 : g.regions.back();
    if (R != 0) {
        ++g_iso_checked;
        if (region != R)
            viol("ISO thread " + std::to_string(tid) + " waiting inside isolation region " + std::to_string(R) + " executed a task of region " + std::to_string(region));
    }
    g.regions.push_back(region);
    {   // the dispatcher's isolation word while a body of region `region` runs is that region's tag (a task taken from a container carries it, a
        // bypassed task inherits it, task_arena::execute / an enqueued task run without isolation)
        std::intptr_t word = td->my_task_dispatcher->m_execute_data_ext.isolation;
        std::intptr_t want = region == 0 ? 0 : g_region_tag[region];
        if (word != want)
            viol("ISO thread " + std::to_string(tid) + " runs a body of region " + std::to_string(region) + " under an isolation word that is " +
                 (word == 0 ? "no_isolation" : "not that region's tag") + (want == 0 ? " (expected no_isolation)" : ""));
    }
    // BOUND
    bool first_in_arena = (g.depth[a]++ == 0);
    if (first_in_arena) {
        int bound = arena_bound(a, aid);
        auto& m = g_idx[a];
        if (m.count(idx) && m[idx] != tid)
            viol("BOUND threads " + std::to_string(m[idx]) + " and " + std::to_string(tid) + " run bodies in arena " + std::to_string(aid) + " with the same current_thread_index " + std::to_string(idx));
        m[idx] = tid;
        if (idx < 0 || idx >= bound)
            viol("BOUND current_thread_index " + std::to_string(idx) + " in arena " + std::to_string(aid) + " is not below the concurrency bound " + std::to_string(bound));
        if ((int)m.size() > bound)
            viol("BOUND " + std::to_string(m.size()) + " threads inside arena " + std::to_string(aid) + ", max_concurrency bound " + std::to_string(bound));
        if (worker && idx >= 0 && idx < (int)a->my_num_reserved_slots)
            viol("BOUND worker thread " + std::to_string(tid) + " occupies reserved slot " + std::to_string(idx) + " of arena " + std::to_string(aid));
    }
    // BUDGET
    bool first_body = (g.body_depth++ == 0);
    const int my_epoch = g_budget_epoch;
    if (worker && first_body && g_cur_limit >= 2) {
        // a limit lowered in mid-run (`lim`): only work that STARTS after the recall has had time to take effect is counted
        ++g_workers_in_new_bodies;
        if (g_workers_in_new_bodies > g_cur_limit - 1)
            viol("BUDGET " + std::to_string(g_workers_in_new_bodies) + " worker threads execute user work that started under max_allowed_parallelism " + std::to_string(g_cur_limit) +
                 " (the limit was lowered from " + std::to_string(P.L) + " and the recalled workers had the time to leave)");
    }
    if (worker && first_body) {
        ++g_worker_bodies;
        ++g_workers_in_bodies;
        if (g_workers_in_bodies > g_max_workers_in_bodies) g_max_workers_in_bodies = g_workers_in_bodies;
        if (P.L >= 2) {
            if (g_workers_in_bodies > P.L - 1)
                viol("BUDGET " + std::to_string(g_workers_in_bodies) + " worker threads execute user work under max_allowed_parallelism " + std::to_string(P.L));
        } else {
            if (g_workers_in_bodies > 1)
                viol("BUDGET " + std::to_string(g_workers_in_bodies) + " worker threads execute user work under max_allowed_parallelism 1");
            else if (aid < 0 || !A_[aid].window)
                viol("BUDGET a worker thread executes user work in arena " + std::to_string(aid) + " under max_allowed_parallelism 1 although the arena has no enqueued work (no mandatory concurrency)");
        }
    }
    verif::note("body", (uint64_t)region, (uint64_t)(aid + 1));
    f();
    if (worker && first_body) --g_workers_in_bodies;
    if (worker && first_body && g_cur_limit >= 2 && my_epoch == g_budget_epoch) --g_workers_in_new_bodies;
    --g.body_depth;
    if (--g.depth[a] == 0) { g_idx[a].erase(idx); g.depth.erase(a); }
    g.regions.pop_back();
}

// ---- observers ----
struct Obs;
static Obs* O_[MAXK];
static int g_bal[MAXK][MAXT];
static int g_obs_idx[MAXK][MAXT];          // current_thread_index reported at the observer's entry call (-1: not between entry and exit)
static bool g_obs_off[MAXK];
static long g_obs_calls = 0;
struct Obs : tbb::task_scheduler_observer {
    int k;
    explicit Obs(int k_) : tbb::task_scheduler_observer(), k(k_) {}
    Obs(int k_, tbb::task_arena& a) : tbb::task_scheduler_observer(a), k(k_) {}
    void on_scheduler_entry(bool) override {
        int t = verif::self(); ++g_obs_calls;
        if (g_obs_off[k]) viol("OBS observer " + std::to_string(k) + ": on_scheduler_entry on thread " + std::to_string(t) + " after observe(false) returned");
        if (g_bal[k][t] != 0) viol("OBS observer " + std::to_string(k) + ": second on_scheduler_entry on thread " + std::to_string(t) + " without an exit in between");
        g_bal[k][t] = 1;
        // threads that are between the entry and the exit call of ONE observer are inside one arena: pairwise distinct current_thread_index
        int idx = tbb::this_task_arena::current_thread_index();
        g_obs_idx[k][t] = idx;
        for (int u = 0; u < MAXT; ++u)
            if (u != t && g_bal[k][u] == 1 && g_obs_idx[k][u] == idx)
                viol("BOUND threads " + std::to_string(u) + " and " + std::to_string(t) + " are both between on_scheduler_entry and on_scheduler_exit of observer " + std::to_string(k) +
                     " with the same current_thread_index " + std::to_string(idx) + " (the first one is still leaving: its exit call has not returned)");
        verif::note("obs_entry", k, t);
    }
    void on_scheduler_exit(bool) override {
        int t = verif::self(); ++g_obs_calls;
        if (g_obs_off[k]) viol("OBS observer " + std::to_string(k) + ": on_scheduler_exit on thread " + std::to_string(t) + " after observe(false) returned");
        if (g_bal[k][t] != 1) viol("OBS observer " + std::to_string(k) + ": on_scheduler_exit on thread " + std::to_string(t) + " without a matching entry");
        // a user callback takes time: other threads run (and may try to enter the arena) while this thread is still inside its exit call
        for (int i = 0; i < 3; ++i) (void)g_ev[MAXV - 1].load();
        g_bal[k][t] = 0; g_obs_idx[k][t] = -1;
        verif::note("obs_exit", k, t);
    }
};

// ---------------------------------------------------------------------------------------------------------------------
// interpreter
// ---------------------------------------------------------------------------------------------------------------------
struct Ctx { tbb::task_group* tg = nullptr; };
static void run_block(const std::vector<Node*>& b, Ctx c);

static long cur_region() { Ghost& g = me(); return g.regions.empty() ? 0 : g.regions.back(); }

// a critical task that belongs to a task_group's wait context (white-box reserve / release)
struct CritTask : d1::task {
    const std::vector<Node*>* kids; long region; tbb::task_group* tg;
    CritTask(const std::vector<Node*>* k, long r, tbb::task_group* g) : kids(k), region(r), tg(g) {}
    d1::task* execute(d1::execution_data&) override {
        tbb::task_group* g = tg;
        body(region, [&] { Ctx c; c.tg = g; run_block(*kids, c); });
        delete this;
        g->m_wait_vertex.release();
        return nullptr;
    }
    d1::task* cancel(d1::execution_data&) override { tbb::task_group* g = tg; delete this; g->m_wait_vertex.release(); return nullptr; }
};

// ---- life-cycle trace (RT_LIFE=1): every access to my_references / my_num_workers_allotted / my_limit / my_slots[i].my_is_occupied of the scenario's arenas ----
struct LifeArena { arena* a; unsigned ns, rs; unsigned long long refs0; unsigned allot0, limit0; };
static std::vector<LifeArena> g_life;
static void life_register(tbb::task_arena* ta) {
    arena* a = ta->my_arena.load(std::memory_order_relaxed);
    if (!a) return;
    g_life.push_back({a, a->my_num_slots, a->my_num_reserved_slots, (unsigned long long)a->my_references.a.load(std::memory_order_relaxed),
                      a->my_num_workers_allotted.a.load(std::memory_order_relaxed), a->my_limit.a.load(std::memory_order_relaxed)});
    verif::note("arena_new", g_life.size() - 1, 0);
}

// a task that returns a freshly allocated, never spawned task from execute(): the scheduler runs it at once (bypass), under the execute data of its parent
struct BypChild : d1::task {
    const std::vector<Node*>* kids; long region; tbb::task_group* tg;
    BypChild(const std::vector<Node*>* k, long r, tbb::task_group* g) : kids(k), region(r), tg(g) {}
    d1::task* execute(d1::execution_data&) override {
        tbb::task_group* g = tg;
        body(region, [&] { Ctx c; c.tg = g; run_block(*kids, c); });
        delete this;
        g->m_wait_vertex.release();
        return nullptr;
    }
    d1::task* cancel(d1::execution_data&) override { tbb::task_group* g = tg; delete this; g->m_wait_vertex.release(); return nullptr; }
};
struct BypParent : d1::task {
    BypChild* child;
    explicit BypParent(BypChild* c) : child(c) {}
    d1::task* execute(d1::execution_data&) override { BypChild* c = child; delete this; return c; }
    d1::task* cancel(d1::execution_data& ed) override { BypChild* c = child; delete this; return c->cancel(ed); }
};

static market* the_market() {
    threading_control* tc = threading_control::g_threading_control;
    return tc ? static_cast<market*>(tc->my_pimpl->my_permit_manager.get()) : nullptr;
}

static d1::wait_context* g_idle[MAXV];
static bool g_woken[MAXV];
static d1::task_group_context* g_idle_ctx = nullptr;

static void quiesce(int A) {
    arena* a = A_[A].ta->my_arena.load(std::memory_order_relaxed);
    if (!a) return;
    // the enqueued work of the arena has finished, the workers have left; an idle thread of the arena eventually polls out_of_work()
    // (without workers nobody else does).  arena::try_join is check-then-add: a worker that saw a positive allotment just before the
    // mandatory request was withdrawn still joins afterwards (and leaves at its next recall check), so the arena is given time to settle
    // before the checkpoint is taken.
    size_t spins = 0;
    for (int round = 0; round < 8; ++round) {
        while (g_pending > 0 || (a->my_references.load(std::memory_order_acquire) >> arena::ref_external_bits) != 0) {
            _mm_pause();
            if (++spins > 400000) { viol("REST arena " + std::to_string(A) + " does not come to rest (worker references or pending enqueued tasks remain)"); return; }
        }
        if (a->my_pool_state.test() || a->my_mandatory_concurrency.test()) a->out_of_work();
        for (int k = 0; k < 400; ++k) { g_ev[MAXV - 1].fetch_add(1); _mm_pause(); }
        if ((a->my_references.load(std::memory_order_acquire) >> arena::ref_external_bits) == 0 && !a->my_mandatory_concurrency.test()) break;
    }
    if (a->my_pool_state.test() && g_pending == 0) {
        // every task has completed (the scripts wait for their groups); what keeps has_tasks() true?
        int tasks = 0, dead = 0, holes = 0, where = -1;
        for (unsigned k = 0; k < a->my_num_slots; ++k) {
            arena_slot& sl = a->my_slots[k];
            if (sl.task_pool.load(std::memory_order_relaxed) == EmptyTaskPool) continue;
            std::size_t H = sl.head.load(std::memory_order_relaxed), T = sl.tail.load(std::memory_order_relaxed);
            for (std::size_t i = H; i < T; ++i) {
                d1::task* e = sl.task_pool_ptr[i];
                if (!e) { ++holes; where = (int)k; }
                else if (task_accessor::is_proxy_task(*e) && !task_proxy::task_ptr(static_cast<task_proxy*>(e)->task_and_tag.load(std::memory_order_relaxed))) { ++dead; where = (int)k; }
                else ++tasks;
            }
        }
        bool streams = !a->my_fifo_task_stream.empty() || !a->my_resume_task_stream.empty() || !a->my_critical_task_stream.empty();
        if (tasks == 0 && !streams && dead + holes > 0) {
            viol("STUCK arena " + std::to_string(A) + ": no task is left and no thread is inside, but out_of_work() cannot clear the pool-state flag: slot " + std::to_string(where) +
                 " still holds " + std::to_string(dead) + " emptied task proxies and " + std::to_string(holes) + " holes, so has_tasks() stays true; the arena keeps its worker request (" +
                 std::to_string(a->my_total_num_workers_requested) + ") and is never destroyed (tbb::finalize would wait forever when no worker is allowed to come and clean up)");
            // repair (harness only), so that the run can end: drop the leftovers as an owner scanning its pool would
            for (unsigned k = 0; k < a->my_num_slots; ++k) {
                arena_slot& sl = a->my_slots[k];
                if (sl.task_pool.load(std::memory_order_relaxed) == EmptyTaskPool) continue;
                sl.head.store(0, std::memory_order_relaxed); sl.tail.store(0, std::memory_order_relaxed);
                sl.task_pool.store(EmptyTaskPool, std::memory_order_relaxed);
            }
            a->out_of_work();
        }
    }
    bool mand = a->my_mandatory_concurrency.test(), pool = a->my_pool_state.test();
    std::ostringstream o;
    o << "REST arena " << A << " at rest: mandatory flag " << mand << " pool flag " << pool << " my_mandatory_requests " << a->my_mandatory_requests
      << " my_total_num_workers_requested " << a->my_total_num_workers_requested << " allotted " << a->my_num_workers_allotted.load(std::memory_order_relaxed);
    if (mand || a->my_mandatory_requests != 0) viol(o.str() + " (the mandatory request is not withdrawn)");
    else if (!pool && a->my_total_num_workers_requested != 0) viol(o.str() + " (workers are still requested)");
    A_[A].window = false;
    verif::note("quiesce", A, 0);
}

static void exec_stmt(Node* n, Ctx c) {
    const std::string& op = n->op;
    auto arg = [&](size_t i) { return i < n->a.size() ? n->a[i] : 0; };
    if (op == "exec") {
        int A = (int)arg(0), caller = verif::self();
        // more external threads than slots: execute() may find the arena full and enqueue a delegated task at any moment
        if (arena* a0 = A_[A].ta->my_arena.load(std::memory_order_relaxed)) if (P.threads.size() > a0->my_num_slots) A_[A].window = true;
        A_[A].ta->execute([&] {
            // a full arena: execute() enqueues a delegated task (internally enqueued work: mandatory concurrency applies)
            if (verif::self() != caller) A_[A].window = true;
            body(0, [&] { Ctx c2; run_block(n->kids, c2); });
        });
    } else if (op == "iso") {
        long r = g_next_region++;
        tbb::this_task_arena::isolate([&] {
            me().regions.push_back(r);
            g_region_tag[r] = governor::get_thread_data()->my_task_dispatcher->m_execute_data_ext.isolation;
            verif::note("iso_begin", (uint64_t)r, 0);
            run_block(n->kids, c);
            verif::note("iso_end", (uint64_t)r, 0);
            me().regions.pop_back();
        });
    } else if (op == "isot") {
        // an isolate region whose functor THROWS at its end (caught right outside isolate): the completion guard must restore the enclosing scope
        long r = g_next_region++;
        struct IsoThrow {};
        try {
            tbb::this_task_arena::isolate([&] {
                me().regions.push_back(r);
                g_region_tag[r] = governor::get_thread_data()->my_task_dispatcher->m_execute_data_ext.isolation;
                struct Pop { ~Pop() { me().regions.pop_back(); } } pop;
                verif::note("iso_begin", (uint64_t)r, 1);
                run_block(n->kids, c);
                verif::note("iso_end", (uint64_t)r, 1);
                throw IsoThrow{};
            });
            viol("harness: the exception thrown by the isolate functor did not come out of isolate()");
        } catch (IsoThrow&) {}
    } else if (op == "tg") {
        tbb::task_group g;
        Ctx c2; c2.tg = &g;
        run_block(n->kids, c2);
        g.wait();
    } else if (op == "run") {
        long r = cur_region();
        tbb::task_group* g = c.tg;
        if (!g) { viol("harness: run outside tg"); return; }
        g->run([n, r, g] { body(r, [&] { Ctx c2; c2.tg = g; run_block(n->kids, c2); }); });
    } else if (op == "pfor") {
        long r = cur_region();
        int N = (int)arg(0), part = (int)arg(1);
        tbb::task_group* g = c.tg;
        auto f = [n, r, g](const tbb::blocked_range<int>& rg) {
            for (int i = rg.begin(); i != rg.end(); ++i) body(r, [&] { Ctx c2; c2.tg = g; run_block(n->kids, c2); });
        };
        tbb::blocked_range<int> range(0, N, 1);
        if (part == 0) tbb::parallel_for(range, f, tbb::simple_partitioner{});
        else if (part == 1) tbb::parallel_for(range, f, tbb::static_partitioner{});
        else if (part == 2) { tbb::affinity_partitioner ap; tbb::parallel_for(range, f, ap); tbb::parallel_for(range, f, ap); }
        else tbb::parallel_for(range, f, tbb::auto_partitioner{});
    } else if (op == "enq") {
        int A = (int)arg(0);
        A_[A].window = true; A_[A].enq_total++;
        tbb::task_group* g = c.tg;
        if (g) {
            A_[A].ta->enqueue(g->defer([n, g] { body(0, [&] { Ctx c2; c2.tg = g; run_block(n->kids, c2); }); ++g_enq_done; }));
        } else {
            ++g_pending;
            A_[A].ta->enqueue([n] { body(0, [&] { Ctx c2; run_block(n->kids, c2); }); ++g_enq_done; --g_pending; });
        }
    } else if (op == "crit") {
        tbb::task_group* g = c.tg;
        if (!g) { viol("harness: crit outside tg"); return; }
        thread_data* td = governor::get_thread_data();
        g->m_wait_vertex.reserve();
        CritTask* t = new CritTask(&n->kids, cur_region(), g);
        r1::submit(*t, g->context(), td->my_arena, 1);
    } else if (op == "byp") {
        tbb::task_group* g = c.tg;
        if (!g) { viol("harness: byp outside tg"); return; }
        g->m_wait_vertex.reserve();
        BypChild* ch = new BypChild(&n->kids, cur_region(), g);
        r1::spawn(*new BypParent(ch), g->context());
    } else if (op == "spin") {
        while (!g_ev[arg(0)].load()) _mm_pause();
    } else if (op == "set") {
        g_ev[arg(0)].store(1);
    } else if (op == "idle") {
        // wait in the dispatch loop of the current arena (stealing, mailbox, streams) until `wake V`
        int V = (int)arg(0);
        if (!g_idle_ctx) g_idle_ctx = new d1::task_group_context(d1::task_group_context::isolated);
        if (!g_idle[V]) g_idle[V] = new d1::wait_context(1);
        d1::wait(*g_idle[V], *g_idle_ctx);
    } else if (op == "wake") {
        int V = (int)arg(0);
        while (!g_idle[V]) { (void)g_ev[MAXV - 1].load(); _mm_pause(); }          // (created by the idling thread before it waits; parkable)
        if (!g_woken[V]) { g_woken[V] = true; g_idle[V]->release(); }
    } else if (op == "ifthread") {
        if (verif::self() == (int)arg(0)) run_block(n->kids, c);
    } else if (op == "waitenq") {
        // (the atomic load makes this a spin loop the controlled scheduler can park: with the spinner parked, the idle rounds let a worker
        // whose own back-off loop was parked re-run it and progress)
        while (g_pending > 0) { (void)g_ev[MAXV - 1].load(); _mm_pause(); }
    } else if (op == "spinmand") {
        arena* a = A_[arg(0)].ta->my_arena.load(std::memory_order_relaxed);
        while (a->my_mandatory_concurrency.test() != (arg(1) != 0)) _mm_pause();
    } else if (op == "obs") {
        int K = (int)arg(0), A = (int)arg(1);
        if (!O_[K]) O_[K] = A >= 0 ? new Obs(K, *A_[A].ta) : new Obs(K);
        g_obs_off[K] = false;
        O_[K]->observe(true);
    } else if (op == "unobs") {
        int K = (int)arg(0);
        if (O_[K]) {
            O_[K]->observe(false);
            g_obs_off[K] = true;
            for (int t = 0; t < MAXT; ++t) g_bal[K][t] = 0;     // threads still inside get no exit call: documented
        }
    } else if (op == "quiesce") {
        quiesce((int)arg(0));
    } else if (op == "mk") {
        int A = (int)arg(0);
        A_[A].maxc = (int)arg(1); A_[A].reserved = (int)arg(2); A_[A].window = false;
        A_[A].ta = new tbb::task_arena(A_[A].maxc, A_[A].reserved);
        A_[A].ta->initialize();
        life_register(A_[A].ta);
    } else if (op == "rm") {
        int A = (int)arg(0);
        tbb::task_arena* ta = A_[A].ta;
        A_[A].ta = nullptr;
        delete ta;
    } else if (op == "lim") {
        // lim N A K { .. }: lower max_allowed_parallelism to N for the block.  The block (and the BUDGET monitor for N) starts once the recall
        // has had time to take effect: arena A has at most N-1 active workers, or its backlog of enqueued tasks has drained to K (a recalled
        // worker with an empty task pool must leave at once although the arena still has work: the first condition comes true long before
        // the second on a correct library)
        int N = (int)arg(0), A = (int)arg(1); long K = arg(2);
        tbb::global_control gc(tbb::global_control::max_allowed_parallelism, (size_t)N);
        arena* a = A_[A].ta->my_arena.load(std::memory_order_relaxed);
        while ((int)a->num_workers_active() > N - 1 && g_pending > K) _mm_pause();
        verif::note("lim_settled", (uint64_t)a->num_workers_active(), (uint64_t)g_pending);
        g_cur_limit = N; ++g_budget_epoch; g_workers_in_new_bodies = 0;
        run_block(n->kids, c);
        g_cur_limit = 0; ++g_budget_epoch; g_workers_in_new_bodies = 0;
    } else if (op == "spinworkers") {
        arena* a = A_[arg(0)].ta->my_arena.load(std::memory_order_relaxed);
        while ((long)a->num_workers_active() < arg(1)) _mm_pause();
    } else if (op == "work") {
        g_ev[MAXV - 1].fetch_add(1); g_ev[MAXV - 1].fetch_sub(1);
    } else {
        viol("harness: unknown statement " + op);
    }
}
static void run_block(const std::vector<Node*>& b, Ctx c) { for (Node* n : b) exec_stmt(n, c); }

static void final_checks() {
    for (int A = 0; A < MAXA; ++A) if (A_[A].ta) quiesce(A);
    if (market* m = the_market()) {
        threading_control* tc = threading_control::g_threading_control;
        thread_request_serializer_proxy* px = tc->my_pimpl->my_thread_request_serializer.get();
        int pm = px->my_num_mandatory_requests.load(std::memory_order_relaxed);
        if (m->my_mandatory_num_requested != 0 || pm != 0) {
            std::ostringstream o;
            o << "REST at the end market::my_mandatory_num_requested = " << m->my_mandatory_num_requested << ", serializer proxy my_num_mandatory_requests = " << pm
              << " (no arena has enqueued work)";
            viol(o.str());
        }
    }
}

static void main_body() {
    tbb::global_control gc(tbb::global_control::max_allowed_parallelism, (size_t)P.L);
    tbb::task_scheduler_handle h{tbb::attach{}};
    for (size_t i = 0; i < P.arenas.size(); ++i) {
        A_[i].maxc = P.arenas[i].first; A_[i].reserved = P.arenas[i].second;
        A_[i].ta = new tbb::task_arena(A_[i].maxc, A_[i].reserved);
        A_[i].ta->initialize();
        life_register(A_[i].ta);
    }
    g_ready.store(1);
    { Ctx c; run_block(P.threads[0], c); }
    while (g_done.load() < (int)P.threads.size() - 1) _mm_pause();
    final_checks();
    for (int A = 0; A < MAXA; ++A) if (A_[A].ta) { tbb::task_arena* ta = A_[A].ta; A_[A].ta = nullptr; delete ta; }
    tbb::finalize(h);
}
static void ext_body(int k) {
    while (!g_ready.load()) _mm_pause();
    { Ctx c; run_block(P.threads[k], c); }
    governor::terminate_external_thread();
    g_done.fetch_add(1);
}

// ---------------------------------------------------------------------------------------------------------------------
// puppet: one OS thread plays every slot of a real arena (all slots reserved: no worker ever joins, no mandatory concurrency)
//   cfg N | wait t | endwait t | iso t F | endiso t | spawn t | spawna t d | enq t | crit t | setidle t b | own t |
//   idle t v fa | critget t | check
// result lines: "ok", "task <id> tag <tag>" (spawns), "got <id> ed <isolation word afterwards>" / "none" (takes), state dump
// ---------------------------------------------------------------------------------------------------------------------
struct PTask : d1::task {
    long id;
    explicit PTask(long i) : id(i) {}
    d1::task* execute(d1::execution_data&) override { return nullptr; }
    d1::task* cancel(d1::execution_data&) override { return nullptr; }
};
struct OnePass {
    int n = 0;
    bool continue_execution(arena_slot&, d1::task*&) { return n++ == 0; }
    void pause(arena_slot&) {}
    void reset_wait() {}
    d1::wait_context* wait_ctx() { return nullptr; }
    static bool postpone_execution(d1::task&) { return false; }
};
struct PFrame { bool loop; std::intptr_t iso, saved; };
static int pN = 0;
static arena* pA = nullptr;
static thread_data* pTd = nullptr;
static std::vector<std::vector<PFrame>> pStack;
static std::map<const void*, long> pProxyId;
static long pNext = 0;
static d1::task_group_context* pCtx = nullptr;

static task_dispatcher& pdisp(int t) { return pA->my_slots[t].default_task_dispatcher(); }
static void become(int t) {
    if (pTd->my_task_dispatcher) pTd->my_task_dispatcher->m_thread_data = nullptr;
    pTd->attach_arena(*pA, (std::size_t)t);
    task_dispatcher& d = pdisp(t);
    d.m_thread_data = pTd; pTd->my_task_dispatcher = &d; d.m_stealing_threshold = 1;
    d.m_execute_data_ext.task_disp = &d;
}
static std::string show_entry(d1::task* t) {
    if (!t) return "-";
    if (task_accessor::is_proxy_task(*t)) return "p" + std::to_string(pProxyId.count(t) ? pProxyId[t] : -1);
    return "t" + std::to_string(static_cast<PTask*>(t)->id);
}
static std::string dump() {
    std::ostringstream o;
    o << "pools";
    for (int k = 0; k < pN; ++k) {
        arena_slot& s = pA->my_slots[k];
        o << " [";
        if (s.task_pool.load(std::memory_order_relaxed) != EmptyTaskPool) {
            std::size_t H = s.head.load(std::memory_order_relaxed), T = s.tail.load(std::memory_order_relaxed);
            for (std::size_t i = H; i < T; ++i) o << (i > H ? " " : "") << show_entry(s.task_pool_ptr[i]);
        }
        o << "]";
    }
    o << " mail";
    for (int k = 0; k < pN; ++k) {
        o << " [";
        bool first = true;
        for (task_proxy* p = pA->mailbox(k).my_first.load(std::memory_order_relaxed); p; p = p->next_in_mailbox.load(std::memory_order_relaxed)) {
            o << (first ? "" : " ") << show_entry(p); first = false;
        }
        o << "]";
    }
    auto stream = [&](auto& st, const char* name) {
        std::vector<long> ids;
        for (unsigned l = 0; l < st.N; ++l) for (d1::task* t : st.lanes[l].my_queue) if (t) ids.push_back(static_cast<PTask*>(t)->id);
        std::sort(ids.begin(), ids.end());
        o << " " << name << " {";
        for (size_t i = 0; i < ids.size(); ++i) o << (i ? " " : "") << ids[i];
        o << "}";
    };
    stream(pA->my_fifo_task_stream, "fifo");
    stream(pA->my_critical_task_stream, "crit");
    o << " idle";
    for (int k = 0; k < pN; ++k) o << " " << (pA->mailbox(k).my_is_idle.load(std::memory_order_relaxed) ? 1 : 0);
    return o.str();
}
static std::string got(d1::task* t, int th) {
    if (!t) return "none";
    return "got " + std::to_string(static_cast<PTask*>(t)->id) + " ed " + std::to_string((long)pdisp(th).m_execute_data_ext.isolation);
}
static std::string puppet_line(const std::vector<std::string>& w) {
    auto num = [&](size_t i, long& v) { if (i >= w.size() || !is_num(w[i])) return false; v = atol(w[i].c_str()); return true; };
    long t = 0, x = 0, y = 0;
    if (w[0] == "check" && w.size() == 1 && pA) return dump();
    if (w.size() < 2 || !num(1, t) || !pA || t < 0 || t >= pN) return "bad-op";
    int th = (int)t;
    become(th);
    task_dispatcher& d = pdisp(th);
    execution_data_ext& ed = d.m_execute_data_ext;
    auto& stk = pStack[th];
    auto loop_iso = [&](std::intptr_t& iso) { if (stk.empty() || !stk.back().loop) return false; iso = stk.back().iso; return true; };
    if (w[0] == "wait" && w.size() == 2) {
        // local_wait_for_all: `const isolation_type isolation = dl_guard.old_execute_data_ext.isolation;`
        stk.push_back({true, ed.isolation, ed.isolation}); return "ok";
    }
    if (w[0] == "endwait" && w.size() == 2) {
        if (stk.empty() || !stk.back().loop) return "bad-op";
        ed.isolation = stk.back().saved; stk.pop_back(); return "ok";
    }
    if (w[0] == "iso" && w.size() == 3 && num(2, x) && x != 0) {
        // isolate_within_arena (the callable cannot be kept open across interleaved operations: its two statements are replayed)
        stk.push_back({false, 0, d.set_isolation((std::intptr_t)x)}); return "ok";
    }
    if (w[0] == "endiso" && w.size() == 2) {
        if (stk.empty() || stk.back().loop) return "bad-op";
        d.set_isolation(stk.back().saved); stk.pop_back(); return "ok";
    }
    if (w[0] == "spawn" && w.size() == 2) {
        PTask* p = new PTask(pNext++);
        r1::spawn(*p, *pCtx);
        return "task " + std::to_string(p->id) + " tag " + std::to_string((long)task_accessor::isolation(*p));
    }
    if (w[0] == "spawna" && w.size() == 3 && num(2, x) && x >= 0) {
        PTask* p = new PTask(pNext++);
        r1::spawn(*p, *pCtx, (d1::slot_id)x);
        arena_slot& s = pA->my_slots[th];
        d1::task* top = s.task_pool_ptr[s.tail.load(std::memory_order_relaxed) - 1];
        std::string r = "task " + std::to_string(p->id) + " tag " + std::to_string((long)task_accessor::isolation(*p));
        if (task_accessor::is_proxy_task(*top)) { pProxyId[top] = p->id; r += " ptag " + std::to_string((long)task_accessor::isolation(*top)); }
        return r;
    }
    if (w[0] == "enq" && w.size() == 2) {
        PTask* p = new PTask(pNext++);
        pA->enqueue_task(*p, *pCtx, *pTd);
        return "task " + std::to_string(p->id) + " tag " + std::to_string((long)task_accessor::isolation(*p));
    }
    if (w[0] == "crit" && w.size() == 2) {
        PTask* p = new PTask(pNext++);
        r1::submit(*p, *pCtx, pA, 1);
        return "task " + std::to_string(p->id) + " tag " + std::to_string((long)task_accessor::isolation(*p));
    }
    if (w[0] == "setidle" && w.size() == 3 && num(2, x)) { pA->mailbox(th).my_is_idle.store(x != 0, std::memory_order_relaxed); return "ok"; }
    std::intptr_t iso = 0;
    if (w[0] == "own" && w.size() == 2) {
        if (!loop_iso(iso)) return "bad-op";
        arena_slot& s = pA->my_slots[th];
        d1::task* r = nullptr;
        // local_wait_for_all: `if (t || (slot.is_task_pool_published() && (t = slot.get_task(ed, isolation)))) { ...; ed.isolation = task_accessor::isolation(*t);`
        if (s.is_task_pool_published() && (r = s.get_task(ed, iso))) { ed.context = task_accessor::context(*r); ed.isolation = task_accessor::isolation(*r); }
        return got(r, th);
    }
    if (w[0] == "idle" && w.size() == 4 && num(2, x) && num(3, y)) {
        if (!loop_iso(iso) || x < 0 || x >= pN || x == t) return "bad-op";
        pTd->my_random.x = (unsigned)((x > t ? x - 1 : x) << 16);
        OnePass wt;
        d1::task* r = d.receive_or_steal_task<false>(*pTd, ed, wt, iso, /*fifo_allowed*/ y != 0, /*critical_allowed*/ false);
        return got(r, th);
    }
    if (w[0] == "critget" && w.size() == 2) {
        if (!loop_iso(iso)) return "bad-op";
        d.m_properties.critical_task_allowed = true;
        d1::task* r = d.get_critical_task(nullptr, ed, iso, true);
        d.m_properties.critical_task_allowed = true;
        return got(r, th);
    }
    return "bad-op";
}
static void puppet_main() {
    tbb::global_control gc(tbb::global_control::max_allowed_parallelism, 1);
    tbb::task_scheduler_handle h{tbb::attach{}};
    pTd = governor::get_thread_data();
    tbb::task_arena* ta = nullptr;
    std::string line;
    while (std::getline(std::cin, line)) {
        std::istringstream is(line); std::vector<std::string> w; std::string x;
        while (is >> x) w.push_back(x);
        if (w.empty()) { printf("bad-op\n"); continue; }
        if (w[0] == "cfg" && w.size() == 2 && is_num(w[1]) && atoi(w[1].c_str()) >= 2 && atoi(w[1].c_str()) <= 8 && !ta) {
            pN = atoi(w[1].c_str());
            ta = new tbb::task_arena(pN, pN);
            ta->initialize();
            pA = ta->my_arena.load(std::memory_order_relaxed);
            pA->my_limit.store((unsigned)pN, std::memory_order_relaxed);
            pStack.assign(pN, {});
            pCtx = new d1::task_group_context(d1::task_group_context::isolated);
            printf("ok\n");
            continue;
        }
        // the whole script runs inside the arena (the calling thread legitimately owns one slot; it then plays all of them)
        std::string out;
        if (ta) {
            arena* orig_a = pTd->my_arena; unsigned short orig_i = pTd->my_arena_index; task_dispatcher* orig_d = pTd->my_task_dispatcher;
            out = puppet_line(w);
            if (pTd->my_task_dispatcher != orig_d) { pTd->my_task_dispatcher->m_thread_data = nullptr; pTd->my_task_dispatcher = orig_d; orig_d->m_thread_data = pTd; }
            pTd->attach_arena(*orig_a, orig_i);
        } else out = "bad-op";
        printf("%s\n", out.c_str());
    }
    fflush(stdout);
    _exit(0);     // the arena still holds dummy tasks: no orderly shutdown
}


// ---------------------------------------------------------------------------------------------------------------------
// puppet "nest": as `iso`, but the scoping constructs are the REAL calls, kept open across the following input lines by a
// recursive interpreter (one OS stack: real frames close in LIFO order over all puppet threads; the generator respects that):
//   iso t X        r1::isolate_within_arena(delegate, X); X = 0: the tag is the address of the delegate (a local of this harness:
//                  a later call at the same recursion depth gets the SAME address); answer `ok tag <canonical tag>`
//   endiso t / throwiso t   the delegate returns / throws; answer `ok ed <isolation word after the completion guard ran>`
//   exec t / endexec t      r1::execute(task_arena, delegate) on the arena the thread is in (nested_arena_context, same-arena path)
//   newdisp / attach t d    a further task_dispatcher object (as create_coroutine makes one) / thread t continues on dispatcher d
//   resreq t id    a resume task (tag no_isolation, as suspend_point_type's constructor sets it) is pushed into my_resume_task_stream
//   stealc t v     task_dispatcher::steal_or_get_critical with critical_allowed (a critical task displaces the stolen task: re-spawn)
//   bypass t       task_dispatcher::get_critical_task(a fresh task, ..): the task is run at once, or displaced and re-spawned
// Canonical tags: 0, explicit values as given (< 100000), addresses as 1000 + order of first appearance.
// ---------------------------------------------------------------------------------------------------------------------
struct NFrame { int kind; std::intptr_t iso, saved; bool res = false; };      // kind 0 loop (virtual; res: it runs a resume task), 1 real isolate, 2 real execute
static std::vector<task_dispatcher*> nDisp;
static std::vector<int> nCur;                                 // puppet thread -> dispatcher
static std::vector<std::vector<NFrame>> nStack;               // per dispatcher
static std::vector<int> nReal;                                // dispatchers of the open real frames, innermost last
static std::map<std::intptr_t, long> nCanon;
static tbb::task_arena* nTa = nullptr;
static arena* nOrigA = nullptr; static unsigned short nOrigI = 0; static task_dispatcher* nOrigD = nullptr;
static int nEnd = 0;                                          // 0 running, 1 endiso, 2 throwiso, 3 endexec, 9 end of input
struct NestThrow {};

static long canon(std::intptr_t v) {
    if (v >= 0 && v < 100000) return (long)v;
    auto it = nCanon.find(v);
    if (it == nCanon.end()) it = nCanon.insert({v, 1000 + (long)nCanon.size()}).first;
    return it->second;
}
static void nbecome(int t) {
    if (pTd->my_task_dispatcher) pTd->my_task_dispatcher->m_thread_data = nullptr;
    pTd->attach_arena(*pA, (std::size_t)t);
    task_dispatcher& d = *nDisp[nCur[t]];
    d.m_thread_data = pTd; pTd->my_task_dispatcher = &d; d.m_stealing_threshold = 1;
    d.m_execute_data_ext.task_disp = &d;
}
static void nrestore() {
    if (pTd->my_task_dispatcher != nOrigD) { pTd->my_task_dispatcher->m_thread_data = nullptr; pTd->my_task_dispatcher = nOrigD; nOrigD->m_thread_data = pTd; }
    pTd->attach_arena(*nOrigA, nOrigI);
}
static std::string ndump() {
    std::string base = dump();
    std::ostringstream o;
    // insert the resume stream before " idle"
    std::vector<long> ids;
    auto& st = pA->my_resume_task_stream;
    for (unsigned l = 0; l < st.N; ++l) for (d1::task* t : st.lanes[l].my_queue) if (t) ids.push_back(static_cast<PTask*>(t)->id);
    std::sort(ids.begin(), ids.end());
    size_t pos = base.find(" idle");
    o << base.substr(0, pos) << " resume {";
    for (size_t i = 0; i < ids.size(); ++i) o << (i ? " " : "") << ids[i];
    o << "}" << base.substr(pos) << " ed";
    for (task_dispatcher* d : nDisp) o << " " << canon(d->m_execute_data_ext.isolation);
    o << " cur";
    for (int c : nCur) o << " " << c;
    return o.str();
}
static std::string ngot(d1::task* t, task_dispatcher& d) {
    if (!t) return "none";
    return "got " + std::to_string(static_cast<PTask*>(t)->id) + " ed " + std::to_string(canon(d.m_execute_data_ext.isolation));
}
static void nest_loop();
struct NestDelegate : d1::delegate_base {
    int t, kind; mutable bool entered = false;
    NestDelegate(int t_, int k) : t(t_), kind(k) {}
    bool operator()() const override {
        int di = nCur[t];
        task_dispatcher& d = *nDisp[di];
        entered = true;
        nStack[di].push_back({kind, 0, 0});
        nReal.push_back(di);
        if (kind == 1) printf("ok tag %ld\n", canon(d.m_execute_data_ext.isolation));
        else printf("ok ed %ld\n", canon(d.m_execute_data_ext.isolation));
        nrestore();
        nest_loop();                                 // the following lines, until this frame is closed
        nReal.pop_back();
        nStack[di].pop_back();
        // the frame's owner is the current thread again (the completion code looks at the thread's dispatcher)
        if (pTd->my_task_dispatcher) pTd->my_task_dispatcher->m_thread_data = nullptr;
        d.m_thread_data = pTd; pTd->my_task_dispatcher = &d;
        if (nEnd == 2) { nEnd = 0; throw NestThrow{}; }
        if (nEnd != 9) nEnd = 0;
        return true;
    }
};
static std::string nest_line(const std::vector<std::string>& w, bool& printed) {
    auto num = [&](size_t i, long& v) { if (i >= w.size() || !is_num(w[i])) return false; v = atol(w[i].c_str()); return true; };
    long t = 0, x = 0, y = 0;
    printed = false;
    if (w[0] == "check" && w.size() == 1 && pA) return ndump();
    if (w[0] == "newdisp" && w.size() == 1 && pA) {
        task_dispatcher* d = new (cache_aligned_allocate(sizeof(task_dispatcher))) task_dispatcher(pA);      // what create_coroutine() constructs
        nDisp.push_back(d); nStack.push_back({});
        return "ok disp " + std::to_string(nDisp.size() - 1);
    }
    if (w.size() < 2 || !num(1, t) || !pA || t < 0 || t >= pN) return "bad-op";
    int th = (int)t, di = nCur[th];
    nbecome(th);
    task_dispatcher& d = *nDisp[di];
    execution_data_ext& ed = d.m_execute_data_ext;
    auto& stk = nStack[di];
    auto loop_iso = [&](std::intptr_t& iso) { if (stk.empty() || stk.back().kind != 0) return false; iso = stk.back().iso; return true; };
    auto took = [&](d1::task* r) { if (r) stk.back().res = static_cast<PTask*>(r)->id >= 5000; return ngot(r, d); };
    if (w[0] == "wait" && w.size() == 2) { stk.push_back({0, ed.isolation, ed.isolation}); return "ok"; }
    if (w[0] == "endwait" && w.size() == 2) {
        if (stk.empty() || stk.back().kind != 0) return "bad-op";
        ed.isolation = stk.back().saved; stk.pop_back(); return "ok";
    }
    if (w[0] == "iso" && w.size() == 3 && num(2, x) && x >= 0 && x < 100000) {
        NestDelegate dl(th, 1);
        bool thrown = false;
        try { r1::isolate_within_arena(dl, (std::intptr_t)x); } catch (NestThrow&) { thrown = true; }
        (void)thrown;
        printed = true;
        if (!dl.entered) { printf("bad-op\n"); return ""; }
        if (nEnd != 9) printf("ok ed %ld\n", canon(d.m_execute_data_ext.isolation));      // the answer to the line that closed the frame
        return "";
    }
    if ((w[0] == "endiso" || w[0] == "throwiso") && w.size() == 2) {
        if (nReal.empty() || nReal.back() != di || stk.empty() || stk.back().kind != 1) return "bad-op";
        nEnd = w[0] == "endiso" ? 1 : 2; printed = true; return "";
    }
    if (w[0] == "exec" && w.size() == 2) {
        NestDelegate dl(th, 2);
        r1::execute(*nTa, dl);
        printed = true;
        if (!dl.entered) { printf("bad-op\n"); return ""; }
        if (nEnd != 9) printf("ok ed %ld\n", canon(d.m_execute_data_ext.isolation));
        return "";
    }
    if (w[0] == "endexec" && w.size() == 2) {
        if (nReal.empty() || nReal.back() != di || stk.empty() || stk.back().kind != 2) return "bad-op";
        nEnd = 3; printed = true; return "";
    }
    if (w[0] == "attach" && w.size() == 3 && num(2, x)) {
        if (x < 0 || x >= (long)nDisp.size()) return "bad-op";
        nCur[th] = (int)x;
        return "ok ed " + std::to_string(canon(nDisp[x]->m_execute_data_ext.isolation));
    }
    if (w[0] == "spawn" && w.size() == 2) {
        PTask* p = new PTask(pNext++);
        r1::spawn(*p, *pCtx);
        return "task " + std::to_string(p->id) + " tag " + std::to_string(canon(task_accessor::isolation(*p)));
    }
    if (w[0] == "spawna" && w.size() == 3 && num(2, x) && x >= 0) {
        PTask* p = new PTask(pNext++);
        r1::spawn(*p, *pCtx, (d1::slot_id)x);
        arena_slot& s = pA->my_slots[th];
        d1::task* top = s.task_pool_ptr[s.tail.load(std::memory_order_relaxed) - 1];
        std::string r = "task " + std::to_string(p->id) + " tag " + std::to_string(canon(task_accessor::isolation(*p)));
        if (task_accessor::is_proxy_task(*top)) { pProxyId[top] = p->id; r += " ptag " + std::to_string(canon(task_accessor::isolation(*top))); }
        return r;
    }
    if (w[0] == "enq" && w.size() == 2) {
        PTask* p = new PTask(pNext++);
        pA->enqueue_task(*p, *pCtx, *pTd);
        return "task " + std::to_string(p->id) + " tag " + std::to_string(canon(task_accessor::isolation(*p)));
    }
    if (w[0] == "crit" && w.size() == 2) {
        PTask* p = new PTask(pNext++);
        r1::submit(*p, *pCtx, pA, 1);
        return "task " + std::to_string(p->id) + " tag " + std::to_string(canon(task_accessor::isolation(*p)));
    }
    if (w[0] == "resreq" && w.size() == 3 && num(2, x) && x >= 0) {
        PTask* p = new PTask(x);
        task_accessor::context(*p) = pCtx;
        task_accessor::isolation(*p) = no_isolation;       // suspend_point_type::suspend_point_type (E-GEN: `resumeTag`)
        pA->my_resume_task_stream.push(p, random_lane_selector(pTd->my_random));
        return "task " + std::to_string(x);
    }
    if (w[0] == "setidle" && w.size() == 3 && num(2, x)) { pA->mailbox(th).my_is_idle.store(x != 0, std::memory_order_relaxed); return "ok"; }
    std::intptr_t iso = 0;
    if (w[0] == "own" && w.size() == 2) {
        if (!loop_iso(iso)) return "bad-op";
        arena_slot& s = pA->my_slots[th];
        d1::task* r = nullptr;
        if (s.is_task_pool_published() && (r = s.get_task(ed, iso))) { ed.context = task_accessor::context(*r); ed.isolation = task_accessor::isolation(*r); }
        return took(r);
    }
    if (w[0] == "idle" && w.size() == 4 && num(2, x) && num(3, y)) {
        if (!loop_iso(iso) || x < 0 || x >= pN || x == t) return "bad-op";
        pTd->my_random.x = (unsigned)((x > t ? x - 1 : x) << 16);
        OnePass wt;
        d1::task* r = d.receive_or_steal_task<false>(*pTd, ed, wt, iso, /*fifo_allowed*/ y != 0, /*critical_allowed*/ false);
        return took(r);
    }
    if (w[0] == "critget" && w.size() == 2) {
        if (!loop_iso(iso)) return "bad-op";
        d.m_properties.critical_task_allowed = true;
        d1::task* r = d.get_critical_task(nullptr, ed, iso, true);
        d.m_properties.critical_task_allowed = true;
        return took(r);
    }
    if (w[0] == "stealc" && w.size() == 3 && num(2, x)) {
        if (!loop_iso(iso) || x < 0 || x >= pN || x == t) return "bad-op";
        pTd->my_random.x = (unsigned)((x > t ? x - 1 : x) << 16);
        d.m_properties.critical_task_allowed = true;
        d1::task* r = d.steal_or_get_critical(ed, *pA, (unsigned)th, pTd->my_random, iso, true);
        d.m_properties.critical_task_allowed = true;
        return took(r);
    }
    if (w[0] == "bypass" && w.size() == 2) {
        if (!loop_iso(iso) || stk.back().res) return "bad-op";      // resume_task::execute returns no task: nothing to bypass after it
        PTask* yv = new PTask(pNext++);
        task_accessor::context(*yv) = pCtx;
        ed.context = pCtx;
        d.m_properties.critical_task_allowed = true;
        d1::task* r = d.get_critical_task(yv, ed, iso, true);
        d.m_properties.critical_task_allowed = true;
        return took(r);
    }
    return "bad-op";
}
static void nest_loop() {
    std::string line;
    while (nEnd == 0) {
        if (!std::getline(std::cin, line)) { nEnd = 9; return; }
        std::istringstream is(line); std::vector<std::string> w; std::string x;
        while (is >> x) w.push_back(x);
        if (w.empty()) { printf("bad-op\n"); continue; }
        if (w[0] == "cfg" && w.size() == 2 && is_num(w[1]) && atoi(w[1].c_str()) >= 2 && atoi(w[1].c_str()) <= 8 && !nTa) {
            pN = atoi(w[1].c_str());
            nTa = new tbb::task_arena(pN, pN);
            nTa->initialize();
            pA = nTa->my_arena.load(std::memory_order_relaxed);
            pA->my_limit.store((unsigned)pN, std::memory_order_relaxed);
            for (int k = 0; k < pN; ++k) { nDisp.push_back(&pA->my_slots[k].default_task_dispatcher()); nCur.push_back(k); nStack.push_back({}); }
            pCtx = new d1::task_group_context(d1::task_group_context::isolated);
            printf("ok\n");
            continue;
        }
        if (!nTa) { printf("bad-op\n"); continue; }
        bool printed = false;
        std::string out = nest_line(w, printed);
        nrestore();
        if (!printed) printf("%s\n", out.c_str());
        else if (nEnd == 1 || nEnd == 2 || nEnd == 3) return;       // close the innermost real frame: its delegate returns / throws
    }
}
static void nest_main() {
    tbb::global_control gc(tbb::global_control::max_allowed_parallelism, 1);
    tbb::task_scheduler_handle h{tbb::attach{}};
    pTd = governor::get_thread_data();
    nOrigA = pTd->my_arena; nOrigI = pTd->my_arena_index; nOrigD = pTd->my_task_dispatcher;
    nest_loop();
    fflush(stdout);
    _exit(0);
}

// ---------------------------------------------------------------------------------------------------------------------
static std::string rle(const std::vector<int>& s) {
    std::ostringstream o;
    for (size_t i = 0; i < s.size();) {
        size_t j = i; while (j < s.size() && s[j] == s[i]) ++j;
        if (i) o << ",";
        o << s[i] << "*" << (j - i);
        i = j;
    }
    return o.str();
}
static std::vector<int> unrle(const char* p) {
    std::vector<int> out;
    while (*p) {
        int t = (int)strtol(p, (char**)&p, 10);
        long n = 1;
        if (*p == '*') n = strtol(p + 1, (char**)&p, 10);
        for (long i = 0; i < n; ++i) out.push_back(t);
        if (*p == ',') ++p;
    }
    return out;
}

int main(int argc, char** argv) {
    verif::init_determinism(argc, argv);
    if (argc >= 2 && std::string(argv[1]) == "iso") {
        std::vector<std::function<void()>> bodies{puppet_main};
        verif::ReplaySchedule rp;
        verif::run(bodies, rp, 200000000);
        return 0;
    }
    if (argc >= 2 && std::string(argv[1]) == "nest") {
        std::vector<std::function<void()>> bodies{nest_main};
        verif::ReplaySchedule rp;
        verif::run(bodies, rp, 200000000);
        return 0;
    }
    if (argc < 5 || std::string(argv[1]) != "scen") { fprintf(stderr, "usage: rt scen <file> rand <seed> [stay] | replay <rle> ; rt iso\n"); return 2; }
    std::ifstream f(argv[2]);
    if (!f || !parse_program(f)) { fprintf(stderr, "bad program\n"); return 2; }
    std::vector<std::function<void()>> bodies;
    bodies.push_back(main_body);
    for (size_t k = 1; k < P.threads.size(); ++k) bodies.push_back([k] { ext_body((int)k); });
    std::string mode = argv[3];
    verif::Result r;
    if (mode == "rand") {
        verif::RandomSchedule rs(strtoull(argv[4], nullptr, 10), argc > 5 ? atoi(argv[5]) : 96);
        r = verif::run(bodies, rs, MAX_STEPS);
    } else if (mode == "replay") {
        verif::ReplaySchedule rp; rp.tids = unrle(argv[4]);
        r = verif::run(bodies, rp, MAX_STEPS);
    } else return 2;
    if (r.deadlock && r.steps >= MAX_STEPS) {
        std::string where;
        for (size_t i = 0; i < P.arenas.size(); ++i) if (A_[i].ta) {
            arena* a = A_[i].ta->my_arena.load(std::memory_order_relaxed);
            if (!a) continue;
            where += " arena " + std::to_string(i) + ": fifo population=" + std::to_string((unsigned long)a->my_fifo_task_stream.population.load()) + " lanes";
            for (unsigned l = 0; l < a->my_fifo_task_stream.N; ++l) where += " " + std::to_string(a->my_fifo_task_stream.lanes[l].my_queue.size());
            where += " refs=" + std::to_string((unsigned long)a->my_references.load()) + " allotted=" + std::to_string((int)a->my_num_workers_allotted.load()) +
                     " pool_state=" + std::to_string((int)a->my_pool_state.test()) + " slots:";
            for (unsigned k = 0; k < a->my_num_slots; ++k) where += " [" + std::to_string((int)a->my_slots[k].my_is_occupied.load()) + " h" + std::to_string((long)a->my_slots[k].head.load()) + " t" + std::to_string((long)a->my_slots[k].tail.load()) + "]";
        }
        if (getenv("RT_TAIL")) { size_t n0 = r.log.size() > 400 ? r.log.size() - 400 : 0; for (size_t i = n0; i < r.log.size(); ++i) printf("tail %s\n", verif::format_event(r.log[i]).c_str()); }
        viol("LIVELOCK the run did not finish within " + std::to_string(MAX_STEPS) + " scheduling points (pending enqueued tasks " + std::to_string(g_pending) + ";" + where + ")");
    }
    else if (r.deadlock) {
        std::ostringstream o; o << "DEADLOCK every live thread is parked:";
        for (int t : r.parked) o << " " << t;
        viol(o.str());
    } else {
        for (int k = 0; k < MAXK; ++k) if (O_[k] && !g_obs_off[k])
            for (int t = 0; t < MAXT; ++t) if (g_bal[k][t] != 0)
                viol("OBS observer " + std::to_string(k) + ": thread " + std::to_string(t) + " got on_scheduler_entry but never on_scheduler_exit (the observer stayed active)");
    }
    if (getenv("RT_TRACE")) {
        int i = 0;
        for (auto& kv : g_idx) {            // the arenas in which bodies ran (addresses only: the arenas are gone by now)
            arena* a = kv.first;
            std::string n = "a" + std::to_string(i++);
            verif::name_addr(&a->my_mandatory_concurrency.my_state, n + ".mand"); verif::name_addr(&a->my_pool_state.my_state, n + ".pool");
            verif::name_addr(&a->my_num_workers_allotted, n + ".allot"); verif::name_addr(&a->my_references, n + ".refs");
        }
        size_t k = 0;
        for (auto& e : r.log) {
            ++k;
            if (e.kind == verif::K_NOTE) printf("note %zu t%d %s %llu %llu\n", k, e.tid, e.tag ? e.tag : "?", (unsigned long long)e.a, (unsigned long long)e.b);
            else if (e.addr && verif::addr_name(e.addr).compare(0, 4, "anon") != 0 && e.kind != verif::K_LOAD) printf("ev %zu %s\n", k, verif::format_event(e).c_str());
        }
    }
    if (getenv("RT_LIFE")) {
        // addresses are resolved while walking the log in order: an arena object created later in the memory of an earlier one takes over
        std::map<const void*, std::pair<int, std::string>> where;
        printf("life threads %zu\n", P.threads.size());
        for (auto& e : r.log) {
            if (e.kind == verif::K_NOTE) {
                if (e.tag && !strcmp(e.tag, "arena_new")) {
                    const LifeArena& L = g_life[e.a];
                    for (auto it = where.begin(); it != where.end();) { if (it->second.first == (int)e.a) it = where.erase(it); else ++it; }
                    where[(const void*)&L.a->my_references] = {(int)e.a, "refs"};
                    where[(const void*)&L.a->my_num_workers_allotted] = {(int)e.a, "allot"};
                    where[(const void*)&L.a->my_limit] = {(int)e.a, "limit"};
                    for (unsigned k = 0; k < L.ns; ++k) where[(const void*)&L.a->my_slots[k].my_is_occupied] = {(int)e.a, "occ" + std::to_string(k)};
                    printf("life new %llu %u %u %llu %u %u\n", (unsigned long long)e.a, L.ns, L.rs, L.refs0, L.allot0, L.limit0);
                }
                continue;
            }
            if (e.kind > verif::K_FXOR || !e.addr) continue;
            auto it = where.find(e.addr);
            if (it == where.end()) continue;
            printf("life ev %d %d %s %s %s %llu %llu %d\n", it->second.first, e.tid, verif::kind_name(e.kind), it->second.second.c_str(), verif::order_name(e.order),
                   (unsigned long long)e.a, (unsigned long long)e.b, e.ok);
        }
    }
    int nthreads = 0; for (int s : r.schedule) if (s + 1 > nthreads) nthreads = s + 1;
    printf("mon %s\n", g_viol.empty() ? "ok" : g_viol[0].c_str());
    for (size_t i = 1; i < g_viol.size(); ++i) printf("mon+ %s\n", g_viol[i].c_str());
    printf("stat steps %zu threads %d bodies %ld iso_checked %ld worker_bodies %ld max_workers_in_bodies %d obs_calls %ld enq_done %ld deadlock %d\n",
           r.steps, nthreads, g_bodies, g_iso_checked, g_worker_bodies, g_max_workers_in_bodies, g_obs_calls, g_enq_done, (int)r.deadlock);
    printf("sched %s\n", rle(r.schedule).c_str());
    fflush(stdout);
    if (r.deadlock) _exit(3);
    _exit(g_viol.empty() ? 0 : 1);
}
