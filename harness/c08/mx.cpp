// C08 E-SHIM harness for exclusive mutexes (spin_mutex by default; -DMUTEX_T=... -DMUTEX_HDR=... for others).
// Same protocol as rw.cpp; ops: lock try_lock unlock.  Events printed: accesses to the mutex's flag word.
#ifndef MUTEX_HDR
#define MUTEX_HDR <oneapi/tbb/spin_mutex.h>
#define MUTEX_T tbb::spin_mutex
#define MUTEX_WORD(m) (&(m).m_flag)
#endif
#include MUTEX_HDR
#include "hb.h"
#include <cstdio>
#include <cstring>
#include <sstream>
#include <string>
#include <vector>

static std::vector<std::vector<std::string>> g_progs;

static bool run_once(verif::Schedule& sch, int run_idx, bool print) {
    MUTEX_T m;
    int holders = 0; std::string gerr;
    size_t T = g_progs.size();
    std::vector<std::vector<std::string>> eff(T);
    std::vector<std::vector<int>> res(T);
    verif::clear_names();
    std::vector<std::function<void()>> bodies;
    for (size_t t = 0; t < T; ++t) bodies.push_back([&, t] {
        bool held = false;
        auto acquire = [&] { if (holders) gerr = "second thread entered the critical section"; holders++; held = true; cs_w(); };
        for (auto& op : g_progs[t]) {
            if (op == "lock" && !held) { eff[t].push_back(op); m.lock(); acquire(); }
            else if (op == "try_lock" && !held) { eff[t].push_back(op); bool b = m.try_lock(); res[t].push_back(b); if (b) acquire(); }
            else if (op == "unlock" && held) { eff[t].push_back(op); cs_w(); holders--; held = false; m.unlock(); }
        }
        if (held) { eff[t].push_back("unlock"); cs_w(); holders--; m.unlock(); }
    });
    verif::Result r = verif::run(bodies, sch);
    if (gerr.empty()) gerr = cs_hb(r, bodies.size());
    bool ok = gerr.empty() && !r.deadlock;
    if (print || !ok) {
        printf("run %d\n", run_idx);
        for (size_t t = 0; t < T; ++t) { printf("eff %zu", t); for (auto& o : eff[t]) printf(" %s", o.c_str()); printf("\n"); }
        const void* sa = (const void*)MUTEX_WORD(m);
        for (auto& e : r.log) if (e.addr == sa && e.kind <= verif::K_FXOR)
            printf("e %d %s word %s %llu %llu %d\n", e.tid, verif::kind_name(e.kind), verif::order_name(e.order), (unsigned long long)e.a, (unsigned long long)e.b, e.ok);
        for (size_t t = 0; t < T; ++t) { printf("res %zu", t); for (int v : res[t]) printf(" %d", v); printf("\n"); }
        printf("mon %s%s\n", gerr.empty() ? (r.deadlock ? "DEADLOCK" : "ok") : "VIOLATION ", gerr.c_str());
        printf("sched"); for (int s : r.schedule) printf(" %d", s); printf("\nend\n");
        fflush(stdout);
    }
    if (r.deadlock) { fflush(stdout); _exit(3); }
    return ok;
}

int main(int argc, char** argv) {
    if (argc < 3) return 2;
    char line[1024];
    while (fgets(line, sizeof line, stdin)) {
        std::istringstream is(line); std::string w; is >> w;
        if (w != "prog") continue;
        std::vector<std::string> ops; while (is >> w) ops.push_back(w);
        g_progs.push_back(ops);
    }
    std::string mode = argv[1];
    long maxruns = argc > 3 ? atol(argv[3]) : 1;
    long runs = 0, bad = 0;
    if (mode == "rand") {
        unsigned long long seed = strtoull(argv[2], 0, 10);
        for (long i = 0; i < maxruns; ++i) { verif::RandomSchedule s(seed * 7919 + i, 64 + (int)(i % 3) * 64); if (!run_once(s, (int)i, true)) bad++; runs++; }
    } else if (mode == "dfs") {
        verif::DfsSchedule d(atoi(argv[2]));
        do { if (!run_once(d, (int)runs, false)) { bad++; break; } runs++; } while (runs < maxruns && d.next());
    } else if (mode == "replay") {
        verif::ReplaySchedule s; std::stringstream ss(argv[2]); std::string tok;
        while (std::getline(ss, tok, ',')) if (!tok.empty()) s.tids.push_back(atoi(tok.c_str()));
        if (!run_once(s, 0, true)) bad++; runs++;
    }
    printf("summary runs=%ld bad=%ld\n", runs, bad);
    return bad ? 1 : 0;
}
